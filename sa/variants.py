"""Behaviour-preserving rewrites of the whole package, as AST transformations (no code of the package is run).

Used by tools/machinetwins.py (development: the rewritten package's tests are run to confirm that behaviour is preserved) and by the
thorough tier's self-validation (sa/selftest.py: the verdict of a property on the current tree must not change when the tree is
rewritten -- a verdict that does depends on how the code is spelled, not on what it does)."""
import ast
import collections
import pathlib


def each_file(root):
    for p in sorted((pathlib.Path(root) / "amaranth_soc").rglob("*.py")):
        yield p


def rewrite(root, fn):
    for p in each_file(root):
        tree = ast.parse(p.read_text())
        tree = fn(tree) or tree
        ast.fix_missing_locations(tree)
        p.write_text(ast.unparse(tree) + "\n")


# ---- transformations ---------------------------------------------------------------------------------------------------------------
def t_unparse(tree):
    return tree


def t_locals(tree):
    class Ren(ast.NodeTransformer):
        def __init__(self, names):
            self.names = names

        def visit_Name(self, n):
            if n.id in self.names:
                n.id += "_lv"
            return n

        def visit_ExceptHandler(self, n):
            if n.name in self.names:
                n.name += "_lv"
            self.generic_visit(n)
            return n

    def process(fn):
        params, declared, nested, stores = set(), set(), set(), set()
        for sub in ast.walk(fn):
            if isinstance(sub, (ast.FunctionDef, ast.Lambda, ast.AsyncFunctionDef)):
                a = sub.args
                for x in a.posonlyargs + a.args + a.kwonlyargs:
                    params.add(x.arg)
                if a.vararg:
                    params.add(a.vararg.arg)
                if a.kwarg:
                    params.add(a.kwarg.arg)
            if isinstance(sub, (ast.Global, ast.Nonlocal)):
                declared |= set(sub.names)
            if isinstance(sub, (ast.FunctionDef, ast.ClassDef)) and sub is not fn:
                nested.add(sub.name)
            if isinstance(sub, ast.Name) and isinstance(sub.ctx, (ast.Store, ast.Del)):
                stores.add(sub.id)
            if isinstance(sub, ast.ExceptHandler) and sub.name:
                stores.add(sub.name)
        names = stores - params - declared - nested - {"_", "__class__"}
        for st in fn.body:
            Ren(names).visit(st)
    for node in ast.walk(tree):
        if isinstance(node, (ast.ClassDef, ast.Module)):
            for st in node.body:
                if isinstance(st, ast.FunctionDef):
                    process(st)
    return tree


def t_order(tree):
    class T(ast.NodeTransformer):
        def visit_ClassDef(self, node):
            self.generic_visit(node)
            idxs = [i for i, s in enumerate(node.body) if isinstance(s, ast.FunctionDef)]
            fns = sorted((node.body[i] for i in idxs), key=lambda f: f.name)      # stable: a property stays before its setter
            for i, f in zip(idxs, fns):
                node.body[i] = f
            return node

        def visit_If(self, node):
            self.generic_visit(node)
            if node.orelse and not (len(node.orelse) == 1 and isinstance(node.orelse[0], ast.If)):
                t = node.test
                node.test = t.operand if isinstance(t, ast.UnaryOp) and isinstance(t.op, ast.Not) else ast.UnaryOp(op=ast.Not(), operand=t)
                node.body, node.orelse = node.orelse, node.body
            return node

    def split_lists(stmts):
        out = []
        for s in stmts:
            for fld in ("body", "orelse", "finalbody"):
                b = getattr(s, fld, None)
                if isinstance(b, list) and b and isinstance(b[0], ast.stmt):
                    setattr(s, fld, split_lists(b))
            if isinstance(s, ast.Try):
                for h in s.handlers:
                    h.body = split_lists(h.body)
            if isinstance(s, ast.AugAssign) and isinstance(s.op, ast.Add) and isinstance(s.value, ast.List) and isinstance(s.target, ast.Attribute) \
                    and isinstance(s.target.value, ast.Attribute) and s.target.value.attr == "d" and \
                    not any(isinstance(e, ast.Starred) for e in s.value.elts):
                for e in s.value.elts:
                    out.append(ast.copy_location(ast.AugAssign(target=s.target, op=ast.Add(), value=e), s))
            else:
                out.append(s)
        return out
    tree = T().visit(tree)
    for node in ast.walk(tree):
        if isinstance(node, ast.FunctionDef):
            node.body = split_lists(node.body)
    return tree


def t_demorgan(tree):
    def neg(x):
        return x.operand if isinstance(x, ast.UnaryOp) and isinstance(x.op, ast.Not) else ast.UnaryOp(op=ast.Not(), operand=x)

    class T(ast.NodeTransformer):
        def visit_If(self, node):
            self.generic_visit(node)
            t = node.test
            if isinstance(t, ast.BoolOp):
                other = ast.And() if isinstance(t.op, ast.Or) else ast.Or()
                node.test = ast.UnaryOp(op=ast.Not(), operand=ast.BoolOp(op=other, values=[neg(v) for v in t.values]))
            return node

        def visit_For(self, node):
            self.generic_visit(node)
            if isinstance(node.target, ast.Tuple):
                tgt = node.target
                node.target = ast.Name(id="_item", ctx=ast.Store())
                node.body.insert(0, ast.Assign(targets=[tgt], value=ast.Name(id="_item", ctx=ast.Load())))
            return node
    return T().visit(tree)


def t_hoist(tree):
    for cls in [c for c in ast.walk(tree) if isinstance(c, ast.ClassDef)]:
        for fn in [f for f in cls.body if isinstance(f, ast.FunctionDef)]:
            if fn.name in ("__init__", "__new__") or fn.decorator_list:
                continue
            if not fn.args.args or fn.args.args[0].arg != "self":
                continue
            if any(isinstance(x, (ast.Yield, ast.YieldFrom, ast.Lambda)) or (isinstance(x, ast.FunctionDef) and x is not fn) for x in ast.walk(fn)):
                continue
            loads, stored = collections.Counter(), set()
            for x in ast.walk(fn):
                if isinstance(x, ast.Attribute) and isinstance(x.value, ast.Name) and x.value.id == "self":
                    if isinstance(x.ctx, ast.Load):
                        loads[x.attr] += 1
                    else:
                        stored.add(x.attr)
            called = {x.func.attr for x in ast.walk(fn) if isinstance(x, ast.Call) and isinstance(x.func, ast.Attribute) and
                      isinstance(x.func.value, ast.Name) and x.func.value.id == "self"}
            names = {x.id for x in ast.walk(fn) if isinstance(x, ast.Name)} | {a.arg for a in fn.args.args + fn.args.kwonlyargs}
            ren = {a: a.lstrip("_") + "_h" for a, c in loads.items()
                   if c >= 2 and a not in stored and a not in called and (a.lstrip("_") + "_h") not in names}
            if not ren:
                continue

            class R(ast.NodeTransformer):
                def visit_Attribute(self, x):
                    self.generic_visit(x)
                    if isinstance(x.value, ast.Name) and x.value.id == "self" and x.attr in ren and isinstance(x.ctx, ast.Load):
                        return ast.copy_location(ast.Name(id=ren[x.attr], ctx=ast.Load()), x)
                    return x
            body = fn.body
            k = 1 if (body and isinstance(body[0], ast.Expr) and isinstance(body[0].value, ast.Constant)) else 0
            newbody = [R().visit(s) for s in body[k:]]
            pre = [ast.Assign(targets=[ast.Name(id=v, ctx=ast.Store())],
                              value=ast.Attribute(value=ast.Name(id="self", ctx=ast.Load()), attr=a, ctx=ast.Load())) for a, v in ren.items()]
            fn.body = body[:k] + pre + newbody
    return tree


def t_reflect(tree):
    refl = {ast.Lt: ast.Gt, ast.Gt: ast.Lt, ast.LtE: ast.GtE, ast.GtE: ast.LtE}

    class T(ast.NodeTransformer):
        def visit_IfExp(self, n):
            self.generic_visit(n)
            t = n.test
            n.test = t.operand if isinstance(t, ast.UnaryOp) and isinstance(t.op, ast.Not) else ast.UnaryOp(op=ast.Not(), operand=t)
            n.body, n.orelse = n.orelse, n.body
            return n

        def visit_Compare(self, n):
            self.generic_visit(n)
            if len(n.ops) == 1 and type(n.ops[0]) in refl:
                n.left, n.comparators = n.comparators[0], [n.left]
                n.ops = [refl[type(n.ops[0])]()]
            return n

        def visit_BinOp(self, n):
            self.generic_visit(n)
            if isinstance(n.op, (ast.BitAnd, ast.BitOr)):
                n.left, n.right = n.right, n.left
            return n

    def extract_msgs(fn):
        k = [0]

        def walk(stmts):
            i = 0
            while i < len(stmts):
                s = stmts[i]
                for fld in ("body", "orelse", "finalbody"):
                    b = getattr(s, fld, None)
                    if isinstance(b, list) and b and isinstance(b[0], ast.stmt):
                        walk(b)
                if isinstance(s, ast.Raise) and isinstance(s.exc, ast.Call) and len(s.exc.args) == 1 and isinstance(s.exc.args[0], (ast.JoinedStr, ast.BinOp)):
                    k[0] += 1
                    nm = f"message_{k[0]}"
                    stmts.insert(i, ast.Assign(targets=[ast.Name(id=nm, ctx=ast.Store())], value=s.exc.args[0]))
                    s.exc.args = [ast.Name(id=nm, ctx=ast.Load())]
                    i += 1
                i += 1
        walk(fn.body)
    tree = T().visit(tree)
    for fn in [f for f in ast.walk(tree) if isinstance(f, ast.FunctionDef)]:
        extract_msgs(fn)
    return tree


def t_dslnest(tree):
    """`with m.If(a & b): BODY` (no Elif / Else following) -> `with m.If(a): with m.If(b): BODY`; function parameters get annotations;
    docstrings are dropped."""
    def is_ctx(st, names):
        return isinstance(st, ast.With) and len(st.items) == 1 and isinstance(st.items[0].context_expr, ast.Call) and \
            isinstance(st.items[0].context_expr.func, ast.Attribute) and st.items[0].context_expr.func.attr in names

    def nest(stmts):
        for i, st in enumerate(stmts):
            for fld in ("body", "orelse", "finalbody"):
                b = getattr(st, fld, None)
                if isinstance(b, list) and b and isinstance(b[0], ast.stmt):
                    nest(b)
            if is_ctx(st, ("If",)) and not (i + 1 < len(stmts) and is_ctx(stmts[i + 1], ("Elif", "Else"))):
                call = st.items[0].context_expr
                if len(call.args) == 1 and isinstance(call.args[0], ast.BinOp) and isinstance(call.args[0].op, ast.BitAnd):
                    a, b = call.args[0].left, call.args[0].right
                    inner = ast.With(items=[ast.withitem(context_expr=ast.Call(func=call.func, args=[b], keywords=[]))], body=st.body)
                    call.args = [a]
                    st.body = [inner]
    for fn in [f for f in ast.walk(tree) if isinstance(f, ast.FunctionDef)]:
        nest(fn.body)
        for a in fn.args.args + fn.args.kwonlyargs:
            if a.arg not in ("self", "cls") and a.annotation is None:
                a.annotation = ast.Constant(value="object")
        if fn.returns is None and fn.name != "__init__":
            fn.returns = ast.Constant(value="object")
    for node in ast.walk(tree):
        if isinstance(node, (ast.FunctionDef, ast.ClassDef, ast.Module)) and node.body and isinstance(node.body[0], ast.Expr) and \
                isinstance(node.body[0].value, ast.Constant) and isinstance(node.body[0].value.value, str) and len(node.body) > 1:
            del node.body[0]
    return tree


def t_temps(tree):
    """Temporaries: `m.d.x += T.eq(<operation>)` -> `value_k = <operation>; m.d.x += T.eq(value_k)`; `if <test>: raise ...` ->
    `refuse_k = <test>; if refuse_k: raise ...` (single-statement bodies that raise)."""
    def walk(stmts, k):
        i = 0
        while i < len(stmts):
            st = stmts[i]
            for fld in ("body", "orelse", "finalbody"):
                b = getattr(st, fld, None)
                if isinstance(b, list) and b and isinstance(b[0], ast.stmt):
                    walk(b, k)
            if isinstance(st, ast.AugAssign) and isinstance(st.op, ast.Add) and isinstance(st.value, ast.Call) and \
                    isinstance(st.value.func, ast.Attribute) and st.value.func.attr == "eq" and len(st.value.args) == 1 and \
                    isinstance(st.value.args[0], (ast.BinOp, ast.UnaryOp, ast.Call)) and isinstance(st.target, ast.Attribute) and \
                    isinstance(st.target.value, ast.Attribute) and st.target.value.attr == "d":
                k[0] += 1
                nm = f"value_{k[0]}"
                stmts.insert(i, ast.Assign(targets=[ast.Name(id=nm, ctx=ast.Store())], value=st.value.args[0]))
                st.value.args = [ast.Name(id=nm, ctx=ast.Load())]
                i += 1
            elif isinstance(st, ast.If) and not st.orelse and len(st.body) == 1 and isinstance(st.body[0], ast.Raise) and \
                    not isinstance(st.test, ast.Name):
                k[0] += 1
                nm = f"refuse_{k[0]}"
                stmts.insert(i, ast.Assign(targets=[ast.Name(id=nm, ctx=ast.Store())], value=st.test))
                st.test = ast.Name(id=nm, ctx=ast.Load())
                i += 1
            i += 1
    for fn in [f for f in ast.walk(tree) if isinstance(f, ast.FunctionDef)]:
        walk(fn.body, [0])
    return tree


def t_augassign(tree):
    """`acc |= x` -> `acc = acc | x` (names only; not list displays); `for i, x in enumerate(S)` over a plain name or attribute ->
    `for i in range(len(S)): x = S[i]`."""
    class T(ast.NodeTransformer):
        def visit_AugAssign(self, n):
            self.generic_visit(n)
            if isinstance(n.target, ast.Name) and isinstance(n.op, (ast.BitOr, ast.BitAnd, ast.Add, ast.Sub, ast.Mult)) and \
                    not isinstance(n.value, (ast.List, ast.ListComp)):
                return ast.copy_location(ast.Assign(targets=[ast.Name(id=n.target.id, ctx=ast.Store())],
                                                    value=ast.BinOp(left=ast.Name(id=n.target.id, ctx=ast.Load()), op=n.op, right=n.value)), n)
            return n

        def visit_For(self, n):
            self.generic_visit(n)
            it = n.iter
            if isinstance(it, ast.Call) and isinstance(it.func, ast.Name) and it.func.id == "enumerate" and len(it.args) == 1 and \
                    not it.keywords and isinstance(it.args[0], ast.Name) and isinstance(n.target, ast.Tuple) and \
                    len(n.target.elts) == 2 and isinstance(n.target.elts[0], ast.Name):
                seq, i, x = it.args[0], n.target.elts[0], n.target.elts[1]
                n.iter = ast.Call(func=ast.Name(id="range", ctx=ast.Load()),
                                  args=[ast.Call(func=ast.Name(id="len", ctx=ast.Load()), args=[seq], keywords=[])], keywords=[])
                n.target = ast.Name(id=i.id, ctx=ast.Store())
                n.body.insert(0, ast.Assign(targets=[x], value=ast.Subscript(value=seq, slice=ast.Name(id=i.id, ctx=ast.Load()), ctx=ast.Load())))
            return n
    return T().visit(tree)


def t_hworder(tree):
    """Hardware statements in another order: runs of `m.d.<domain> += T.eq(V)` with pairwise different targets are reversed; sibling
    `with m.Case(<constant pattern>):` arms of one Switch are reversed (Default stays last)."""
    def key(st):
        if isinstance(st, ast.AugAssign) and isinstance(st.op, ast.Add) and isinstance(st.target, ast.Attribute) and \
                isinstance(st.target.value, ast.Attribute) and st.target.value.attr == "d" and isinstance(st.value, ast.Call) and \
                isinstance(st.value.func, ast.Attribute) and st.value.func.attr == "eq":
            return ast.unparse(st.value.func.value)
        return None

    def is_case(st):
        return isinstance(st, ast.With) and len(st.items) == 1 and isinstance(st.items[0].context_expr, ast.Call) and \
            isinstance(st.items[0].context_expr.func, ast.Attribute) and st.items[0].context_expr.func.attr == "Case" and \
            st.items[0].context_expr.args and all(isinstance(a, (ast.Constant, ast.Attribute)) for a in st.items[0].context_expr.args)

    def walk(stmts):
        for st in stmts:
            for fld in ("body", "orelse", "finalbody"):
                b = getattr(st, fld, None)
                if isinstance(b, list) and b and isinstance(b[0], ast.stmt):
                    walk(b)
        i = 0
        while i < len(stmts):
            j = i
            while j < len(stmts) and key(stmts[j]) is not None:
                j += 1
            run = stmts[i:j]
            if len(run) >= 2 and len({key(s_) for s_ in run}) == len(run):
                stmts[i:j] = list(reversed(run))
            i = max(j, i + 1)
        i = 0
        while i < len(stmts):
            j = i
            while j < len(stmts) and is_case(stmts[j]):
                j += 1
            run = stmts[i:j]
            pats = [ast.unparse(a) for s_ in run for a in s_.items[0].context_expr.args]
            if len(run) >= 2 and len(set(pats)) == len(pats):
                stmts[i:j] = list(reversed(run))
            i = max(j, i + 1)
    for fn in [f for f in ast.walk(tree) if isinstance(f, ast.FunctionDef)]:
        walk(fn.body)
    return tree


def t_props(tree):
    """Inside a class, a read of `self._x` becomes `self.x` when the class has a property `x` whose body is `return self._x` (and the
    read is not in that property, in `__init__`, or a store)."""
    for cls in [c for c in ast.walk(tree) if isinstance(c, ast.ClassDef)]:
        props = {}
        for fn in cls.body:
            if isinstance(fn, ast.FunctionDef) and any(isinstance(d, ast.Name) and d.id == "property" for d in fn.decorator_list):
                body = [s for s in fn.body if not (isinstance(s, ast.Expr) and isinstance(s.value, ast.Constant))]
                if len(body) == 1 and isinstance(body[0], ast.Return) and isinstance(body[0].value, ast.Attribute) and \
                        isinstance(body[0].value.value, ast.Name) and body[0].value.value.id == "self":
                    props[body[0].value.attr] = fn.name
        if not props:
            continue
        for fn in cls.body:
            if not isinstance(fn, ast.FunctionDef) or fn.name in ("__init__", "__new__") or fn.name in props.values():
                continue
            for n in ast.walk(fn):
                if isinstance(n, ast.Attribute) and isinstance(n.ctx, ast.Load) and isinstance(n.value, ast.Name) and n.value.id == "self" and \
                        n.attr in props:
                    n.attr = props[n.attr]
    return tree


def t_comp2loop(tree):
    """`x = [E for T in S if C]` (a statement, one generator, `x` a plain name) -> `x = []` / `for T in S: if C: x.append(E)`."""
    def walk(stmts, fn):
        i = 0
        while i < len(stmts):
            st = stmts[i]
            for fld in ("body", "orelse", "finalbody"):
                b = getattr(st, fld, None)
                if isinstance(b, list) and b and isinstance(b[0], ast.stmt) and not isinstance(st, (ast.FunctionDef, ast.ClassDef)):
                    walk(b, fn)
            if isinstance(st, ast.Assign) and len(st.targets) == 1 and isinstance(st.targets[0], ast.Name) and isinstance(st.value, ast.ListComp) and \
                    len(st.value.generators) == 1 and not st.value.generators[0].is_async:
                g = st.value.generators[0]
                bound = {n.id for n in ast.walk(g.target) if isinstance(n, ast.Name)}
                inside = {id(n) for n in ast.walk(st.value)}
                name = st.targets[0].id
                if not any(isinstance(n, ast.Name) and n.id in bound and id(n) not in inside for n in ast.walk(fn)) and \
                        not any(isinstance(n, ast.Name) and n.id == name for n in ast.walk(st.value)):
                    body = [ast.Expr(value=ast.Call(func=ast.Attribute(value=ast.Name(id=name, ctx=ast.Load()), attr="append", ctx=ast.Load()),
                                                    args=[st.value.elt], keywords=[]))]
                    for c in reversed(g.ifs):
                        body = [ast.If(test=c, body=body, orelse=[])]
                    for n in ast.walk(g.target):
                        if isinstance(n, (ast.Name, ast.Tuple, ast.List)):
                            n.ctx = ast.Store()
                    loop = ast.For(target=g.target, iter=g.iter, body=body, orelse=[], type_comment=None)
                    stmts[i:i + 1] = [ast.Assign(targets=[ast.Name(id=name, ctx=ast.Store())], value=ast.List(elts=[], ctx=ast.Load())), loop]
                    i += 1
            i += 1
    for fn in [f for f in ast.walk(tree) if isinstance(f, ast.FunctionDef)]:
        walk(fn.body, fn)
    return tree


VARIANTS = collections.OrderedDict(unparse=[t_unparse], locals=[t_locals], order=[t_order], demorgan=[t_demorgan], hoist=[t_hoist],
                                   reflect=[t_reflect], dslnest=[t_dslnest], temps=[t_temps], augassign=[t_augassign], hworder=[t_hworder], props=[t_props],
                                   comp2loop=[t_comp2loop])
VARIANTS["hworder2"] = [t_order, t_hworder, t_augassign, t_temps]
VARIANTS["all"] = [t_locals, t_order, t_demorgan, t_hoist, t_reflect, t_dslnest]



# rewrites whose soundness does not depend on anything but Python's semantics (no assumption about widths, aliasing or call effects):
# the ones the thorough tier applies to whatever tree it is pointed at
SAFE = ("unparse", "locals", "order", "demorgan", "reflect", "temps", "augassign", "hworder")
