#!/venv/bin/python
"""Checker self-validation: run the rule packs on scratch variants of the current tree.

A variant is the current /repo/amaranth_soc with one (file, old, new) text edit applied, written to a fresh
temporary directory outside /repo and /verif and removed afterwards.  *Mutants* break a property (the check of
that property should fire); *twins* preserve behaviour (every check must stay silent).  Self-validation never
changes the verdict on /repo: it only reports how sharp the rules currently are."""
import argparse
import json
import os
import shutil
import sys
import tempfile
from concurrent.futures import ProcessPoolExecutor

HERE = os.path.dirname(os.path.abspath(__file__))
sys.path.insert(0, os.path.dirname(HERE))

PROPS = [f"C{i:02d}" for i in range(1, 21)]


def load_corpus():
    out = []
    for fn, kind in (("mutants1.py", "mutant"), ("mutants2.py", "mutant"), ("mutants3.py", "mutant"), ("mutants4.py", "mutant"), ("mutants5.py", "mutant"),
                     ("twins.py", "twin"), ("twins2.py", "twin")):
        p = os.path.join(HERE, "corpus", fn)
        if not os.path.exists(p):
            continue
        ns = {}
        with open(p) as f:
            exec(compile(f.read(), p, "exec"), ns)
        for m in ns["M"]:
            out.append({"id": m[0], "file": m[1], "old": m[2], "new": m[3], "kind": kind})
    exp_path = os.path.join(HERE, "corpus", "expect.json")
    expect = {}
    if os.path.exists(exp_path):
        with open(exp_path) as f:
            expect = json.load(f)
    for m in out:
        short = m["id"].split("_")[0]
        e = expect.get(short, {})
        m["short"] = short
        m["expect"] = e.get("fires", [])
        m["equivalent"] = e.get("equivalent", m["kind"] == "twin")
        if m["equivalent"]:
            m["kind"] = "twin"
    return out


def make_variant(m, repo, dest):
    src = os.path.join(repo, "amaranth_soc")
    dst = os.path.join(dest, "amaranth_soc")
    shutil.copytree(src, dst, ignore=shutil.ignore_patterns("__pycache__"))
    p = os.path.join(dest, m["file"])
    with open(p) as f:
        text = f.read()
    pairs = m["old"] if isinstance(m["old"], list) else [(m["old"], m["new"])]
    for old, new in pairs:
        if old not in text:
            return False
        text = text.replace(old, new, 1)
    with open(p, "w") as f:
        f.write(text)
    return True


def _run_one(args):
    m, props, repo, tier = args
    from sa import check
    from sa.core import report
    d = tempfile.mkdtemp(prefix="verif-st-")
    try:
        if not make_variant(m, repo, d):
            return m["id"], None
        # the variant must still be valid Python
        import ast
        with open(os.path.join(d, m["file"])) as f:
            try:
                ast.parse(f.read())
            except SyntaxError as e:
                return m["id"], {"_syntax": str(e)}
        res = {}
        for p in props:
            rep = check.run_property(p, tier, d)
            code, unlisted, hits, und = report.verdict(rep)
            res[p] = {"code": code,
                      "viol": [f"{o.rule} {o.site}: {o.construct}" for o in unlisted][:6],
                      "und": [f"{o.rule} {o.site}: {o.construct} -- {o.detail}" for o in und][:6]}
        return m["id"], res
    finally:
        shutil.rmtree(d, ignore_errors=True)


def sweep(muts, props, repo=None, tier="quick", jobs=16):
    repo = repo or os.environ.get("VERIF_REPO", "/repo")
    tasks = [(m, props, repo, tier) for m in muts]
    out = {}
    if jobs <= 1 or len(tasks) <= 1:
        for t in tasks:
            k, v = _run_one(t)
            out[k] = v
        return out
    with ProcessPoolExecutor(max_workers=min(jobs, len(tasks))) as ex:
        for k, v in ex.map(_run_one, tasks):
            out[k] = v
    return out


def available_props():
    return [p for p in PROPS if os.path.exists(os.path.join(HERE, "rules", p.lower() + ".py"))]


def run_for(pid, seed=0):
    """Self-validation for one property (thorough tier): expected-to-fire mutants and all twins."""
    corpus = load_corpus()
    muts = [m for m in corpus if m["kind"] == "mutant" and pid in m["expect"]]
    twins = [m for m in corpus if m["kind"] == "twin"]
    res = sweep(muts + twins, [pid])
    fired, missed, stale, noisy, und = [], [], [], [], []
    for m in muts:
        r = res.get(m["id"])
        if r is None or "_syntax" in r:
            stale.append(m["id"])
        elif r[pid]["code"] == 1:
            fired.append(m["id"])
        elif r[pid]["code"] == 2:
            und.append(m["id"])
        else:
            missed.append(m["id"])
    silent = []
    for m in twins:
        r = res.get(m["id"])
        if r is None or "_syntax" in r:
            stale.append(m["id"])
        elif r[pid]["code"] == 0:
            silent.append(m["id"])
        elif r[pid]["code"] == 1:
            noisy.append(m["id"])
        else:
            und.append(m["id"])
    # seeded defects (sub-agent written patches) recorded as detected by this property's check
    seed_fired, seed_missed = [], []
    det_path = os.path.join(os.path.dirname(HERE), "seeded", "DETECTION.json")
    if os.path.exists(det_path):
        from sa import seedtool
        with open(det_path) as f:
            det = json.load(f)
        names = sorted(n for n, v in det.items() if pid in v.get("fires", []))
        if names:
            from concurrent.futures import ProcessPoolExecutor as _PPE
            with _PPE(max_workers=min(16, len(names))) as ex:
                for name, r in ex.map(seedtool._detect_one, names):
                    if r.get(pid, {}).get("code") == 1:
                        seed_fired.append(name)
                    else:
                        seed_missed.append(name)
    # the verdict on the *current* tree must not depend on how the code is spelled: the same rules on behaviour-preserving rewrites of
    # the whole package (sa/variants.py; AST transformations, nothing is executed)
    rewrites = _rewrite_invariance(pid)
    weak = []
    for name, why in rewrites["changed"]:
        weak.append(f"verdict changes under the behaviour-preserving rewrite `{name}`: {why}")
    if seed_missed:
        weak.append(f"seeded defects no longer detected: {', '.join(seed_missed)}")
    if missed:
        weak.append(f"mutants not detected: {', '.join(missed)}")
    if noisy:
        weak.append(f"false alarm on behaviour-preserving twins: {', '.join(noisy)}")
    out = {
        "selftest": {"mutants_fired": len(fired), "mutants_total": len(muts) - len([s for s in stale if s in {m['id'] for m in muts}]),
                     "twins_silent": len(silent), "twins_total": len(twins) - len([s for s in stale if s in {m['id'] for m in twins}]),
                     "undecided_variants": und, "stale_variants": stale, "fired": fired, "missed": missed, "noisy": noisy,
                     "seeded_fired": seed_fired, "seeded_missed": seed_missed,
                     "rewrites_invariant": rewrites["same"], "rewrites_changed": [n for n, _ in rewrites["changed"]]},
        "selftest_summary": f"SELFTEST property={pid} mutants_fired={len(fired)}/{len(muts)} twins_silent={len(silent)}/{len(twins)} "
                            f"seeded_fired={len(seed_fired)}/{len(seed_fired) + len(seed_missed)} undecided={len(und)} stale={len(stale)} "
                            f"rewrites_invariant={len(rewrites['same'])}/{len(rewrites['same']) + len(rewrites['changed'])}",
        "selftest_weak": weak,
    }
    return out


def _rewrite_one(args):
    pid, name, repo = args
    import shutil
    import tempfile
    from sa import check, variants
    from sa.core import report
    tmp = tempfile.mkdtemp(prefix="verif-rw-")
    try:
        shutil.copytree(os.path.join(repo, "amaranth_soc"), os.path.join(tmp, "amaranth_soc"), ignore=shutil.ignore_patterns("__pycache__"))
        for fn in variants.VARIANTS[name]:
            variants.rewrite(tmp, fn)
        rep = check.run_property(pid, "quick", tmp)
        code, unlisted, hits, undl = report.verdict(rep)
        return name, code, sorted({o.rule for o in unlisted}), sorted({o.rule for o in undl})
    except Exception as e:                              # a rewrite that cannot be applied says nothing
        return name, None, [f"{type(e).__name__}: {e}"], []
    finally:
        shutil.rmtree(tmp, ignore_errors=True)


def _rewrite_invariance(pid, repo="/repo"):
    from concurrent.futures import ProcessPoolExecutor as _PPE
    from sa import check, variants
    from sa.core import report
    base = check.run_property(pid, "quick", repo)
    bcode, bun, bhits, bund = report.verdict(base)
    bkey = (bcode, sorted({o.rule for o in bun}), sorted({o.rule for o in bund}))
    same, changed = [], []
    with _PPE(max_workers=min(8, len(variants.SAFE))) as ex:
        for name, code, viol, und in ex.map(_rewrite_one, [(pid, n, repo) for n in variants.SAFE]):
            if code is None:
                continue
            if (code, viol, und) == bkey:
                same.append(name)
            else:
                changed.append((name, f"exit {bkey[0]} -> {code}; violated rules {bkey[1]} -> {viol}; undecided {bkey[2]} -> {und}"))
    return {"same": same, "changed": changed}


def main():
    ap = argparse.ArgumentParser()
    ap.add_argument("--props", default="")
    ap.add_argument("--ids", default="")
    ap.add_argument("--kind", default="")
    ap.add_argument("--tier", default="quick")
    ap.add_argument("--jobs", type=int, default=16)
    ap.add_argument("--json", default="")
    ap.add_argument("-v", action="store_true")
    a = ap.parse_args()
    props = [p for p in a.props.split(",") if p] or available_props()
    corpus = load_corpus()
    if a.ids:
        want = set(a.ids.split(","))
        corpus = [m for m in corpus if m["short"] in want or m["id"] in want]
    if a.kind:
        corpus = [m for m in corpus if m["kind"] == a.kind]
    # the sweep is only meaningful when the unchanged tree is clean
    from sa import check as _check
    from sa.core import report as _report
    dirty = []
    for p in props:
        code = _report.verdict(_check.run_property(p, a.tier))[0]
        if code != 0:
            dirty.append(f"{p}(exit {code})")
    if dirty:
        print("unchanged tree is not clean for: " + ", ".join(dirty) + " -- fix that first")
        return 2
    res = sweep(corpus, props, tier=a.tier, jobs=a.jobs)
    bad = 0
    for m in corpus:
        r = res.get(m["id"])
        if r is None:
            print(f"{m['id']:38s} STALE (old text not found)")
            continue
        if "_syntax" in r:
            print(f"{m['id']:38s} SYNTAX {r['_syntax']}")
            continue
        fires = [p for p in props if r[p]["code"] == 1]
        unds = [p for p in props if r[p]["code"] == 2]
        exp = [p for p in m["expect"] if p in props]
        status = "ok"
        if m["kind"] == "twin":
            if fires:
                status = "FALSE-ALARM"
            elif unds:
                status = "undecided"
        else:
            if exp and not set(exp) <= set(fires):
                status = "MISSED " + ",".join(sorted(set(exp) - set(fires)))
            elif not exp and not fires:
                status = "silent(no expectation)"
        if status not in ("ok",):
            bad += 1
        print(f"{m['id']:38s} {m['kind']:6s} fires={','.join(fires) or '-':20s} und={','.join(unds) or '-':12s} "
              f"expect={','.join(exp) or '-':12s} {status}")
        if a.v:
            for p in fires + unds:
                for ln in r[p]["viol"] + r[p]["und"]:
                    print(f"      {p}: {ln[:230]}")
    if a.json:
        with open(a.json, "w") as f:
            json.dump(res, f, indent=1)
    return 0


if __name__ == "__main__":
    sys.exit(main())
