"""E-IDX: package index.  Parses every amaranth_soc/**/*.py of the *current* tree (never imports it)."""
import ast
import os

from . import ir
from .report import AnchorMissing, REPO

PKG = "amaranth_soc"


class FuncInfo:
    def __init__(self, node, cls, module):
        self.node = node
        self.name = node.name
        self.cls = cls
        self.module = module
        self.decorators = [ast.unparse(d) for d in node.decorator_list]
        self.qual = (cls.qual + "." if cls else "") + node.name
        self.site = f"{module.rel}::{self.qual}"
        self.params = [a.arg for a in node.args.posonlyargs + node.args.args + node.args.kwonlyargs]
        if node.args.vararg:
            self.params.append(node.args.vararg.arg)
        if node.args.kwarg:
            self.params.append(node.args.kwarg.arg)

    @property
    def is_static(self):
        return "staticmethod" in self.decorators

    @property
    def is_setter(self):
        return any(d.endswith(".setter") for d in self.decorators)

    @property
    def is_property(self):
        return "property" in self.decorators

    def __repr__(self):
        return f"<Func {self.site}>"


class ClassInfo:
    def __init__(self, node, outer, module):
        self.node = node
        self.name = node.name
        self.outer = outer
        self.module = module
        self.qual = (outer.qual + "." if outer else "") + node.name
        self.site = f"{module.rel}::{self.qual}"
        self.bases = [ast.unparse(b) for b in node.bases]
        self.base_nodes = list(node.bases)
        self.methods = {}       # name -> [FuncInfo] (property getter/setter share a name)
        self.nested = {}
        self.class_attrs = {}   # NAME = <expr> in the class body
        for st in node.body:
            if isinstance(st, (ast.FunctionDef, ast.AsyncFunctionDef)):
                self.methods.setdefault(st.name, []).append(FuncInfo(st, self, module))
            elif isinstance(st, ast.ClassDef):
                self.nested[st.name] = ClassInfo(st, self, module)
            elif isinstance(st, ast.Assign) and len(st.targets) == 1 and isinstance(st.targets[0], ast.Name):
                self.class_attrs[st.targets[0].id] = st.value
        self._field_types = None
        self._members = None
        self._members_evaluated = False

    def method(self, name, kind=None):
        """kind: None (plain / getter), 'setter'."""
        for f in self.methods.get(name, []):
            if kind == 'setter' and f.is_setter:
                return f
            if kind is None and not f.is_setter:
                return f
        return None

    def all_classes(self):
        yield self
        for c in self.nested.values():
            yield from c.all_classes()

    def is_enum(self):
        return any(b.split(".")[-1] in ("Enum", "IntEnum", "Flag") for b in self.bases)

    def enum_table(self):
        tab = {}
        for k, v in self.class_attrs.items():
            if isinstance(v, ast.Constant):
                tab[k] = v.value
        return tab

    def __repr__(self):
        return f"<Class {self.site}>"


class ModuleInfo:
    def __init__(self, path, rel):
        self.path = path
        self.rel = rel                      # e.g. 'csr/bus.py'
        with open(path) as f:
            self.source = f.read()
        self.tree = ast.parse(self.source, filename=path)
        self.classes = {}
        self.functions = {}
        self.imports = {}                   # alias -> ('module', relpath_or_pkgdir) | ('member', relmod, name)
        self.star_imports = []
        pkgdir = os.path.dirname(rel)       # '' or 'csr'
        for st in self.tree.body:
            if isinstance(st, ast.ClassDef):
                self.classes[st.name] = ClassInfo(st, None, self)
            elif isinstance(st, ast.FunctionDef):
                self.functions[st.name] = FuncInfo(st, None, self)
            elif isinstance(st, ast.ImportFrom) and st.level > 0:
                base = pkgdir
                for _ in range(st.level - 1):
                    base = os.path.dirname(base)
                target = os.path.join(base, *(st.module.split("."))) if st.module else base
                for a in st.names:
                    if a.name == "*":
                        self.star_imports.append(target)
                        continue
                    self.imports[a.asname or a.name] = ('from', target, a.name)

    def all_classes(self):
        for c in self.classes.values():
            yield from c.all_classes()


class Index:
    def __init__(self, repo=None):
        self.repo = repo or REPO
        self.root = os.path.join(self.repo, PKG)
        self.modules = {}
        for dp, dns, fns in os.walk(self.root):
            dns.sort()
            for fn in sorted(fns):
                if fn.endswith(".py"):
                    p = os.path.join(dp, fn)
                    rel = os.path.relpath(p, self.root)
                    self.modules[rel] = ModuleInfo(p, rel)
        self.relocated = {}
        self._bound = {}
        self.enums = {}
        self.enums_qual = {}
        amb = set()
        for c in self.all_classes():
            if c.is_enum():
                tab = c.enum_table()
                self.enums_qual[c.qual] = tab
                if c.name in self.enums and self.enums[c.name] != tab:
                    amb.add(c.name)
                self.enums[c.name] = tab
        for n in amb:
            del self.enums[n]
        # nested enums are also known by their qualified name (Element.Access vs FieldPort.Access), and their
        # single-return methods (readable(), writable()) can be evaluated on a member
        methods = {}
        for c in self.all_classes():
            if c.is_enum():
                keys = [c.qual] if "." in c.qual else []
                if c.name in self.enums and self.enums[c.name] == c.enum_table():
                    keys.append(c.name)
                for k in keys:
                    self.enums[k] = c.enum_table()
                    for mname, fs in c.methods.items():
                        body = [s for s in fs[0].node.body if not (isinstance(s, ast.Expr) and isinstance(s.value, ast.Constant))]
                        if len(body) == 1 and isinstance(body[0], ast.Return) and body[0].value is not None and \
                                [a.arg for a in fs[0].node.args.args] == ["self"]:
                            methods[(k, mname)] = body[0].value
        self.enums["@methods"] = methods
        # private attributes are identified by role and renamed to the names the rules use (see core/canon.py)
        from . import canon
        self.loop_unpacks = canon.fold_loop_unpacking(self)
        self.attr_aliases = canon.inline_attribute_aliases(self)
        self.param_records = canon.open_parameter_records(self)
        self.kwdicts = canon.expand_kwargs_dicts(self)
        self.matches = canon.desugar_matches(self)
        self.walrus = canon.desugar_walrus(self)
        self.param_names = canon.pinned_parameter_names(self)
        self.defaulted = canon.specialise_default_parameters(self)
        self.functional = canon.desugar_functional_idioms(self)
        self.lazy_memos = canon.inline_lazy_attr_memos(self)
        self.yieldfroms = canon.desugar_yield_from(self)
        self.enumerates = canon.desugar_enumerate_idioms(self)
        self.replicated = canon.desugar_replicated_unpack(self)
        self.update_generators = canon.desugar_update_generators(self)
        self.unrolled_tables = canon.unroll_literal_tables(self)
        self.enum_constants = canon.fold_enum_constants(self)
        self.memos = canon.inline_local_memos(self)
        self.keyed_tables = canon.inline_keyed_tables(self)
        self.zero_width_guards = canon.drop_zero_width_guards(self)
        self.counters = canon.desugar_counters(self)
        self.counting_loops = canon.desugar_counting_loops(self)
        self.setdefault_guards = canon.desugar_setdefault_identity(self)
        self.fused = canon.fuse_record_lists(self)
        self.unzipped = canon.unzip_mapped_lists(self)
        self.equality_loops = canon.switch_for_equality_loops(self)
        self.temporaries = canon.inline_single_use_temporaries(self)
        self.positional = canon.positional_calls(self)
        self.aliased = canon.attach_aliased_methods(self)
        self.renamed = canon.apply(self, canon.discover(self))
        self.renamed.update({k: "relocated helper" for k in canon.relocate_helpers(self)})
        # new private procedures are opened at their call sites (core/canon.py: inline_procedures)
        self.records = canon.tuples_for_named_records(self)
        self.pure_opened = canon.open_pure_functions(self)
        self.propagated = canon.propagate_constants(self)
        self.inlined = canon.inline_procedures(self)
        # helpers of which no call is left anywhere: every use was opened in place
        opened = {h for hs in self.inlined.values() for h in hs}
        self.fully_opened = set()
        for f in self.all_functions():
            if f.qual in opened:
                left = any(isinstance(n, (ast.Attribute, ast.Name)) and (getattr(n, "attr", None) == f.name or getattr(n, "id", None) == f.name)
                           for m_ in self.modules.values() for n in ast.walk(m_.tree)
                           if not isinstance(n, (ast.FunctionDef,)))
                if not left:
                    self.fully_opened.add(f.site)
        self.opened = canon.open_expression_helpers(self)
        self.scalarised = canon.scalarise_last_lists(self)
        self.sums = canon.desugar_sums(self)
        self.extends = canon.desugar_extends(self)

    # -- enumeration -----------------------------------------------------------------
    def all_classes(self):
        for m in self.modules.values():
            yield from m.all_classes()

    def all_functions(self):
        for m in self.modules.values():
            yield from m.functions.values()
            for c in m.all_classes():
                for fs in c.methods.values():
                    yield from fs

    # -- anchors -----------------------------------------------------------------------
    def find_class(self, spec):
        """spec: 'Qual.Name' or 'pkghint:Qual.Name' (e.g. 'csr:Decoder', 'wishbone:Decoder')."""
        hint, _, qual = spec.rpartition(":")
        cands = [c for c in self.all_classes() if c.qual == qual]
        if hint:
            pref = [c for c in cands if c.module.rel.startswith(hint)]
            if not pref and len(cands) > 1:
                # the class moved to another file: first the hinted module's own imports (a re-export), then its directory
                for rel, m in self.modules.items():
                    if rel.startswith(hint) and qual.split(".")[0] in m.imports:
                        r = self._resolve_import(m.imports[qual.split(".")[0]])
                        if isinstance(r, ClassInfo):
                            for part in qual.split(".")[1:]:
                                r = r.nested.get(part) if r is not None else None
                            if r is not None:
                                pref = [r]
                                self.relocated[spec] = r.site
                                break
                if not pref and os.path.dirname(hint):
                    pref = [c for c in cands if c.module.rel.startswith(os.path.dirname(hint) + "/")]
            if pref:
                cands = pref
        if len(cands) == 1:
            return cands[0]
        if not cands and "." in qual:
            # a nested class moved out of its owner and attached again by a class-level alias (`_Shadow = _Shadow` with the
            # class imported from another module): follow the alias
            parts = qual.split(".")
            outers = [c for c in self.all_classes() if c.qual == parts[0] and (not hint or c.module.rel.startswith(hint))] or \
                     [c for c in self.all_classes() if c.qual == parts[0]]
            if len(outers) == 1:
                cur = outers[0]
                for part in parts[1:]:
                    nxt = cur.nested.get(part)
                    if nxt is None:
                        av = cur.class_attrs.get(part)
                        if isinstance(av, ast.Name):
                            if av.id in cur.module.classes:
                                nxt = cur.module.classes[av.id]
                            elif av.id in cur.module.imports:
                                r = self._resolve_import(cur.module.imports[av.id])
                                nxt = r if isinstance(r, ClassInfo) else None
                    cur = nxt
                    if cur is None:
                        break
                if cur is not None:
                    self.relocated[spec] = cur.site
                    return cur
        if not cands and "." in qual:
            # a nested class hoisted to module level (Outer.Inner.Chunk -> _InnerChunk): the one class of the module where
            # the outer class lives -- or lived -- whose name ends with the nested name
            last = qual.rsplit(".", 1)[-1].lstrip("_")
            outer = qual.split(".", 1)[0]
            mods = {c.module.rel for c in self.all_classes() if c.qual == outer and (not hint or c.module.rel.startswith(hint))}
            near = [c for c in self.all_classes() if c.module.rel in mods and "." not in c.qual and c.name.lstrip("_").endswith(last)
                    and c.name.lstrip("_") != outer]
            if len(near) == 1:
                self.relocated[spec] = near[0].site
                return near[0]
        if not cands:
            raise AnchorMissing(f"class {spec!r} not found in {self.root}")
        raise AnchorMissing(f"class {spec!r} is ambiguous: {[c.site for c in cands]}")

    def find_func(self, spec, kind=None):
        """spec: '[hint:]Class.Qual.method' or '[hint:]function'."""
        hint, _, qual = spec.rpartition(":")
        if "." in qual:
            cq, _, name = qual.rpartition(".")
            c = self.find_class((hint + ":" if hint else "") + cq)
            f = c.method(name, kind)
            if f is None and kind is None:
                # a (static) helper method turned into a module-level function of the same module: same name, or the name
                # with a suffix (_translate -> _translate_resource)
                fs = [g for n_, g in c.module.functions.items() if n_ == name or n_.startswith(name + "_")]
                if len(fs) == 1:
                    self.relocated[spec] = fs[0].site
                    return fs[0]
            if f is None:
                # inherited from a base class of the package (a template method the subclasses specialise through overridden
                # hooks): the base's function, *bound* to the subclass so that `self.<hook>()` resolves to the subclass's override
                for b in self.bases_of(c):
                    g = b.method(name, kind)
                    if g is not None:
                        key = (c.site, name, kind)
                        if key not in self._bound:
                            clone = FuncInfo(g.node, c, g.module)
                            clone.inherited_from = g.site
                            self._bound[key] = clone
                        self.relocated[spec] = g.site
                        return self._bound[key]
            if f is None:
                raise AnchorMissing(f"method {spec!r} not found in {c.site}")
            return f
        cands = [m.functions[qual] for m in self.modules.values() if qual in m.functions]
        if len(cands) == 1:
            return cands[0]
        raise AnchorMissing(f"function {spec!r} not found or ambiguous")

    # -- class-expression resolution ---------------------------------------------------
    def _module_member(self, target, name):
        """Resolve `from <target> import <name>`: a class, or a sub-module/package."""
        # target may be a module file or a package directory
        modfile = target + ".py"
        if modfile in self.modules:
            m = self.modules[modfile]
            if name in m.classes:
                return m.classes[name]
            if name in m.imports:
                return self._resolve_import(m.imports[name])
            return None
        # package dir
        sub = os.path.join(target, name) if target else name
        if sub + ".py" in self.modules:
            return ('module', sub + ".py")
        if os.path.join(sub, "__init__.py") in self.modules:
            return ('package', sub)
        # name re-exported by the package (__init__ star imports)
        init = os.path.join(target, "__init__.py") if target else "__init__.py"
        if init in self.modules:
            im = self.modules[init]
            if name in im.classes:
                return im.classes[name]
            if name in im.imports:
                return self._resolve_import(im.imports[name])
            for st in im.star_imports:
                r = self._module_member(st, name)
                if r is not None:
                    return r
        return None

    def resolve_function(self, module, name, depth=0):
        """Module-level function `name` as seen from `module`: its own, or one imported from another module of the package
        (`from .._utils import name`, possibly re-exported through a package __init__ or renamed with `as`)."""
        f = module.functions.get(name)
        if f is not None or depth > 3:
            return f
        imp = module.imports.get(name)
        if imp is None:
            return None
        _, target, orig = imp
        for rel in (target + ".py", os.path.join(target, "__init__.py") if target else "__init__.py"):
            m = self.modules.get(rel)
            if m is not None:
                r = self.resolve_function(m, orig, depth + 1)
                if r is not None:
                    return r
        return None

    def _resolve_import(self, imp):
        _, target, name = imp
        return self._module_member(target, name)

    def resolve_class(self, expr, module, cls=None):
        """expr: IR of a class expression (name/attr chain).  Returns ClassInfo or None."""
        chain = []
        e = expr
        while e[0] == 'attr':
            chain.append(e[2])
            e = e[1]
        if e[0] != 'name':
            return None
        chain.append(e[1])
        chain.reverse()
        head, rest = chain[0], chain[1:]
        cur = None
        if head == 'self' or head == 'cls':
            cur = cls
            # attribute may be a nested class of this class or of an outer/base class
        else:
            c = cls
            while c is not None and cur is None:
                if head in c.nested:
                    cur = c.nested[head]
                elif c.name == head:
                    cur = c
                c = c.outer
            if cur is None and head in module.classes:
                cur = module.classes[head]
            if cur is None and head in module.imports:
                cur = self._resolve_import(module.imports[head])
            if cur is None:
                for st in module.star_imports:
                    cur = self._module_member(st, head)
                    if cur is not None:
                        break
        for name in rest:
            if cur is None:
                return None
            if isinstance(cur, ClassInfo):
                nxt = cur.nested.get(name)
                if nxt is None:
                    for b in self.bases_of(cur):
                        if name in b.nested:
                            nxt = b.nested[name]
                            break
                if nxt is None:
                    # a class-level alias of a class defined elsewhere:  _Shadow = _Shadow  (imported)
                    av = cur.class_attrs.get(name)
                    if isinstance(av, ast.Name):
                        if av.id in cur.module.classes:
                            nxt = cur.module.classes[av.id]
                        elif av.id in cur.module.imports:
                            r = self._resolve_import(cur.module.imports[av.id])
                            nxt = r if isinstance(r, ClassInfo) else None
                cur = nxt
            elif isinstance(cur, tuple) and cur[0] == 'module':
                m = self.modules[cur[1]]
                cur = m.classes.get(name) or (self._resolve_import(m.imports[name]) if name in m.imports else None)
            elif isinstance(cur, tuple) and cur[0] == 'package':
                cur = self._module_member(cur[1], name)
            else:
                return None
        return cur if isinstance(cur, ClassInfo) else None

    def bases_of(self, cls):
        out = []
        for b in cls.base_nodes:
            r = self.resolve_class(ir.from_ast(b, {}), cls.module, cls.outer)
            if r is not None and r is not cls:
                out.append(r)
                out.extend(self.bases_of(r))
        return out

    def lookup_method(self, cls, name, kind=None):
        f = cls.method(name, kind)
        if f is not None:
            return f
        for b in self.bases_of(cls):
            f = b.method(name, kind)
            if f is not None:
                return f
        return None

    # -- field types ------------------------------------------------------------------
    def field_types(self, cls):
        """attr -> ClassInfo for `self.attr = ClassExpr(...)` assignments in __init__ (and bases)."""
        if cls._field_types is None:
            ft = {}
            for b in reversed(self.bases_of(cls)):
                ft.update(self.field_types(b))
            init = cls.method("__init__")
            if init is not None:
                for st in ast.walk(init.node):
                    if isinstance(st, ast.Assign) and len(st.targets) == 1:
                        t = st.targets[0]
                        if isinstance(t, ast.Attribute) and isinstance(t.value, ast.Name) and t.value.id == "self" \
                                and isinstance(st.value, ast.Call):
                            c = self.resolve_class(ir.from_ast(st.value.func, {}), cls.module, cls)
                            if c is not None:
                                ft[t.attr] = c
            cls._field_types = ft
        return cls._field_types

    # -- member tables ------------------------------------------------------------------
    def members(self, cls):
        """Signature members declared in cls.__init__: name -> list of (flow, shape IR, conds, lineno).

        Collected from dict / tuple-of-pairs literals and `x["k"] = In(..)` stores whose values are
        In(...)/Out(...) (optionally followed by .array(...)).  `conds` are the enclosing Python `if` tests."""
        if cls._members is not None:
            return cls._members
        out = {}
        init = cls.method("__init__")

        # locals of the constructor that are bound exactly once (x = Signature(...) / x: Signature = Signature(...)): a member
        # declared as In(x) has that shape
        local_defs = {}
        if init is not None:
            counts = {}
            for n in ast.walk(init.node):
                tgt = n.targets[0] if isinstance(n, ast.Assign) and len(n.targets) == 1 else (n.target if isinstance(n, ast.AnnAssign) and n.value is not None else None)
                if isinstance(tgt, ast.Name):
                    counts[tgt.id] = counts.get(tgt.id, 0) + 1
                    local_defs[tgt.id] = n.value
            local_defs = {k: v for k, v in local_defs.items() if counts.get(k) == 1 and k not in init.params}

        def flow_of(v):
            if isinstance(v, ast.Call) and isinstance(v.func, ast.Attribute) and v.func.attr == "array":
                r = flow_of(v.func.value)
                return None if r is None else (r[0], r[1], True)
            if isinstance(v, ast.Call) and isinstance(v.func, ast.Name) and v.func.id in ("In", "Out") and v.args:
                a0 = v.args[0]
                if isinstance(a0, ast.Name) and a0.id in local_defs and isinstance(local_defs[a0.id], ast.Call):
                    a0 = local_defs[a0.id]
                return (v.func.id, ir.from_ast(a0, {}), False)
            return None

        literals = {}
        if init is not None:
            for n in ast.walk(init.node):
                if isinstance(n, ast.Assign) and len(n.targets) == 1 and isinstance(n.targets[0], ast.Name) and \
                        isinstance(n.value, (ast.Tuple, ast.List)) and n.value.elts and \
                        all(isinstance(e, (ast.Tuple, ast.List)) for e in n.value.elts):
                    literals[n.targets[0].id] = n.value

        class _Sub(ast.NodeTransformer):
            def __init__(self, m):
                self.m = m

            def visit_Name(self, node):
                return self.m.get(node.id, node) if isinstance(node.ctx, ast.Load) else node

        def visit(stmts, conds):
            for st in stmts:
                if isinstance(st, ast.For):
                    lit = st.iter if isinstance(st.iter, (ast.Tuple, ast.List)) else literals.get(st.iter.id) if isinstance(st.iter, ast.Name) else None
                    if lit is not None and isinstance(st.target, ast.Tuple) and all(isinstance(t, ast.Name) for t in st.target.elts) and \
                            all(isinstance(e, (ast.Tuple, ast.List)) and len(e.elts) == len(st.target.elts) for e in lit.elts):
                        # a loop over a literal table: unroll it (constant propagation of the loop variables)
                        import copy
                        for e in lit.elts:
                            m = {t.id: v for t, v in zip(st.target.elts, e.elts)}
                            body = [ast.fix_missing_locations(_Sub(m).visit(copy.deepcopy(b))) for b in st.body]
                            visit(body, conds)
                        continue
                if isinstance(st, ast.If):
                    c = ir.from_ast(st.test, {})
                    visit(st.body, conds + ((c, True),))
                    visit(st.orelse, conds + ((c, False),))
                    continue
                if isinstance(st, (ast.For, ast.While, ast.With, ast.Try)):
                    visit(getattr(st, "body", []), conds)
                    visit(getattr(st, "orelse", []), conds)
                    continue
                for n in ast.walk(st):
                    if isinstance(n, ast.Dict):
                        for k, v in zip(n.keys, n.values):
                            if isinstance(k, ast.Constant) and isinstance(k.value, str):
                                fl = flow_of(v)
                                if fl:
                                    out.setdefault(k.value, []).append((fl[0], fl[1], conds, k.lineno, fl[2]))
                    elif isinstance(n, ast.Tuple) and len(n.elts) == 2 and isinstance(n.elts[0], ast.Constant) \
                            and isinstance(n.elts[0].value, str):
                        fl = flow_of(n.elts[1])
                        if fl:
                            out.setdefault(n.elts[0].value, []).append((fl[0], fl[1], conds, n.lineno, fl[2]))
                if isinstance(st, ast.Assign) and len(st.targets) == 1 and isinstance(st.targets[0], ast.Subscript):
                    t = st.targets[0]
                    key = None
                    if isinstance(t.slice, ast.Constant) and isinstance(t.slice.value, str):
                        key = t.slice.value
                    elif isinstance(t.slice, ast.Attribute) and t.slice.attr == "value" and isinstance(t.slice.value, ast.Attribute):
                        # <Enum>.<MEMBER>.value
                        en = self.enums.get(t.slice.value.value.attr if isinstance(t.slice.value.value, ast.Attribute) else
                                            getattr(t.slice.value.value, "id", None))
                        if en is not None and isinstance(en.get(t.slice.value.attr), str):
                            key = en[t.slice.value.attr]
                    if key is not None:
                        fl = flow_of(st.value)
                        if fl:
                            out.setdefault(key, []).append((fl[0], fl[1], conds, st.lineno, fl[2]))
        ev = self._eval_members(init, flow_of, literals) if init is not None else None
        if ev is not None:
            for key, fl, conds, ln in ev:
                out.setdefault(key, []).append((fl[0], fl[1], conds, ln, fl[2]))
            cls._members_evaluated = True
        elif init is not None:
            visit(init.node.body, ())
        # inherited members (FieldAction adds "port")
        for b in self.bases_of(cls):
            for k, v in self.members(b).items():
                out.setdefault(k, v)
        cls._members = out
        return out


class _Fold(ast.NodeTransformer):
    """Constant folding after a row of a literal table has been substituted for the loop variables: getattr(x, "name") is
    x.name, a conditional expression with a constant test is its branch, `<constant> is None` is a constant."""
    def visit_Call(self, n):
        self.generic_visit(n)
        if isinstance(n.func, ast.Name) and n.func.id == "getattr" and len(n.args) == 2 and not n.keywords and \
                isinstance(n.args[1], ast.Constant) and isinstance(n.args[1].value, str) and n.args[1].value.isidentifier():
            return ast.copy_location(ast.Attribute(value=n.args[0], attr=n.args[1].value, ctx=ast.Load()), n)
        return n

    def visit_Compare(self, n):
        self.generic_visit(n)
        if len(n.ops) == 1 and isinstance(n.left, ast.Constant) and isinstance(n.comparators[0], ast.Constant) and \
                n.comparators[0].value is None and isinstance(n.ops[0], (ast.Is, ast.IsNot)):
            v = n.left.value is None
            return ast.copy_location(ast.Constant(value=v if isinstance(n.ops[0], ast.Is) else not v), n)
        return n

    def visit_UnaryOp(self, n):
        self.generic_visit(n)
        if isinstance(n.op, ast.Not) and isinstance(n.operand, ast.Constant) and isinstance(n.operand.value, bool):
            return ast.copy_location(ast.Constant(value=not n.operand.value), n)
        return n

    def visit_IfExp(self, n):
        self.generic_visit(n)
        if isinstance(n.test, ast.Constant):
            return n.body if n.test.value else n.orelse
        return n


def _eval_members(self, init, flow_of, literals):
    """Evaluate the member dictionary handed to super().__init__() symbolically: dict literals, **-splices, update(),
    |=, constant-key stores, `if` statements (presence conditions), conditional expressions, loops over literal tables,
    and look-ups in a literal table of dictionaries (presence condition `key == K`).  Returns a list of
    (name, flow, conds, lineno), or None when the constructor builds the dictionary in a way this does not follow."""
    import copy
    env = {}            # local name -> list of entries (name, flow, conds, lineno)
    tables = {}         # local name -> ast.Dict whose values are dictionaries
    keyed = {}          # local name -> ast.Dict keyed by something else than member names (enum members): rows for .items()
    result = []
    state = {"ok": True, "seen_super": False}

    class _Sub(ast.NodeTransformer):
        def __init__(self, m):
            self.m = m

        def visit_Name(self, node):
            return self.m.get(node.id, node) if isinstance(node.ctx, ast.Load) else node

    def dict_of(node, conds):
        """entries denoted by a dictionary-valued expression, or None"""
        if isinstance(node, ast.Dict):
            out = []
            for k, v in zip(node.keys, node.values):
                if k is None:
                    sub = dict_of(v, conds)
                    if sub is None:
                        return None
                    out.extend(sub)
                elif isinstance(k, ast.Constant) and isinstance(k.value, str):
                    fl = flow_of(v)
                    if fl is None:
                        return None
                    out.append((k.value, fl, conds, k.lineno))
                else:
                    return None
            return out
        if isinstance(node, ast.Name) and node.id in env:
            return [(n, fl, c + conds, ln) for n, fl, c, ln in env[node.id]]
        if isinstance(node, ast.Call) and isinstance(node.func, ast.Name) and node.func.id == "dict" and not node.keywords:
            if not node.args:
                return []
            return dict_of(node.args[0], conds) if len(node.args) == 1 else None
        if isinstance(node, ast.IfExp):
            c = ir.from_ast(node.test, {})
            a, b = dict_of(node.body, conds + ((c, True),)), dict_of(node.orelse, conds + ((c, False),))
            return None if a is None or b is None else a + b
        if isinstance(node, ast.BinOp) and isinstance(node.op, ast.BitOr):
            a, b = dict_of(node.left, conds), dict_of(node.right, conds)
            return None if a is None or b is None else a + b
        if isinstance(node, (ast.DictComp, ast.GeneratorExp, ast.ListComp)) and len(node.generators) == 1 and not node.generators[0].is_async:
            # a comprehension over a literal table of rows: one conditional entry per row
            g = node.generators[0]
            lit = g.iter if isinstance(g.iter, (ast.Tuple, ast.List)) else literals.get(g.iter.id) if isinstance(g.iter, ast.Name) else None
            if lit is None and isinstance(g.iter, ast.Call) and isinstance(g.iter.func, ast.Attribute) and g.iter.func.attr == "items" and \
                    not g.iter.args and isinstance(g.iter.func.value, ast.Name) and g.iter.func.value.id in keyed:
                # D.items() of a local dictionary display: one (key, value) row per entry, in display order
                dd = keyed[g.iter.func.value.id]
                lit = ast.Tuple(elts=[ast.Tuple(elts=[k_, v_], ctx=ast.Load()) for k_, v_ in zip(dd.keys, dd.values)], ctx=ast.Load())
                for e_ in lit.elts:
                    ast.copy_location(e_, e_.elts[0])
                ast.copy_location(lit, dd)
            tg = g.target
            if lit is None or not (isinstance(tg, ast.Tuple) and all(isinstance(t, ast.Name) for t in tg.elts)) or \
                    not all(isinstance(e, (ast.Tuple, ast.List)) and len(e.elts) == len(tg.elts) for e in lit.elts):
                return None
            if isinstance(node, ast.DictComp):
                kv = (node.key, node.value)
            elif isinstance(node.elt, ast.Tuple) and len(node.elt.elts) == 2:
                kv = tuple(node.elt.elts)
            else:
                return None
            out = []
            for e in lit.elts:
                m = {t.id: v for t, v in zip(tg.elts, e.elts)}
                k_, v_ = (ast.fix_missing_locations(_Fold().visit(_Sub(m).visit(copy.deepcopy(x)))) for x in kv)
                rc = conds + tuple((ir.from_ast(ast.fix_missing_locations(_Fold().visit(_Sub(m).visit(copy.deepcopy(t)))), {}), True) for t in g.ifs)
                key = k_.value if isinstance(k_, ast.Constant) and isinstance(k_.value, str) else enum_value(k_)
                fl = flow_of(v_)
                if key is None or fl is None:
                    return None
                out.append((key, fl, rc, getattr(e, "lineno", node.lineno)))
            return out
        if isinstance(node, ast.Subscript):
            tab = node.value if isinstance(node.value, ast.Dict) else tables.get(node.value.id) if isinstance(node.value, ast.Name) else None
            if tab is None or any(k is None for k in tab.keys):
                return None
            key = ir.from_ast(node.slice, {})
            out = []
            for k, v in zip(tab.keys, tab.values):
                sub = dict_of(v, conds + ((('cmp', '==', key, ir.from_ast(k, {})), True),))
                if sub is None:
                    return None
                out.extend(sub)
            return out
        return None

    def enum_value(k):
        """Feature.ERR.value -> 'err'"""
        if isinstance(k, ast.Attribute) and k.attr == "value" and isinstance(k.value, ast.Attribute):
            en = self.enums.get(k.value.value.attr if isinstance(k.value.value, ast.Attribute) else getattr(k.value.value, "id", None))
            if en is not None and isinstance(en.get(k.value.attr), str):
                return en[k.value.attr]
        return None

    def mentions_tracked(node):
        return any(isinstance(n, ast.Name) and (n.id in env or n.id in tables) for n in ast.walk(node))

    def run(stmts, conds):
        nonlocal literals
        for i_, st in enumerate(stmts):
            if not state["ok"]:
                return
            if isinstance(st, ast.If) and not st.orelse and st.body and isinstance(st.body[-1], ast.Continue):
                # a guard clause of an unrolled row: the rest of the row runs under the negated condition
                c = ir.from_ast(st.test, {})
                run(st.body[:-1], conds + ((c, True),))
                run(stmts[i_ + 1:], conds + ((c, False),))
                return
            if isinstance(st, ast.If):
                c = ir.from_ast(st.test, {})
                run(st.body, conds + ((c, True),))
                run(st.orelse, conds + ((c, False),))
                continue
            if isinstance(st, ast.For):
                lit = st.iter if isinstance(st.iter, (ast.Tuple, ast.List)) else literals.get(st.iter.id) if isinstance(st.iter, ast.Name) else None
                if lit is not None and isinstance(st.target, ast.Tuple) and all(isinstance(t, ast.Name) for t in st.target.elts) and \
                        all(isinstance(e, (ast.Tuple, ast.List)) and len(e.elts) == len(st.target.elts) for e in lit.elts):
                    for e in lit.elts:
                        m = {t.id: v for t, v in zip(st.target.elts, e.elts)}
                        run([ast.fix_missing_locations(_Fold().visit(_Sub(m).visit(copy.deepcopy(b)))) for b in st.body], conds)
                    continue
                if mentions_tracked(st) or any(isinstance(n, ast.Dict) for n in ast.walk(st)):
                    state["ok"] = False
                continue
            if isinstance(st, ast.Assign) and len(st.targets) == 1 and isinstance(st.targets[0], ast.Name):
                name = st.targets[0].id
                v = st.value
                if isinstance(v, ast.Dict) and v.values and all(isinstance(x, (ast.Dict, ast.Name)) and (isinstance(x, ast.Dict) or x.id in env)
                                                              for x in v.values) and all(k is not None for k in v.keys) and \
                        not all(isinstance(k, ast.Constant) and isinstance(k.value, str) and flow_of(x) for k, x in zip(v.keys, v.values)):
                    tables[name] = v
                    continue
                if isinstance(v, (ast.Tuple, ast.List)) and v.elts and all(isinstance(e, (ast.Tuple, ast.List)) for e in v.elts) and not conds:
                    literals = dict(literals)
                    literals[name] = v                  # a local table of rows
                    continue
                if isinstance(v, ast.Dict) and v.keys and all(k is not None and not (isinstance(k, ast.Constant) and isinstance(k.value, str)) for k in v.keys) \
                        and all(flow_of(x) is not None for x in v.values) and not conds:
                    keyed[name] = v
                    continue
                ents = dict_of(v, ())
                if ents is not None:
                    if conds and name in env:
                        state["ok"] = False         # conditional rebinding of a member dictionary: not followed
                        return
                    env[name] = [(n, fl, c + conds, ln) for n, fl, c, ln in ents]
                    continue
                if name in env or name in tables:
                    state["ok"] = False
                    return
                continue
            if isinstance(st, ast.Assign) and len(st.targets) == 1 and isinstance(st.targets[0], ast.Subscript) and \
                    isinstance(st.targets[0].value, ast.Name) and st.targets[0].value.id in env:
                t = st.targets[0]
                key = None
                if isinstance(t.slice, ast.Constant) and isinstance(t.slice.value, str):
                    key = t.slice.value
                elif isinstance(t.slice, ast.Attribute) and t.slice.attr == "value" and isinstance(t.slice.value, ast.Attribute):
                    en = self.enums.get(t.slice.value.value.attr if isinstance(t.slice.value.value, ast.Attribute) else
                                        getattr(t.slice.value.value, "id", None))
                    if en is not None and isinstance(en.get(t.slice.value.attr), str):
                        key = en[t.slice.value.attr]
                fl = flow_of(st.value)
                if key is None or fl is None:
                    state["ok"] = False
                    return
                env[t.value.id].append((key, fl, conds, st.lineno))
                continue
            if isinstance(st, ast.AugAssign) and isinstance(st.target, ast.Name) and st.target.id in env and isinstance(st.op, ast.BitOr):
                ents = dict_of(st.value, conds)
                if ents is None:
                    state["ok"] = False
                    return
                env[st.target.id].extend(ents)
                continue
            if isinstance(st, ast.Expr) and isinstance(st.value, ast.Call):
                call = st.value
                f = call.func
                if isinstance(f, ast.Attribute) and f.attr == "update" and isinstance(f.value, ast.Name) and f.value.id in env and \
                        len(call.args) == 1 and not call.keywords:
                    ents = dict_of(call.args[0], conds)
                    if ents is None:
                        state["ok"] = False
                        return
                    env[f.value.id].extend(ents)
                    continue
                if isinstance(f, ast.Attribute) and f.attr == "__init__" and isinstance(f.value, ast.Call) and \
                        isinstance(f.value.func, ast.Name) and f.value.func.id == "super":
                    cands = [k.value for k in call.keywords if k.arg == "members"] or list(call.args)
                    ents = None
                    for arg in cands:
                        ents = dict_of(arg, conds)
                        if ents is not None:
                            break
                        if isinstance(arg, ast.Tuple) and all(isinstance(e, ast.Tuple) and len(e.elts) == 2 and
                                                              isinstance(e.elts[0], ast.Constant) for e in arg.elts):
                            # members given as a tuple of (name, In/Out) pairs
                            ents = []
                            for e in arg.elts:
                                fl = flow_of(e.elts[1])
                                if fl is None:
                                    ents = None
                                    break
                                ents.append((e.elts[0].value, fl, conds, e.lineno))
                            if ents is not None:
                                break
                    if ents is None:
                        if any(mentions_tracked(a) for a in cands):
                            state["ok"] = False
                            return
                        continue
                    result.extend(ents)
                    state["seen_super"] = True
                    continue
            if mentions_tracked(st) and not isinstance(st, (ast.Return, ast.Pass)):
                # a tracked dictionary escapes into something that is not modelled
                if any(isinstance(n, ast.Call) for n in ast.walk(st)):
                    state["ok"] = False
                    return
    run(init.node.body, ())
    if not state["ok"] or not state["seen_super"]:
        return None
    return result


Index._eval_members = _eval_members

_CACHE = {}


def get_index(repo=None):
    repo = repo or os.environ.get("VERIF_REPO", "/repo")
    if repo not in _CACHE:
        _CACHE[repo] = Index(repo)
    return _CACHE[repo]
