"""Obligations, findings, evidence and known-findings plumbing shared by every rule pack.

Outcome policy (DESIGN, Appendix A): every obligation is *discharged*, *violated* or
*undecided*.  `violated` -> VIOLATION line, exit 1 (unless listed in known_findings.json);
`undecided` -> ANALYSIS-ERROR line, exit 2.  Tracebacks never masquerade as exit 1.
"""
import hashlib
import json
import os
import re
import time

VERIF = os.path.dirname(os.path.dirname(os.path.dirname(os.path.abspath(__file__))))
REPO = os.environ.get("VERIF_REPO", "/repo")

ASSUMPTIONS = {
    "A1": "A1: `assert` statements are internal invariants, not refusals (not raise points)",
    "A2": "A2: Amaranth 0.5 DSL semantics: within a domain the last active assignment wins; If/Elif/Else is a "
          "priority chain; Switch takes the first matching Case; an undriven comb signal has its init, an undriven "
          "sync signal holds; plain statements in a Switch body are emitted before the Switch (read from "
          "amaranth/hdl/_dsl.py 0.5.10, not re-derived at run time)",
    "A3": "A3: Python semantics of the statement kinds modelled (if/for/while/try/with/return/raise/assert/yield); "
          "dict iteration is insertion order; enumerate/range/reversed as specified",
    "A4": "A4: the role tables transcribe the property statements / docstrings correctly",
    "A5": "A5: anything reached through dynamic dispatch outside the resolved call graph is not analysed",
    "A6": "A6: two Case atoms of one Switch are treated as mutually exclusive (patterns of distinct windows / "
          "indices do not overlap; that numeric fact is N1 and is not decided here)",
    "A7": "A7: library facts read once from the installed Amaranth 0.5.10 and not re-derived: lib.cdc.FFSynchronizer refuses "
          "stages < 2; Signal.like copies the init of its model; a bare 0 in Cat() is one bit wide; assignment truncates or "
          "zero-extends to the target's width",
    "A8": "A8: a loop over zip(A, B, ...) of whole attribute chains of the component (self.pins, self._mode.f.pin, ...) is read as "
          "visiting position k of each; zip() stops at the shortest, so this assumes the zipped sequences are equally long (they "
          "are created with the same count by the constructor; the count itself is checked where a rule depends on it)",
}


class Undecided(Exception):
    """Raised by an engine when a construct is outside the supported normal forms."""


class AnchorMissing(Exception):
    """An anchored class/function cannot be resolved in the current tree."""


def _norm_construct(text):
    return re.sub(r"\s+", " ", str(text)).strip()


class Obligation:
    __slots__ = ("rule", "site", "construct", "status", "detail", "nontrivial", "extra")

    def __init__(self, rule, site, construct, status, detail="", nontrivial=True, extra=None):
        self.rule = rule
        self.site = site                # "file.py::Class.func" (no line numbers: stable key)
        self.construct = _norm_construct(construct)
        self.status = status            # 'discharged' | 'violated' | 'undecided'
        self.detail = detail
        self.nontrivial = nontrivial
        self.extra = extra or {}

    def key(self):
        return f"{self.rule}|{self.site}|{self.construct}"

    def as_dict(self):
        d = {"rule": self.rule, "site": self.site, "construct": self.construct,
             "verdict": self.status}
        if self.detail:
            d["detail"] = self.detail
        d.update(self.extra)
        return d


class Report:
    """Collects obligations for one property run."""

    def __init__(self, prop, tier):
        self.prop = prop
        self.tier = tier
        self.obls = []
        self.functions = set()
        self.counters = {}
        self.notes = []
        self.explanation = ""
        self.assumptions = []
        self.exhaustive = None
        self.min_counts = {}            # rule -> minimum number of obligations (vacuity guard)
        self.t0 = time.time()

    # -- recording -----------------------------------------------------------------
    def ok(self, rule, site, construct, detail="", nontrivial=True, **extra):
        self.obls.append(Obligation(rule, site, construct, "discharged", detail, nontrivial, extra))

    def bad(self, rule, site, construct, detail="", **extra):
        self.obls.append(Obligation(rule, site, construct, "violated", detail, True, extra))

    def unk(self, rule, site, construct, detail="", **extra):
        self.obls.append(Obligation(rule, site, construct, "undecided", detail, True, extra))

    def check(self, cond, rule, site, construct, detail="", nontrivial=True, **extra):
        if cond:
            self.ok(rule, site, construct, detail, nontrivial, **extra)
        else:
            self.bad(rule, site, construct, detail, **extra)
        return cond

    def form(self, ok, rule, site, construct, detail="", wrong=None, nontrivial=True, **extra):
        """An expression / shape compared with its verified form.  A mismatch is a violation only when the discrepancy
        can be named (`wrong`: unit error, wrong provenance, missing guard ...); otherwise it is undecided."""
        if ok:
            self.ok(rule, site, construct, detail, nontrivial, **extra)
        elif wrong:
            self.bad(rule, site, construct, (detail + "; " if detail else "") + wrong, **extra)
        else:
            self.unk(rule, site, construct, (detail + "; " if detail else "") +
                     "not the verified form and no discrepancy that the rule can name: equivalence undecided (N5)", **extra)
        return ok

    def analysed(self, *fns):
        self.functions.update(fns)

    def count(self, name, n=1):
        self.counters[name] = self.counters.get(name, 0) + n

    def require(self, rule, n):
        self.min_counts[rule] = n

    def assume(self, *ids):
        for i in ids:
            if ASSUMPTIONS[i] not in self.assumptions:
                self.assumptions.append(ASSUMPTIONS[i])

    # -- queries -------------------------------------------------------------------
    def by_status(self, st):
        return [o for o in self.obls if o.status == st]


def load_known():
    path = os.path.join(VERIF, "known_findings.json")
    if not os.path.exists(path):
        return []
    with open(path) as f:
        return json.load(f).get("findings", [])


def verdict(rep):
    """Vacuity guard + known-findings filter.  Pure: writes nothing.

    Returns (exit code, unlisted violations, [(obligation, known entry)], undecided)."""
    if not getattr(rep, "_guarded", False):
        rep._guarded = True
        per_rule = {}
        for o in rep.obls:
            per_rule[o.rule] = per_rule.get(o.rule, 0) + 1
        for rule, n in sorted(rep.min_counts.items()):
            got = per_rule.get(rule, 0)
            if got < n and all(o.status == "discharged" for o in rep.obls):
                rep.unk(rule, "-", "vacuity guard",
                        f"rule matched {got} site(s); at least {n} were confirmed by hand on the reference tree")
    known = [k for k in load_known() if k.get("property") == rep.prop and k.get("status") == "known"]
    violated = rep.by_status("violated")
    undecided = rep.by_status("undecided")
    unlisted, hits = [], []
    for o in violated:
        hit = None
        for k in known:
            if k["rule"] == o.rule and k["site"] == o.site and k["construct"] == o.construct:
                hit = k
                break
        if hit is not None:
            hits.append((o, hit))
        else:
            unlisted.append(o)
    code = 1 if unlisted else (2 if undecided else 0)
    return code, unlisted, hits, undecided


def finalize(rep, seed=0, extra_cov=None):
    """Evidence file, finding records, report lines, exit code."""
    code, unlisted, hits, undecided = verdict(rep)
    per_rule = {}
    for o in rep.obls:
        per_rule[o.rule] = per_rule.get(o.rule, 0) + 1
    violated = rep.by_status("violated")
    lines = []
    for o, hit in hits:
        lines.append(f"KNOWN-FINDING: property={rep.prop} {hit.get('what', o.detail)} "
                     f"[{o.rule} {o.site}]")

    fdir = os.path.join(VERIF, "findings", rep.prop)
    for o in unlisted:
        os.makedirs(fdir, exist_ok=True)
        h = hashlib.sha1(o.key().encode()).hexdigest()[:12]
        path = os.path.join(fdir, f"{o.rule}-{h}.json")
        with open(path, "w") as f:
            json.dump({"property": rep.prop, **o.as_dict(), "key": o.key(),
                       "replay": f"/venv/bin/python /verif/sa/check.py {rep.prop} --replay {path}"},
                      f, indent=1, sort_keys=True)
        lines.append(f"VIOLATION property={rep.prop} replay={path}")
        lines.append(f"  {o.rule} {o.site}: {o.construct} -- {o.detail}")
    for o in undecided:
        lines.append(f"ANALYSIS-ERROR property={rep.prop} {o.rule} {o.site}: {o.construct} -- {o.detail}")

    n_obl = len(rep.obls)
    n_dis = len(rep.by_status("discharged"))
    distinct = {o.key() for o in rep.obls if o.nontrivial}
    samples = [o.as_dict() for o in rep.obls[:0]]
    # a spread of samples: first of each rule, then violated/undecided ones
    seen = set()
    for o in rep.obls:
        if o.rule not in seen:
            seen.add(o.rule)
            samples.append(o.as_dict())
    for o in (violated + undecided)[:10]:
        samples.append(o.as_dict())
    cov = {
        "explanation": rep.explanation,
        "rules": sorted(per_rule),
        "rule_instances": {r: per_rule[r] for r in sorted(per_rule)},
        "functions_analysed": sorted(rep.functions),
        "obligations": n_obl,
        "discharged": n_dis,
        "undecided": len(undecided),
        "known_findings": len(violated) - len(unlisted),
        "evaluations": n_obl,
        "distinct_nontrivial": len(distinct),
        "rule": "one obligation per (rule, site, construct); non-trivial = an actual comparison was made "
                "(truth table of >= 2 rows, agreement between two sites, dominance/ordering query on a CFG, "
                "typing judgement); trivial = presence-only facts",
        "samples": samples[:40],
        "trusted_base": [a.split(":")[0] for a in rep.assumptions],
        "checker_cmd": f"/venv/bin/python /verif/sa/check.py {rep.prop} --tier {rep.tier}",
    }
    cov.update(rep.counters)
    if rep.exhaustive is not None:
        cov["exhaustive"] = rep.exhaustive
    if rep.notes:
        cov["notes"] = rep.notes
    if extra_cov:
        cov.update(extra_cov)
    ev = {
        "property_id": rep.prop, "tier": rep.tier, "seed": seed, "level": "other",
        "coverage": cov, "assumptions": rep.assumptions,
        "wall_s": round(time.time() - rep.t0, 3), "violations": len(unlisted),
    }
    # the evidence file describes /repo: a development run on another tree (check.py --repo <scratch copy>) does not overwrite it
    if not os.environ.get("VERIF_SKIP_EVIDENCE"):
        os.makedirs(os.path.join(VERIF, "evidence"), exist_ok=True)
        with open(os.path.join(VERIF, "evidence", f"{rep.prop}.json"), "w") as f:
            json.dump(ev, f, indent=1)

    return code, lines
