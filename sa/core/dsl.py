"""E-DSL: template extractor for `elaborate()` bodies.

Walks the body symbolically *once* (loop indices stay symbolic) and records every DSL statement with
its domain, target, value, DSL guard frames, generation-time frames and effective emission order.
Nothing from the repository is executed."""
import ast

from . import ir
from .report import Undecided


def ir_names(target):
    return [n.id for n in ast.walk(target) if isinstance(n, ast.Name)]


class Loop:
    def __init__(self, lid, kind, iter_ir, seq, lineno, targets):
        self.id = lid
        self.kind = kind            # 'range' | 'enum' | 'seq' | 'gen'
        self.iter = iter_ir         # the iterable expression (already substituted)
        self.seq = seq              # for enum/seq: the sequence; for range: None
        self.lineno = lineno
        self.targets = targets      # names bound
        self.reversed = False
        self.bounds = None          # for range: (lo, hi) IR

    def __repr__(self):
        return f"<Loop {self.id} {self.kind} {ir.show(self.iter)}>"


class Acc:
    def __init__(self, aid, name, init, home):
        self.id = aid
        self.name = name
        self.init = init
        self.home = home            # gen frames where the accumulator was initialised
        self.terms = []             # (term IR, gen frames, dsl frames, lineno)
        self.op = '|'


class ListAcc:
    """A Python list that is filled with .append() (possibly in generation loops) and iterated later: iterating it
    re-enters the generation context of each append with the loop target bound to the appended expression."""

    def __init__(self, lid, name, home):
        self.id = lid
        self.name = name
        self.home = home
        self.items = []             # (expr IR, gen frames at the append, lineno)


class Fold:
    def __init__(self, fid, name, init, loop):
        self.id = fid
        self.name = name
        self.init = init
        self.loop = loop
        self.update = None          # IR in terms of ('carry', fid)
        self.update_gen = None
        self.uses_before_update = []


class LocalSig:
    def __init__(self, sid, name, ctor, gen, lineno):
        self.id = sid
        self.name = name
        self.ctor = ctor            # IR of the constructor call
        self.gen = gen
        self.lineno = lineno

    def kw(self, key):
        for k, v in self.ctor[3]:
            if k == key:
                return v
        return None


class Driver:
    __slots__ = ("domain", "target", "value", "dsl", "gen", "order", "lineno", "seqno")

    def __init__(self, domain, target, value, dsl, gen, order, lineno, seqno):
        self.domain = domain
        self.target = target
        self.value = value
        self.dsl = dsl
        self.gen = gen
        self.order = order
        self.lineno = lineno
        self.seqno = seqno

    def __repr__(self):
        return f"<Driver {self.domain} {ir.show(self.target)} <= {ir.show(self.value)} @{self.lineno}>"


class OrderCell:
    """Sequence number that is only known when a Switch block exits."""
    __slots__ = ("v",)

    def __init__(self, v=None):
        self.v = v


class Template:
    def __init__(self, func):
        self.func = func
        self.drivers = []
        self.loops = {}
        self.accs = {}
        self.folds = {}
        self.sigs = {}
        self.objs = {}
        self.lists = {}
        self.submodules = []        # (name IR or None, value IR, gen frames, lineno)
        self.rehomed_defaults = []  # (switch id, number of drivers, lineno): Default arms read as assignments before the Switch
        self.zipped_loops = []      # (loop id, sequences, lineno): loops over zip(A, B, ...) read as position-wise (equal lengths assumed)
        self.connects = []          # (a IR, b IR, gen frames, lineno)
        self.calls = []             # other call statements: (IR, gen frames, dsl frames, lineno)
        self.asserts = []
        self.bare_returns = []      # (gen, lineno) of `return` without a value
        self.raises = []
        self.trys = []
        self.yields = []
        self.conds = []
        self.returns = []
        self.unsupported = []       # (lineno, reason)
        self.switches = {}          # switch id -> subject IR
        self.switch_cases = {}      # switch id -> [pattern tuples] in emission order
        self.module_name = None
        self.returns_module = False

    def ctx(self, enums=None, aliases=None):
        return ir.NormCtx(enums=enums or {}, sigs={s.id: s.ctor for s in self.sigs.values()}, aliases=aliases or {})


# frames -------------------------------------------------------------------------------------
# dsl frames:  ('if', cond, priors)  ('elif', cond, priors)  ('else', priors)
#              ('case', switch_id, pats, lineno)  ('default', switch_id)
# gen frames:  ('for', loop_id)  ('pyif', cond, polarity)

SIGNAL_CTORS = {"Signal"}


def single_exit(body):
    """`if c: ...; return a` followed by more statements and a final `return b` rewritten with one exit:
    if c: ...; __ret = a  else: <rest>; __ret = b   followed by `return __ret`.  None when a return sits anywhere else."""
    ret = "__ret"

    def conv(stmts):
        out = []
        for i, s in enumerate(stmts):
            if isinstance(s, ast.Return):
                if s.value is None:
                    return None
                return out + [ast.copy_location(ast.Assign(targets=[ast.Name(id=ret, ctx=ast.Store())], value=s.value, lineno=s.lineno), s)]
            if isinstance(s, ast.If) and any(isinstance(n, ast.Return) for n in ast.walk(s)):
                then = conv(s.body)
                if then is None:
                    return None
                then_returns = isinstance(s.body[-1], ast.Return)
                if s.orelse:
                    els = conv(s.orelse)
                    if els is None or not (then_returns and isinstance(s.orelse[-1], ast.Return)) or stmts[i + 1:]:
                        return None
                else:
                    if not then_returns:
                        return None
                    els = conv(stmts[i + 1:])
                    if els is None:
                        return None
                new = ast.If(test=s.test, body=then, orelse=els)
                ast.copy_location(new, s)
                return out + [new]
            if any(isinstance(n, ast.Return) for n in ast.walk(s)):
                return None
            out.append(s)
        return None                                     # falls off the end: no value
    new = conv(body)
    if new is None:
        return None
    r = ast.Return(value=ast.Name(id=ret, ctx=ast.Load()))
    ast.copy_location(r, body[-1])
    for n in ast.walk(r):
        ast.copy_location(n, body[-1])
    for s in new:
        ast.fix_missing_locations(s)
    return new + [r]


class Walker:
    def __init__(self, func_info, index, inline_depth=3, no_inline=()):
        self.no_inline = set(no_inline)
        self.localprocs = {}
        self.records = {}           # local dict with constant keys -> {key: hidden local name}
        self.yield_handlers = []
        self._method_procs = {}
        self.loop_keys = {}
        self.proc_depth = 0
        self.fi = func_info
        self.index = index
        self.t = Template(func_info)
        self.env = {}
        self.bind_ctx = {}          # name -> gen frames at binding
        self.gen = ()
        self.dsl = ()
        self.counters = [0]         # per DSL depth sequence counters
        self.order_prefix = ()      # tuple of ints / OrderCells
        self.chain = {}             # dsl depth -> list of prior conds of the open If chain (or None)
        self.switch_stack = []
        self._case_frames = {}
        self._chain_switch = {}         # (dsl depth, subject, loop) -> synthetic switch id of a loop-generated If / Elif chain
        self._chain_switch_at = {}      # dsl depth -> synthetic switch id whose Else (Default) may still follow
        self.nid = 0
        self.seqno = 0
        self.inline_depth = inline_depth
        self.m = None
        self._chain_seqs = {}

    # ---- helpers -----------------------------------------------------------------------
    def fresh(self):
        self.nid += 1
        return self.nid

    def ex(self, node):
        if self.localprocs or (self.m is not None and self.fi.cls is not None):
            node = self.call_local_procs(node)
        if self.m is not None and any(isinstance(n, ast.Call) and isinstance(n.func, (ast.Name, ast.Attribute)) and
                                      ast.unparse(n.func) in ("reduce", "functools.reduce") for n in ast.walk(node)):
            node = self.desugar_reduces(node)
        return self.inline_helpers(ir.from_ast(node, self.env))

    def desugar_reduces(self, node):
        """reduce(or_, gen, 0) anywhere inside an expression: replaced by the accumulator it abbreviates."""
        walker = self
        import copy

        class T(ast.NodeTransformer):
            def visit_Call(self, call):
                self.generic_visit(call)
                tmp = walker.reduce_or(call, node if hasattr(node, "lineno") else call)
                if tmp is None:
                    return call
                return ast.copy_location(ast.Name(id=tmp, ctx=ast.Load()), call)
        return T().visit(copy.deepcopy(node))

    def method_proc(self, call):
        """self._helper(...) in an elaborate() context whose body is statements followed by one `return <expr>` (and is
        not a plain expression helper): -> (FunctionDef, body) so that it can be replayed like a local function."""
        f = call.func
        if not (self.m is not None and self.fi.cls is not None and isinstance(f, ast.Attribute) and
                isinstance(f.value, ast.Name) and f.value.id == "self" and f.attr not in self.no_inline):
            return None
        key = f.attr
        if key in self._method_procs:
            return self._method_procs[key]
        out = None
        target = self.index.lookup_method(self.fi.cls, key)
        if target is not None and target.node is not self.fi.node and not target.is_property:
            body = [s for s in target.node.body if not (isinstance(s, ast.Expr) and isinstance(s.value, ast.Constant))]
            simple = all(isinstance(s, ast.Assign) and len(s.targets) == 1 and isinstance(s.targets[0], ast.Name) for s in body[:-1])
            a = target.node.args
            static = any(isinstance(d_, ast.Name) and d_.id == "staticmethod" for d_ in target.node.decorator_list)
            if any(isinstance(n, ast.Return) for s in body[:-1] for n in ast.walk(s)):
                body = single_exit(body) or body        # `if c: return a` ... `return b`  ->  one exit
            if len(body) > 1 and not simple and isinstance(body[-1], ast.Return) and body[-1].value is not None and \
                    not any(isinstance(n, (ast.Return, ast.Yield, ast.YieldFrom, ast.Nonlocal, ast.Global))
                            for s in body[:-1] for n in ast.walk(s)) and \
                    not a.vararg and not a.kwarg and (static or a.args and a.args[0].arg == "self") and \
                    (not static or any(self.is_m(x) for x in call.args)):
                out = (target.node, body, static)
        self._method_procs[key] = out
        return out

    def call_local_procs(self, node):
        """Replay multi-statement local functions at their call sites: parameters bound, the statements walked in the
        current context, the returned expression held in a temporary that replaces the call."""
        walker = self

        class T(ast.NodeTransformer):
            def visit_Call(self, call):
                self.generic_visit(call)
                is_method = False
                static = False
                if isinstance(call.func, ast.Name) and call.func.id in walker.localprocs and \
                        walker.env.get(call.func.id) == ('localproc', call.func.id):
                    st, body = walker.localprocs[call.func.id]
                    params = [a.arg for a in st.args.args] + [a.arg for a in st.args.kwonlyargs]
                    fname = call.func.id
                else:
                    mp = walker.method_proc(call)
                    if mp is None:
                        return call
                    st, body, static = mp
                    params = [a.arg for a in st.args.args][0 if static else 1:] + [a.arg for a in st.args.kwonlyargs]
                    fname = call.func.attr
                    is_method = True
                if len(call.args) > len(params) or any(isinstance(a, ast.Starred) for a in call.args) or \
                        any(k.arg is None or k.arg not in params for k in call.keywords):
                    walker.unsupported(call, f"call of local function {fname} with arguments that cannot be bound")
                    return call
                bound = {p: walker.ex(a) for p, a in zip(params, call.args)}
                for k in call.keywords:
                    bound[k.arg] = walker.ex(k.value)
                pos = [a.arg for a in st.args.args][1 if is_method and not static else 0:]
                for p, dflt in zip(pos[len(pos) - len(st.args.defaults):], st.args.defaults):
                    bound.setdefault(p, walker.ex(dflt))
                for a_, dflt in zip(st.args.kwonlyargs, st.args.kw_defaults):
                    if dflt is not None:
                        bound.setdefault(a_.arg, walker.ex(dflt))
                if set(bound) != set(params):
                    walker.unsupported(call, f"call of local function {fname} leaves a parameter unbound")
                    return call
                if walker.proc_depth >= 3:
                    walker.unsupported(call, f"local function {fname} is recursive")
                    return call
                if is_method and any(walker.is_m(a) and p != walker.m for p, a in zip(params, call.args)):
                    walker.unsupported(call, f"helper {fname} receives the module under another name")
                    return call
                saved_env, saved_ctx = dict(walker.env), dict(walker.bind_ctx)
                walker.proc_depth += 1
                if is_method:
                    walker.env = {}                 # a method sees its parameters only (self stays symbolic)
                for p_, v in bound.items():
                    walker.bind(p_, v)
                walker.block(body[:-1])
                value = walker.ex(body[-1].value)
                walker.proc_depth -= 1
                walker.env, walker.bind_ctx = saved_env, saved_ctx
                tmp = f"__call_{walker.fresh()}"
                walker.bind(tmp, value)
                return ast.copy_location(ast.Name(id=tmp, ctx=ast.Load()), call)

        import copy
        if not any(isinstance(n, ast.Call) and (isinstance(n.func, ast.Name) and n.func.id in self.localprocs or
                                                 self.method_proc(n) is not None) for n in ast.walk(node)):
            return node
        return T().visit(copy.deepcopy(node))

    def inline_helpers(self, e, depth=3):
        """Replace calls to single-return helpers of the same class (self._f(x), Cls._f(x)) by their result expression."""
        if depth <= 0 or self.fi.cls is None:
            return e

        def f(x):
            if x[0] != 'call' or x[1][0] != 'attr' or x[3] and any(k == '**' for k, _ in x[3]):
                return None
            recv, name = x[1][1], x[1][2]
            target = None
            if recv in (('name', 'self'), ('name', 'cls')):
                target = self.index.lookup_method(self.fi.cls, name)
            else:
                c = self.index.resolve_class(recv, self.fi.module, self.fi.cls)
                if c is not None:
                    target = self.index.lookup_method(c, name)
            if target is None or target.node is self.fi.node or name in self.no_inline:
                return None
            body = [s for s in target.node.body
                    if not (isinstance(s, ast.Expr) and isinstance(s.value, ast.Constant)) and not isinstance(s, ast.Assert)]
            if not body or not isinstance(body[-1], ast.Return) or body[-1].value is None:
                return None
            if not all(isinstance(s, ast.Assign) and len(s.targets) == 1 and isinstance(s.targets[0], ast.Name) for s in body[:-1]):
                return None
            params = [p for p in target.params]
            if params and params[0] in ("self", "cls") and not target.is_static:
                params = params[1:]
            if any(a[0] == 'star' for a in x[2]) or len(x[2]) > len(params):
                return None
            env = dict(zip(params, x[2]))
            for k, v in x[3]:
                env[k] = v
            a = target.node.args
            for p, dflt in zip([q.arg for q in a.args][len(a.args) - len(a.defaults):], a.defaults):
                env.setdefault(p, ir.from_ast(dflt, {}))
            if not target.is_static:
                env.setdefault("self", recv if recv[0] != 'name' or recv[1] not in ('self', 'cls') else ('name', 'self'))
            for s in body[:-1]:
                env[s.targets[0].id] = ir.from_ast(s.value, env)
            out = ir.from_ast(body[-1].value, env)
            if any(y[0] == 'name' and y[1] in params and y[1] not in env for y in ir.walk(out)):
                return None
            return self.inline_helpers(out, depth - 1)
        return ir.subst(e, f)

    def bind(self, name, value):
        self.env[name] = value
        self.bind_ctx[name] = self.gen

    def unsupported(self, node, why):
        self.t.unsupported.append((getattr(node, "lineno", 0), why))

    def is_m(self, node):
        return isinstance(node, ast.Name) and node.id == self.m

    def next_order(self):
        self.counters[-1] += 1
        return self.order_prefix + (self.counters[-1],)

    def close_chain(self):
        self.chain[self.dsl] = None

    # ---- entry ---------------------------------------------------------------------------
    def run(self):
        fn = self.fi.node
        for p in self.fi.params:
            pass                    # parameters stay free names
        self.block(fn.body)
        for d in self.t.drivers:
            d.order = tuple(c.v if isinstance(c, OrderCell) else c for c in d.order)
        self.t.final_env = dict(self.env)
        return self.t

    def block(self, stmts):
        for i, st in enumerate(stmts):
            is_cont = isinstance(st, ast.If) and not st.orelse and st.body and isinstance(st.body[-1], ast.Continue) \
                and any(fr[0] == 'for' for fr in self.gen)
            is_ret = isinstance(st, ast.If) and not st.orelse and st.body and isinstance(st.body[-1], ast.Return) \
                and i + 1 < len(stmts)
            if is_cont or is_ret:
                # `if c: ...; continue` / `if c: ...; return x`  ==  the rest of the block runs under `not c`
                cond = self.ex(st.test)
                self.t.conds.append((cond, self.gen, st.lineno))
                saved = self.gen
                env0, bc0 = dict(self.env), dict(self.bind_ctx)
                self.gen = saved + (('pyif', cond, True),)
                self.block(st.body[:-1] if is_cont else st.body)
                env_c = self.env
                self.env, self.bind_ctx = dict(env0), dict(bc0)
                self.gen = saved + (('pyif', cond, False),)
                self.refine_none(st.test, False)
                self.block(stmts[i + 1:])
                self.gen = saved
                if is_cont:
                    # the iteration that took `continue` hands on what it had: a loop-carried name updated by the rest of the body
                    # (width += ... after the continue) is updated only when the condition is false
                    for name in set(env_c) | set(self.env):
                        a, b = env_c.get(name), self.env.get(name)
                        if a is None or b is None or a == b:
                            continue
                        if any(x[0] == 'carry' for x in ir.walk(a)) or any(x[0] == 'carry' for x in ir.walk(b)):
                            self.env[name] = ('phi', cond, a, b)
                return
            self.stmt(st)

    def refine_none(self, test, holds):
        """Inside the branch where `NAME is None` is known to be `holds`: a local bound to `A if c else None` is A when it is not
        None (and None otherwise)."""
        neg = False
        t = test
        while isinstance(t, ast.UnaryOp) and isinstance(t.op, ast.Not):
            t, neg = t.operand, not neg
        if not (isinstance(t, ast.Compare) and len(t.ops) == 1 and isinstance(t.ops[0], (ast.Is, ast.IsNot)) and isinstance(t.left, ast.Name) and
                isinstance(t.comparators[0], ast.Constant) and t.comparators[0].value is None):
            return
        is_none = isinstance(t.ops[0], ast.Is)
        if neg:
            is_none = not is_none
        none_here = is_none if holds else not is_none       # is NAME None in this branch?
        v = self.env.get(t.left.id)
        if not (isinstance(v, tuple) and v and v[0] in ('phi', 'ifexp')):
            return
        a, b = v[2], v[3]
        if b == ('const', None) and a != ('const', None):
            self.env[t.left.id] = b if none_here else a
        elif a == ('const', None) and b != ('const', None):
            self.env[t.left.id] = a if none_here else b

    # ---- statements ------------------------------------------------------------------------
    def stmt(self, st):
        if isinstance(st, ast.Expr):
            if isinstance(st.value, ast.Constant):
                return                              # docstring
            return self.expr_stmt(st)
        if isinstance(st, ast.Assign):
            return self.assign(st)
        if isinstance(st, ast.AugAssign):
            return self.augassign(st)
        if isinstance(st, ast.AnnAssign):
            if st.value is not None and isinstance(st.target, ast.Name):
                self.bind(st.target.id, self.ex(st.value))
            return
        if isinstance(st, ast.With):
            return self.with_(st)
        if isinstance(st, ast.For):
            return self.for_(st)
        if isinstance(st, ast.If):
            return self.if_(st)
        if isinstance(st, ast.Return):
            if st.value is not None:
                v = self.ex(st.value)
                self.t.returns.append((v, self.gen, st.lineno))
                if isinstance(st.value, ast.Name) and st.value.id == self.m:
                    self.t.returns_module = True
                elif v[0] == 'call' and v[1] == ('name', 'Module'):
                    self.t.returns_module = True
            else:
                self.t.bare_returns.append((self.gen, st.lineno))
            return
        if isinstance(st, ast.Assert):
            self.t.asserts.append((self.ex(st.test), self.gen, st.lineno))
            return
        if isinstance(st, ast.Delete):
            return
        if isinstance(st, ast.Pass):
            return
        if isinstance(st, ast.Raise) and isinstance(st.exc, ast.Name) and self.env.get(st.exc.id, ('x',))[0] == 'phi':
            # error = A(...) if c1 else B(...) if c2 else None ... raise error: one raise per constructed exception, under
            # the condition that selects it
            def leaves(v, conds):
                if v[0] == 'phi':
                    yield from leaves(v[2], conds + (('pyif', v[1], True),))
                    yield from leaves(v[3], conds + (('pyif', v[1], False),))
                else:
                    yield v, conds
            done = True
            found = []
            for leaf, conds in leaves(self.env[st.exc.id], ()):
                if leaf == ('const', None):
                    continue
                if leaf[0] == 'call' and leaf[1][0] in ('name', 'attr'):
                    found.append((ir.show(leaf[1]), conds))
                else:
                    done = False
            if done and found:
                for exc, conds in found:
                    self.t.raises.append((exc, self.gen + conds, st.lineno))
                return
        if isinstance(st, ast.Raise):
            exc = "?"
            if st.exc is not None:
                exc = ast.unparse(st.exc.func if isinstance(st.exc, ast.Call) else st.exc)
                exc = self.exception_type(exc)
            self.t.raises.append((exc, self.gen, st.lineno))
            return
        if isinstance(st, ast.FunctionDef):
            return self.localdef(st)
        if isinstance(st, ast.Try) and len(st.handlers) == 1 and st.handlers[0].type is not None and \
                ast.unparse(st.handlers[0].type) == "KeyError" and len(st.body) == 1 and not st.finalbody:
            # try: v = D[k]   except KeyError: A   else: B     ==     if k in D: v = D[k]; B   else: A
            subs = [n for n in ast.walk(st.body[0]) if isinstance(n, ast.Subscript) and isinstance(n.ctx, ast.Load)]
            calls = [n for n in ast.walk(st.body[0]) if isinstance(n, ast.Call) and not (isinstance(n.func, ast.Name) and n.func.id == "id")]
            if len(subs) == 1 and not calls and isinstance(st.body[0], (ast.Assign, ast.Expr)):
                test = ast.Compare(left=subs[0].slice, ops=[ast.In()], comparators=[subs[0].value])
                eq = ast.If(test=test, body=list(st.body) + list(st.orelse), orelse=list(st.handlers[0].body))
                for n in ast.walk(eq):
                    if not hasattr(n, "lineno"):
                        n.lineno, n.col_offset, n.end_lineno, n.end_col_offset = st.lineno, 0, st.lineno, 0
                ast.copy_location(eq, st)
                ast.copy_location(test, st)
                return self.block([eq])
        if isinstance(st, ast.Try):
            self.t.trys.append(([ast.unparse(h.type) if h.type is not None else "*" for h in st.handlers], self.gen, st.lineno))
            saved = self.gen
            self.gen = saved + (('try', st.lineno),)
            self.block(st.body)
            self.block(st.orelse)
            self.gen = saved
            for h in st.handlers:
                self.gen = saved + (('except', ast.unparse(h.type) if h.type is not None else "*", st.lineno),)
                hb = h.body
                if hb and isinstance(hb[-1], ast.Continue) and any(fr[0] == 'for' for fr in saved):
                    hb = hb[:-1]                            # `except E: continue`: this iteration ends here; what follows the try runs otherwise
                self.block(hb)
            self.gen = saved
            self.block(st.finalbody)
            return
        if isinstance(st, (ast.Import, ast.ImportFrom)):
            return
        self.unsupported(st, f"statement kind {type(st).__name__} is not modelled")

    def noreturn_helper(self, call):
        """A call of a helper (method of this class, module-level function) that always raises: -> the exception type."""
        f = call.func
        target = None
        if isinstance(f, ast.Attribute) and isinstance(f.value, ast.Name) and f.value.id in ("self", "cls") and self.fi.cls is not None:
            target = self.index.lookup_method(self.fi.cls, f.attr)
        elif isinstance(f, ast.Name) and f.id not in self.env:
            target = self.index.resolve_function(self.fi.module, f.id)
        if target is None or target.node is self.fi.node:
            return None
        body = [s for s in target.node.body if not (isinstance(s, ast.Expr) and isinstance(s.value, ast.Constant))]
        if not body or not isinstance(body[-1], ast.Raise) or body[-1].exc is None:
            return None
        if any(isinstance(n, (ast.Return, ast.Yield, ast.YieldFrom)) for n in ast.walk(target.node)):
            return None
        e = body[-1].exc
        return ast.unparse(e.func if isinstance(e, ast.Call) else e)

    def exception_type(self, name):
        """`raise helper(...)` / `raise err` where helper is a nested function (or err a local) that builds the exception:
        the type of what is raised is the type it constructs."""
        for n in ast.walk(self.fi.node):
            if isinstance(n, ast.FunctionDef) and n.name == name and n is not self.fi.node:
                rets = [r.value for r in ast.walk(n) if isinstance(r, ast.Return) and r.value is not None]
                types = {ast.unparse(r.func) for r in rets if isinstance(r, ast.Call)}
                if rets and len(types) == 1 and all(isinstance(r, ast.Call) for r in rets):
                    return types.pop()
            if isinstance(n, ast.Assign) and len(n.targets) == 1 and isinstance(n.targets[0], ast.Name) and n.targets[0].id == name and \
                    isinstance(n.value, ast.Call) and isinstance(n.value.func, ast.Name) and n.value.func.id.endswith(("Error", "Exception")):
                return n.value.func.id
        return name

    def localdef(self, st):
        body = [s for s in st.body if not (isinstance(s, ast.Expr) and isinstance(s.value, ast.Constant))]
        has_reduce = any(isinstance(n, ast.Call) and ast.unparse(n.func) in ("reduce", "functools.reduce") for n in ast.walk(st))
        if len(body) == 1 and isinstance(body[0], ast.Return) and body[0].value is not None and not has_reduce:
            params = [a.arg for a in st.args.args]
            self.env[st.name] = ('localfn', tuple(params), body[0].value, ir.EnvBox(self.env))
            self.bind_ctx[st.name] = self.gen
        elif body and isinstance(body[-1], ast.Return) and body[-1].value is not None and \
                not any(isinstance(n, (ast.Return, ast.Yield, ast.YieldFrom, ast.Nonlocal, ast.Global))
                        for s in body[:-1] for n in ast.walk(s)) and \
                not st.args.vararg and not st.args.kwarg:
            # statements followed by one return: replayed at every call site (see call_local_procs)
            self.localprocs[st.name] = (st, body)
            self.env[st.name] = ('localproc', st.name)
            self.bind_ctx[st.name] = self.gen
        else:
            self.unsupported(st, f"local function {st.name} is not a single return")

    def expr_stmt(self, st):
        v = st.value
        if isinstance(v, ast.Call) and isinstance(v.func, ast.Attribute) and v.func.attr == "append" and len(v.args) == 1 and \
                isinstance(v.func.value, ast.Name) and self.env.get(v.func.value.id, ('x',))[0] == 'listacc':
            la = self.t.lists[self.env[v.func.value.id][1]]
            la.items.append((self.ex(v.args[0]), self.gen, st.lineno))
            return
        if isinstance(v, ast.Call) and self.m is not None and isinstance(v.func, ast.Attribute) and isinstance(v.func.value, ast.Name) and \
                v.func.attr in ("append", "extend", "insert", "update", "add", "pop", "remove", "clear", "setdefault", "sort", "reverse") and \
                self.env.get(v.func.value.id, ('x',))[0] in ('list', 'dict', 'set', 'tuple', 'gen'):
            self.unsupported(st, f"in-place update of the local container `{v.func.value.id}` (its later reads are not modelled)")
            return
        if isinstance(v, ast.Call):
            f = v.func
            # connect(m, a, b)
            if isinstance(f, ast.Name) and f.id == "connect" or \
                    (isinstance(f, ast.Attribute) and f.attr == "connect"):
                args = [self.ex(a) for a in v.args]
                if args and isinstance(v.args[0], ast.Name) and v.args[0].id == self.m:
                    self.close_chain()
                    self.t.connects.append((tuple(args[1:]), self.gen, self.dsl, st.lineno))
                    return
            # helper that receives m: inline
            if any(self.is_m(a) for a in v.args) or any(self.is_m(k.value) for k in v.keywords):
                if self.try_inline(v):
                    return
                self.unsupported(st, f"call {ast.unparse(f)} receives the module but cannot be inlined")
                return
            nr = self.noreturn_helper(v)
            if nr is not None:
                self.t.raises.append((nr, self.gen, st.lineno))
            self.t.calls.append((self.ex(v), self.gen, self.dsl, st.lineno))
            return
        if isinstance(v, ast.YieldFrom) and self.inline_generator(v.value, st):
            return
        handler = self.yield_handlers[-1] if self.yield_handlers else None
        if handler is not None and isinstance(v, ast.Yield) and v.value is not None:
            handler(v.value, st)
            return
        if handler is not None and isinstance(v, ast.YieldFrom):
            # yield from <iterable>  ==  for x in <iterable>: yield x
            tmp = f"__y{self.fresh()}"
            loop = ast.For(target=ast.Name(id=tmp, ctx=ast.Store()), iter=v.value,
                           body=[ast.Expr(value=ast.Yield(value=ast.Name(id=tmp, ctx=ast.Load())))], orelse=[])
            for n in ast.walk(loop):
                n.lineno, n.col_offset, n.end_lineno, n.end_col_offset = st.lineno, 0, st.lineno, 0
            self.block([loop])
            return
        if isinstance(v, (ast.Yield, ast.YieldFrom)):
            val = self.ex(v.value) if v.value is not None else ('const', None)
            self.t.yields.append((val, isinstance(v, ast.YieldFrom), self.gen, st.lineno))
            return
        self.t.calls.append((self.ex(v), self.gen, self.dsl, st.lineno))

    def inline_generator(self, call, st, on_yield="inherit", private_only=False):
        """yield from helper(args) where helper is a generator function of the same module (or a method of the same class):
        its body is walked with the parameters bound, so its yields become yields of the caller -- or are handed to
        `on_yield(value_ast, stmt)` (a consuming for-loop, a `m.d.x +=` statement)."""
        if not isinstance(call, ast.Call) or self.inline_depth <= 0 or any(isinstance(a, ast.Starred) for a in call.args):
            return False
        target = None
        skip = 0
        f = call.func
        if isinstance(f, ast.Name) and f.id not in self.env:
            target = self.index.resolve_function(self.fi.module, f.id)
        elif isinstance(f, ast.Attribute) and isinstance(f.value, ast.Name) and f.value.id == "self" and self.fi.cls is not None:
            target = self.index.lookup_method(self.fi.cls, f.attr)
            skip = 0 if target is not None and target.is_static else 1
        if target is None or target.node is self.fi.node or getattr(target, "name", None) in self.no_inline:
            return False
        if private_only and not target.node.name.startswith("_"):
            # a public generator of the pinned tree is part of an interface the rules talk about (flatten(), resources(), ...);
            # a new one is a helper like any other
            from .canon import _anchors
            if target.site in _anchors() or f"{target.module.rel}::{target.qual}" in _anchors():
                return False
        if not any(isinstance(n, (ast.Yield, ast.YieldFrom)) for n in ast.walk(target.node)):
            return False
        a = target.node.args
        if a.vararg or a.kwarg:
            return False
        params = [x.arg for x in a.args][skip:]
        if len(call.args) > len(params) or any(k.arg is None or k.arg not in params + [x.arg for x in a.kwonlyargs] for k in call.keywords):
            return False
        new_env = {p: self.ex(v) for p, v in zip(params, call.args)}
        for k in call.keywords:
            new_env[k.arg] = self.ex(k.value)
        for p, dflt in zip(params[len(params) - len(a.defaults):], a.defaults):
            new_env.setdefault(p, ir.from_ast(dflt, {}))
        for x, dflt in zip(a.kwonlyargs, a.kw_defaults):
            if dflt is not None:
                new_env.setdefault(x.arg, ir.from_ast(dflt, {}))
        if set(params) - set(new_env):
            return False
        saved_env, saved_bc = dict(self.env), dict(self.bind_ctx)
        self.env = new_env
        self.inline_depth -= 1
        if on_yield != "inherit":
            self.yield_handlers.append(on_yield)
        try:
            self.block(target.node.body)
        finally:
            if on_yield != "inherit":
                self.yield_handlers.pop()
            self.inline_depth += 1
            self.env, self.bind_ctx = saved_env, saved_bc
        return True

    def try_inline(self, call):
        if self.inline_depth <= 0:
            return False
        f = call.func
        recv_ir = None
        if isinstance(f, ast.Name):
            # a module-level emitting helper of the same module: _update_bits(m, ...)
            target = self.index.resolve_function(self.fi.module, f.id) if f.id not in self.env else None
            if target is None or any(isinstance(n, (ast.Yield, ast.YieldFrom)) for n in ast.walk(target.node)):
                return False
        elif not isinstance(f, ast.Attribute):
            return False
        elif isinstance(f.value, ast.Name) and f.value.id == "self":
            cls = self.fi.cls
            target = self.index.lookup_method(cls, f.attr) if cls else None
        else:
            # a private emitting helper of *another* class, called on an object (sub._elaborate_trigger(m)): found by its
            # name when exactly one class of the package defines it; its `self` is the receiver
            owners = [c_ for c_ in self.index.all_classes() if c_.method(f.attr) is not None]
            target = owners[0].method(f.attr) if len(owners) == 1 and f.attr.startswith("_") else None
            recv_ir = self.ex(f.value) if target is not None else None
        if target is None:
            return False
        params = [p for p in target.params]
        if params and params[0] == "self":
            params = params[1:]
        saved_env, saved_bc, saved_m = dict(self.env), dict(self.bind_ctx), self.m
        new_env = {}
        if recv_ir is not None:
            new_env["self"] = recv_ir
        for p, a in zip(params, call.args):
            if self.is_m(a):
                new_m = p
            new_env[p] = self.ex(a)
        for k in call.keywords:
            if k.arg:
                new_env[k.arg] = self.ex(k.value)
                if self.is_m(k.value):
                    new_m = k.arg
        # defaults
        a = target.node.args
        defaults = dict(zip([x.arg for x in a.args][len(a.args) - len(a.defaults):], a.defaults))
        for x, d in zip(a.kwonlyargs, a.kw_defaults):
            if d is not None:
                defaults[x.arg] = d
        for p, d in defaults.items():
            if p not in new_env:
                new_env[p] = ir.from_ast(d, {})
        self.env = new_env
        self.env.pop(new_m, None)
        self.m = new_m
        self.inline_depth -= 1
        try:
            self.block(target.node.body)
        finally:
            self.inline_depth += 1
            self.env, self.bind_ctx, self.m = saved_env, saved_bc, saved_m
        return True

    def assign(self, st):
        if len(st.targets) != 1:
            # a = b = V: V is evaluated once and bound to every target.  With a plain name among the targets the statement is
            # `name = V` followed by `<other> = name` (so that `m.submodules.x = x = self._x` registers the submodule and
            # `self._s = s = Signal()` creates one signal); without one, a value that is only read may be repeated.
            names = [t for t in st.targets if isinstance(t, ast.Name)]
            plain = not any(isinstance(n, (ast.Call, ast.Lambda, ast.ListComp, ast.GeneratorExp, ast.DictComp, ast.SetComp, ast.List, ast.Dict, ast.Set))
                            for n in ast.walk(st.value))
            if names or plain:
                seq = []
                if names:
                    carrier = names[0]
                    seq.append(ast.Assign(targets=[carrier], value=st.value))
                    for t in st.targets:
                        if t is not carrier:
                            seq.append(ast.Assign(targets=[t], value=ast.Name(id=carrier.id, ctx=ast.Load())))
                else:
                    seq = [ast.Assign(targets=[t], value=st.value) for t in st.targets]
                for s_ in seq:
                    ast.copy_location(s_, st)
                    ast.fix_missing_locations(s_)
                    self.assign(s_)
                return
            v = self.ex(st.value)
            for t in st.targets:
                self.assign_target(t, v, st)
            return
        t = st.targets[0]
        if isinstance(t, ast.Name) and self.m is not None and self.make_record(t.id, st.value, st):
            return
        if isinstance(t, ast.Subscript) and isinstance(t.value, ast.Name) and t.value.id in self.records:
            hidden = self.record_slot(t.value.id, t.slice, st)
            if hidden is None:
                return
            new = ast.copy_location(ast.Assign(targets=[ast.Name(id=hidden, ctx=ast.Store())], value=st.value), st)
            ast.fix_missing_locations(new)
            self.assign(new)
            self.refresh_record(t.value.id)
            return
        # m = Module()
        if isinstance(t, ast.Name) and isinstance(st.value, ast.Call) and isinstance(st.value.func, ast.Name) \
                and st.value.func.id == "Module":
            self.m = t.id
            self.t.module_name = t.id
            return
        # m.submodules.x = y / m.submodules["x"] = y
        if isinstance(t, ast.Attribute) and isinstance(t.value, ast.Attribute) and self.is_m(t.value.value) \
                and t.value.attr == "submodules":
            self.t.submodules.append((('const', t.attr), self.ex(st.value), self.gen, st.lineno))
            return
        if isinstance(t, ast.Subscript) and isinstance(t.value, ast.Attribute) and self.is_m(t.value.value) \
                and t.value.attr == "submodules":
            self.t.submodules.append((self.ex(t.slice), self.ex(st.value), self.gen, st.lineno))
            return
        # local signal
        if isinstance(t, ast.Name) and isinstance(st.value, ast.Call):
            fn = st.value.func
            fname = ast.unparse(fn)
            if fname in ("Signal", "Signal.like"):
                sid = self.fresh()
                ctor = self.ex(st.value)
                self.t.sigs[sid] = LocalSig(sid, t.id, ctor, self.gen, st.lineno)
                self.bind(t.id, ('sig', sid, t.id))
                return
            # local instance of a repository class: a fresh object with identity
            fir = ir.from_ast(fn, {})
            if fir[0] in ('name', 'attr') and self.index.resolve_class(fir, self.fi.module, self.fi.cls) is not None \
                    and self.m is not None:
                oid = self.fresh()
                self.t.objs[oid] = LocalSig(oid, t.id, self.ex(st.value), self.gen, st.lineno)
                self.bind(t.id, ('obj', oid, t.id))
                return
        tmp = self.reduce_or(st.value, st)
        if tmp is not None:
            return self.assign_target(t, self.env[tmp], st)
        if isinstance(t, ast.Name) and isinstance(st.value, ast.List) and not st.value.elts:
            lid = self.fresh()
            self.t.lists[lid] = ListAcc(lid, t.id, self.gen)
            self.bind(t.id, ('listacc', lid))
            return
        # xs = [a, b] that is appended to later: the same list, with its first elements appended where it is created
        if isinstance(t, ast.Name) and isinstance(st.value, ast.List) and st.value.elts and self.m is not None and \
                not any(isinstance(e, ast.Starred) for e in st.value.elts) and \
                any(isinstance(n, ast.Call) and isinstance(n.func, ast.Attribute) and n.func.attr == "append" and
                    isinstance(n.func.value, ast.Name) and n.func.value.id == t.id for n in ast.walk(self.fi.node)) and \
                sum(1 for n in ast.walk(self.fi.node) if isinstance(n, ast.Name) and n.id == t.id and isinstance(n.ctx, ast.Store)) == 1:
            lid = self.fresh()
            la = ListAcc(lid, t.id, self.gen)
            self.t.lists[lid] = la
            for e in st.value.elts:
                la.items.append((self.ex(e), self.gen, st.lineno))
            self.bind(t.id, ('listacc', lid))
            return
        # a, b, c = [], [], []
        if isinstance(t, (ast.Tuple, ast.List)) and isinstance(st.value, (ast.Tuple, ast.List)) and len(t.elts) == len(st.value.elts) and \
                t.elts and all(isinstance(x, ast.Name) for x in t.elts) and all(isinstance(v_, ast.List) and not v_.elts for v_ in st.value.elts):
            for x in t.elts:
                lid = self.fresh()
                self.t.lists[lid] = ListAcc(lid, x.id, self.gen)
                self.bind(x.id, ('listacc', lid))
            return
        v = self.ex(st.value)
        # a call whose result is only bound to names (a, b = obj.method(...)): remembered, so that rules that look for the
        # call find it even when the names are never used again
        if isinstance(st.value, ast.Call) and isinstance(st.value.func, ast.Attribute) and v[0] == 'call' and self.m is None:
            self.t.calls.append((('assigned', v), self.gen, self.dsl, st.lineno))
        self.assign_target(t, v, st)

    def reduce_or(self, node, st):
        """functools.reduce(operator.or_, (ELT for T in ITER), INIT) -> the accumulator loop it abbreviates.
        Returns the name of a temporary holding the accumulator, or None when the call has another shape."""
        if not (isinstance(node, ast.Call) and ast.unparse(node.func) in ("reduce", "functools.reduce") and
                len(node.args) == 3 and not node.keywords):
            return None
        fn, seq, init = node.args
        is_or = ast.unparse(fn) in ("operator.or_", "or_", "operator.__or__")
        if isinstance(fn, ast.Lambda) and len(fn.args.args) == 2 and isinstance(fn.body, ast.BinOp) and \
                isinstance(fn.body.op, ast.BitOr):
            a, b = (x.arg for x in fn.args.args)
            is_or = {ast.unparse(fn.body.left), ast.unparse(fn.body.right)} == {a, b}
        if is_or and isinstance(seq, ast.Name) and self.env.get(seq.id, ('x',))[0] == 'listacc':
            # reduce over a list that was filled by appends: for __r in xs: acc |= __r
            el = f"__r{self.fresh()}"
            seq = ast.GeneratorExp(elt=ast.Name(id=el, ctx=ast.Load()),
                                   generators=[ast.comprehension(target=ast.Name(id=el, ctx=ast.Store()), iter=seq, ifs=[], is_async=0)])
        if not is_or or not isinstance(seq, (ast.GeneratorExp, ast.ListComp)) or len(seq.generators) != 1 or \
                seq.generators[0].is_async:
            return None
        g = seq.generators[0]
        tmp = f"__reduce_{self.fresh()}"
        body = [ast.AugAssign(target=ast.Name(id=tmp, ctx=ast.Store()), op=ast.BitOr(), value=seq.elt)]
        for test in reversed(g.ifs):
            body = [ast.If(test=test, body=body, orelse=[])]
        stmts = [ast.Assign(targets=[ast.Name(id=tmp, ctx=ast.Store())], value=init),
                 ast.For(target=g.target, iter=g.iter, body=body, orelse=[])]
        for s in stmts:
            for n in ast.walk(s):
                if not hasattr(n, "lineno"):
                    n.lineno = st.lineno
                    n.col_offset = 0
                    n.end_lineno = getattr(st, "end_lineno", st.lineno)
                    n.end_col_offset = 0
        saved = {nm: self.env.get(nm) for nm in ir_names(g.target)}
        self.block(stmts)
        for nm, v in saved.items():         # comprehension targets do not leak
            if v is None:
                self.env.pop(nm, None)
            else:
                self.env[nm] = v
        return tmp

    def assign_target(self, t, v, st):
        if isinstance(t, ast.Name):
            # x = x | term  -> accumulator form
            cur = self.env.get(t.id)
            if cur is not None and v[0] == 'bin' and v[1] == '|' and (v[2] == cur or v[3] == cur) and \
                    (cur[0] in ('acc', 'const')):
                term = v[3] if v[2] == cur else v[2]
                return self.accumulate(t.id, term, st)
            self.bind(t.id, v)
            return
        if isinstance(t, (ast.Tuple, ast.List)):
            if v[0] in ('tuple', 'list') and len(v[1]) == len(t.elts):
                for te, ve in zip(t.elts, v[1]):
                    self.assign_target(te, ve, st)
            else:
                for i, te in enumerate(t.elts):
                    self.assign_target(te, ('sub', v, ('const', i)), st)
            return
        if isinstance(t, (ast.Attribute, ast.Subscript)):
            if self.local_container_update(t, st):
                return
            # store to an object: recorded as a call-like effect
            self.t.calls.append((('store', self.ex(t), v), self.gen, self.dsl, st.lineno))
            return
        self.unsupported(st, "assignment target not modelled")

    def accumulate(self, name, term, st, op='|'):
        cur = self.env.get(name)
        if cur is None:
            self.unsupported(st, f"accumulator {name} used before initialisation")
            return
        if cur[0] != 'acc':
            aid = self.fresh()
            acc = Acc(aid, name, cur, self.bind_ctx.get(name, ()))
            acc.op = op
            self.t.accs[aid] = acc
            self.env[name] = ('acc', aid)
        else:
            acc = self.t.accs[cur[1]]
            if acc.op != op:
                self.unsupported(st, f"accumulator {name} mixes operators")
                return
        acc.terms.append((term, self.gen, self.dsl, st.lineno))

    def augassign(self, st):
        t = st.target
        if isinstance(t, ast.Subscript) and isinstance(t.value, ast.Name) and t.value.id in self.records:
            hidden = self.record_slot(t.value.id, t.slice, st)
            if hidden is None:
                return
            new = ast.copy_location(ast.AugAssign(target=ast.Name(id=hidden, ctx=ast.Store()), op=st.op, value=st.value), st)
            ast.fix_missing_locations(new)
            self.augassign(new)
            self.refresh_record(t.value.id)
            return
        # m.d.<domain> += ... / m.d["domain"] += ...
        dom = None
        if isinstance(t, ast.Attribute) and isinstance(t.value, ast.Attribute) and self.is_m(t.value.value) \
                and t.value.attr == "d":
            dom = t.attr
        elif isinstance(t, ast.Subscript) and isinstance(t.value, ast.Attribute) and self.is_m(t.value.value) \
                and t.value.attr == "d" and isinstance(t.slice, ast.Constant):
            dom = t.slice.value
        elif isinstance(t, ast.Subscript) and isinstance(t.value, ast.Attribute) and self.is_m(t.value.value) and t.value.attr == "d":
            # m.d[domain] with the domain held in a variable (a row of a literal table): known when it evaluates to a constant
            dv = ir.norm(self.ex(t.slice))
            if dv[0] == 'const' and isinstance(dv[1], str):
                dom = dv[1]
            else:
                self.unsupported(st, f"m.d[{ast.unparse(t.slice)}]: the clock domain is not a constant here")
                return
        if dom is not None and isinstance(st.op, ast.Add):
            return self.emit(dom, st.value, st)
        if isinstance(t, ast.Attribute) and self.is_m(t.value) and t.attr == "submodules":
            self.t.submodules.append((None, self.ex(st.value), self.gen, st.lineno))
            return
        if isinstance(t, ast.Name):
            if t.id not in self.env:
                if t.id in self.fi.params:
                    self.env[t.id] = ('name', t.id)
                    self.bind_ctx[t.id] = ()
                else:
                    self.unsupported(st, f"augmented assignment to unknown local {t.id}")
                    return
            term = self.ex(st.value)
            if isinstance(st.op, ast.BitOr):
                home = self.bind_ctx.get(t.id, ())
                in_loop = any(fr[0] == 'for' for fr in self.gen[len(home):]) if self.gen[:len(home)] == home else True
                if in_loop or self.env[t.id][0] == 'acc':
                    return self.accumulate(t.id, term, st)
                # outside any loop `x |= y` is just `x = x | y` (an accumulator is only needed for a fan-in built up in a loop)
            op = ir.BINOPS[type(st.op)]
            self.assign_target(ast.Name(id=t.id, ctx=ast.Store()), ('bin', op, self.env[t.id], term), st)
            return
        if self.local_container_update(t, st):
            return
        self.t.calls.append((('augstore', self.ex(t), ir.BINOPS[type(st.op)], self.ex(st.value)),
                             self.gen, self.dsl, st.lineno))

    def make_record(self, name, value, st):
        """name = {K: v, ...} / {k: v for k in <literal of constants>} in an elaborate(): a bundle of variables addressed by
        constant keys.  Each entry becomes a hidden local, so that `name[K] |= x`, `name[K]` and `name.items()` are ordinary
        accumulators, reads and a literal loop."""
        pairs = None
        if isinstance(value, ast.Dict) and value.keys and all(isinstance(k, ast.Constant) and isinstance(k.value, (str, int)) for k in value.keys):
            pairs = [(k.value, v) for k, v in zip(value.keys, value.values)]
        elif isinstance(value, ast.DictComp) and len(value.generators) == 1 and not value.generators[0].ifs and \
                isinstance(value.generators[0].target, ast.Name) and isinstance(value.key, ast.Name) and \
                value.key.id == value.generators[0].target.id:
            it = value.generators[0].iter
            if isinstance(it, (ast.Tuple, ast.List)) and it.elts and all(isinstance(e, ast.Constant) and isinstance(e.value, (str, int)) for e in it.elts) and \
                    not any(isinstance(n, ast.Name) and n.id == value.key.id for n in ast.walk(value.value)):
                pairs = [(e.value, value.value) for e in it.elts]
        elif isinstance(value, ast.Call) and ast.unparse(value.func) == "dict.fromkeys" and 1 <= len(value.args) <= 2 and not value.keywords and \
                isinstance(value.args[0], (ast.Tuple, ast.List)) and value.args[0].elts and \
                all(isinstance(e, ast.Constant) and isinstance(e.value, (str, int)) for e in value.args[0].elts):
            dflt = value.args[1] if len(value.args) == 2 else ast.copy_location(ast.Constant(value=None), value)
            if isinstance(dflt, (ast.Constant, ast.Name)):          # one shared immutable default
                pairs = [(e.value, dflt) for e in value.args[0].elts]
        if pairs is None or len({k for k, _ in pairs}) != len(pairs) or len(pairs) > 8:
            return False
        # only when the dictionary is used as a bundle: subscripted, iterated with items()/values()/keys(), nothing else
        par = {}
        for n in ast.walk(self.fi.node):
            for ch in ast.iter_child_nodes(n):
                par[ch] = n
        for n in ast.walk(self.fi.node):
            if isinstance(n, ast.Name) and n.id == name and not (isinstance(n.ctx, ast.Store) and par.get(n) is st):
                p_ = par.get(n)
                if isinstance(p_, ast.Subscript) and p_.value is n:
                    continue
                if isinstance(p_, ast.Attribute) and p_.attr in ("items", "values", "keys") and isinstance(par.get(p_), ast.Call):
                    continue
                return False
        slots = {}
        for k, v in pairs:
            hidden = f"__rec_{name}_{k}"
            slots[k] = hidden
            self.bind(hidden, self.ex(v))
        self.records[name] = slots
        self.refresh_record(name)
        return True

    def record_slot(self, name, slice_node, st):
        k = ir.norm(self.ex(slice_node))
        if k[0] == 'const' and k[1] in self.records[name]:
            return self.records[name][k[1]]
        self.unsupported(st, f"`{name}[{ast.unparse(slice_node)}]`: the key of the local record is not one of its constant keys here")
        return None

    def refresh_record(self, name):
        self.env[name] = ('dict', tuple((('const', k), self.env.get(h, ('undef',))) for k, h in self.records[name].items()))

    def local_container_update(self, t, st):
        """xs[k] = v / d[k] |= v on a *local* list or dict of an elaborate(): the walker keeps the container's value as written
        at its definition, so everything read from it later would be stale.  Reported as unsupported (undecided), never
        silently ignored."""
        if self.m is None or not isinstance(t, ast.Subscript):
            return False
        root = t.value
        while isinstance(root, ast.Subscript):
            root = root.value
        if isinstance(root, ast.Name) and root.id in self.env and root.id != "self":
            cur = self.env[root.id]
            base = cur
            while base[0] in ('attr', 'sub'):
                base = base[1]
            if base in (('name', 'self'),) or cur[0] in ('name', 'obj'):
                return False                            # an alias of component state / a parameter: an ordinary store
            self.unsupported(st, f"in-place update of the local container `{root.id}` (its later reads are not modelled)")
            return True
        return False

    def emit(self, domain, value_node, st):
        items = value_node.elts if isinstance(value_node, (ast.List, ast.Tuple)) else [value_node]
        for it in items:
            gcall = it
            if isinstance(gcall, ast.Call) and isinstance(gcall.func, ast.Name) and gcall.func.id in ("list", "tuple") and \
                    len(gcall.args) == 1 and not gcall.keywords:
                gcall = gcall.args[0]
            if isinstance(gcall, ast.Call) and self.inline_generator(
                    gcall, st, on_yield=lambda val, yst, _d=domain: self.emit(_d, val, yst)):
                continue
            if isinstance(it, (ast.ListComp, ast.GeneratorExp)) and len(it.generators) == 1 and \
                    isinstance(st, ast.AugAssign):
                # m.d.dom += [stmt for T in ITER if C]  ==  for T in ITER: if C: m.d.dom += stmt
                g = it.generators[0]
                body = [ast.AugAssign(target=st.target, op=ast.Add(), value=it.elt)]
                for test in reversed(g.ifs):
                    body = [ast.If(test=test, body=body, orelse=[])]
                loop = ast.For(target=g.target, iter=g.iter, body=body, orelse=[])
                for n in ast.walk(loop):
                    if not hasattr(n, "lineno"):
                        n.lineno = st.lineno
                        n.col_offset = 0
                        n.end_lineno = getattr(st, "end_lineno", st.lineno)
                        n.end_col_offset = 0
                saved = {nm: self.env.get(nm) for nm in ir_names(g.target)}
                self.block([loop])
                for nm, v in saved.items():
                    if v is None:
                        self.env.pop(nm, None)
                    else:
                        self.env[nm] = v
                continue
            if isinstance(it, ast.IfExp):
                cond = self.ex(it.test)
                saved = self.gen
                self.gen = saved + (('pyif', cond, True),)
                self.emit(domain, it.body, st)
                self.gen = saved + (('pyif', cond, False),)
                self.emit(domain, it.orelse, st)
                self.gen = saved
                continue
            if isinstance(it, ast.Call) and isinstance(it.func, ast.Attribute) and it.func.attr == "eq" \
                    and len(it.args) == 1:
                tgt = self.ex(it.func.value)
                tmp = self.reduce_or(it.args[0], st)
                val = self.env[tmp] if tmp is not None else self.ex(it.args[0])
                self.emit_driver(domain, tgt, val, getattr(it, "lineno", st.lineno))
            else:
                e = self.ex(it)
                if isinstance(it, ast.Name) and self.emit_ir(domain, e, st, dry=True):
                    # a local list of statements built up beforehand (stmts = []; if c: stmts += [...]): its value says which
                    # statements it holds under which generation-time conditions
                    self.emit_ir(domain, e, st)
                    continue
                if e[0] in ('list', 'tuple') or e[0] == 'gen':
                    self.unsupported(st, "computed statement list in m.d.<domain> +=")
                else:
                    self.unsupported(st, f"DSL statement is not an .eq(): {ir.show(e)[:60]}")

    def emit_ir(self, domain, e, st, dry=False):
        """Emit the statements held by the value e of a statement list: displays, concatenations, generation-time choices and
        `.eq()` calls.  With dry=True nothing is emitted; the result says whether e is understood completely."""
        try:
            e = ir.norm(e)
        except Exception:
            return False
        k = e[0]
        if k == 'listacc':
            la = self.t.lists.get(e[1])
            return la is not None and not la.items      # created empty and never appended to: holds nothing
        if k in ('list', 'tuple'):
            if any(x[0] == 'star' for x in e[1]):
                return False
            return all([self.emit_ir(domain, x, st, dry) for x in e[1]])
        if k == 'bin' and e[1] == '+':
            return all([self.emit_ir(domain, e[2], st, dry), self.emit_ir(domain, e[3], st, dry)])
        if k == 'phi':
            if dry:
                return self.emit_ir(domain, e[2], st, True) and self.emit_ir(domain, e[3], st, True)
            saved = self.gen
            self.gen = saved + (('pyif', e[1], True),)
            self.emit_ir(domain, e[2], st)
            self.gen = saved + (('pyif', e[1], False),)
            self.emit_ir(domain, e[3], st)
            self.gen = saved
            return True
        if k == 'call' and e[1][0] == 'attr' and e[1][2] == 'eq' and len(e[2]) == 1 and not e[3]:
            if not dry:
                self.emit_driver(domain, e[1][1], e[2][0], st.lineno)
            return True
        return False

    def emit_driver(self, domain, tgt, val, lineno):
        # a target chosen by name at generation time (getattr(bus, <variable>)) could be any member of that object: nothing can
        # be said about "is X driven" while such a driver exists
        try:
            tn = ir.norm(tgt)
        except Exception:
            tn = tgt
        if any(x[0] == 'call' and x[1] == ('name', 'getattr') and len(x[2]) >= 2 and x[2][1][0] != 'const' for x in ir.walk(tn)):
            self.t.unsupported.append((lineno, f"driver with a target selected by name at generation time: {ir.show(tn)[:60]}"))
        # a plain statement closes any open If chain at this depth
        self.chain[self.dsl] = None
        # hoisting: directly inside a Switch body -> goes to the enclosing scope
        if self.dsl and self.dsl[-1][0] == 'switch':
            dsl = self.dsl[:-1]
            # order: enclosing scope counter
            self.counters[-2] += 1
            order = self.order_prefix[:-1] + (self.counters[-2],)
        else:
            dsl = self.dsl
            order = self.next_order()
        self.seqno += 1
        self.t.drivers.append(Driver(domain, tgt, val, dsl, self.gen, order, lineno, self.seqno))

    # ---- with -------------------------------------------------------------------------------
    def with_(self, st):
        if len(st.items) != 1:
            self.unsupported(st, "with statement with several items")
            return
        c = st.items[0].context_expr
        # `with (m.If if k == 0 else m.Elif)(S == f(k)):` inside the loop over k: an If / Elif chain with one arm per iteration.  When
        # every arm tests the same subject for equality with a value that depends on the loop index, the arms are the Case arms of a
        # Switch over that subject (distinct iterations test distinct values: A6), and an `m.Else()` after the loop is its Default.
        if isinstance(c, ast.Call) and isinstance(c.func, ast.IfExp) and len(c.args) == 1 and not c.keywords:
            fe = c.func
            arms = (fe.body, fe.orelse)
            if all(isinstance(a_, ast.Attribute) and self.is_m(a_.value) for a_ in arms) and (arms[0].attr, arms[1].attr) == ("If", "Elif") and \
                    isinstance(fe.test, ast.Compare) and len(fe.test.ops) == 1 and isinstance(fe.test.ops[0], ast.Eq) and \
                    isinstance(fe.test.left, ast.Name) and isinstance(fe.test.comparators[0], ast.Constant) and fe.test.comparators[0].value == 0:
                kv = self.env.get(fe.test.left.id)
                cond = ir.norm(self.ex(c.args[0]))
                loops_here = [fr[1] for fr in self.gen if fr[0] == 'for']
                if isinstance(kv, tuple) and kv[0] == 'idx' and kv[1] in loops_here and cond[0] == 'cmp' and cond[1] == '==':
                    lhs, rhs = cond[2], cond[3]
                    # (S - f(k)) == 0 after normalisation, or S == f(k)
                    subj = pat = None
                    if rhs == ('const', 0) and lhs[0] == 'lin' and len(lhs[2]) == 2:
                        for (t1, c1), (t2, c2) in ((lhs[2][0], lhs[2][1]), (lhs[2][1], lhs[2][0])):
                            if c1 == 1 and c2 == -1 and not ir.mentions(t1, kv) and ir.mentions(t2, kv):
                                subj, pat = t1, ir.norm(('bin', '-', t2, ('const', lhs[1]))) if lhs[1] else t2
                    elif not ir.mentions(lhs, kv) and ir.mentions(rhs, kv):
                        subj, pat = lhs, rhs
                    elif not ir.mentions(rhs, kv) and ir.mentions(lhs, kv):
                        subj, pat = rhs, lhs
                    if subj is not None:
                        here = self.dsl
                        key = (here, ir.show(subj), kv[1])
                        sid = self._chain_switch.get(key)
                        if sid is None:
                            sid = self.fresh()
                            self._chain_switch[key] = sid
                            self.t.switches[sid] = subj
                            self._chain_switch_at[here] = sid
                        frame = ('case', sid, (pat,), st.lineno)
                        self.t.switch_cases.setdefault(sid, []).append((pat,))
                        self._case_frames.setdefault(sid, []).append(frame)
                        saved = self.dsl
                        self.dsl = here + (frame,)
                        self.counters.append(0)
                        self.order_prefix = self.order_prefix + (0,)
                        self.chain[self.dsl] = None
                        self.block(st.body)
                        self.order_prefix = self.order_prefix[:-1]
                        self.counters.pop()
                        self.dsl = saved
                        return
        if isinstance(c, ast.Call) and isinstance(c.func, ast.Attribute) and self.is_m(c.func.value) and c.func.attr == "Else" and \
                self.chain.get(self.dsl) is None and self.dsl in self._chain_switch_at:
            sid = self._chain_switch_at.pop(self.dsl)
            frame = ('default', sid)
            saved = self.dsl
            self.dsl = saved + (frame,)
            self.counters.append(0)
            self.order_prefix = self.order_prefix + (0,)
            self.chain[self.dsl] = None
            self.block(st.body)
            self.order_prefix = self.order_prefix[:-1]
            self.counters.pop()
            self.dsl = saved
            return
        if not (isinstance(c, ast.Call) and isinstance(c.func, ast.Attribute) and self.is_m(c.func.value)):
            self.unsupported(st, f"with {ast.unparse(c)[:40]} is not a DSL block")
            return
        kind = c.func.attr
        args = [self.ex(a) for a in c.args]
        here = self.dsl
        in_switch_body = bool(here) and here[-1][0] == 'switch'
        if kind in ("If", "Elif", "Else"):
            if in_switch_body:
                self.unsupported(st, "If directly inside a Switch body (SyntaxError in Amaranth)")
                return
            if kind == "If":
                self.chain[here] = []
                frame = ('if', args[0], ())
                self.chain[here].append(args[0])
                # chain gets one sequence number; branches share it
                self.counters[-1] += 1
                self._chain_seqs[here] = self.counters[-1]
            else:
                priors = self.chain.get(here)
                if priors is None:
                    self.unsupported(st, f"{kind} without a preceding If at the same depth")
                    return
                if kind == "Elif":
                    frame = ('elif', args[0], tuple(priors))
                    priors.append(args[0])
                else:
                    frame = ('else', tuple(priors))
                    self.chain[here] = None
            seq = self._chain_seqs[here]
            self.enter(frame, seq, st.body)
            return
        if kind == "Switch":
            if in_switch_body:
                self.unsupported(st, "Switch directly inside a Switch body")
                return
            self.chain[here] = None
            sid = self.fresh()
            self.t.switches[sid] = args[0]
            cell = OrderCell()
            frame = ('switch', sid, args[0])
            self.switch_stack.append(sid)
            n_before = len(self.t.drivers)
            self.enter(frame, cell, st.body)
            self.switch_stack.pop()
            # A Default arm that only assigns signals which *every* Case arm assigns as well shows its values exactly when no Case
            # matches -- which is what the same assignments written before the Switch do (a matching Case overrides them).  Such
            # drivers are re-homed in front of the Switch, so that both spellings have one decision list.
            mine = self.t.drivers[n_before:]
            dflt = [d_ for d_ in mine if d_.dsl == here + (('default', sid),)]
            case_frames = self._case_frames.get(sid, [])
            if dflt and case_frames and not any(d_.dsl[:len(here) + 1] == here + (('default', sid),) and len(d_.dsl) > len(here) + 1 for d_ in mine):
                def tkey(x):
                    try:
                        return ir.show(ir.norm(x.target))
                    except Exception:
                        return ir.show(x.target)
                ok_targets = set()
                gen0 = self.gen                             # generation context of the Switch statement itself
                inner_loops = {fr[1] for d_ in mine for fr in d_.gen[len(gen0):] if fr[0] == 'for'}

                def every_arm(c_):
                    # a Case written inside a generation loop stands for one arm per iteration: "every arm assigns T" then needs
                    # the assignment in every iteration (no generation-time condition) and T to be the same signal in all of them
                    extra = c_.gen[len(gen0):] if c_.gen[:len(gen0)] == gen0 else None
                    return extra is not None and all(fr[0] == 'for' for fr in extra)
                for tk in {tkey(d_) for d_ in dflt}:
                    dd0 = next(dd for dd in dflt if tkey(dd) == tk)
                    try:
                        tn = ir.norm(dd0.target)
                    except Exception:
                        continue
                    if any(x[0] in ('idx', 'item') and x[1] in inner_loops for x in ir.walk(tn)) or dd0.gen != gen0:
                        continue
                    if all(any(c_.dsl == here + (cf,) and c_.domain == dd.domain and tkey(c_) == tk and every_arm(c_) for c_ in mine)
                           for cf in case_frames for dd in dflt if tkey(dd) == tk):
                        ok_targets.add(tk)
                moved = [d_ for d_ in dflt if tkey(d_) in ok_targets]
                if moved and len(moved) == len(dflt):
                    self.counters[-1] += 1
                    for d_ in moved:
                        d_.dsl = here
                        d_.order = self.order_prefix + (self.counters[-1],)
                    self.t.rehomed_defaults.append((sid, len(moved), st.lineno))
            # the Switch statement is appended when the block exits
            self.counters[-1] += 1
            cell.v = self.counters[-1]
            return
        if kind in ("Case", "Default"):
            if not in_switch_body:
                self.unsupported(st, f"{kind} outside a Switch")
                return
            sw = here[-1]
            if kind == "Case":
                frame = ('case', sw[1], tuple(args), st.lineno)
                self.t.switch_cases.setdefault(sw[1], []).append(tuple(args))
                self._case_frames.setdefault(sw[1], []).append(frame)
            else:
                frame = ('default', sw[1])
            # replace the 'switch' frame by the case frame for the body
            saved = self.dsl
            self.dsl = here[:-1] + (frame,)
            self.counters.append(0)
            self.order_prefix = self.order_prefix + (0,)
            self.chain[self.dsl] = None
            self.block(st.body)
            self.order_prefix = self.order_prefix[:-1]
            self.counters.pop()
            self.dsl = saved
            return
        self.unsupported(st, f"DSL construct m.{kind} is not modelled")

    def enter(self, frame, seq, body):
        saved = self.dsl
        self.dsl = saved + (frame,)
        self.counters.append(0)
        self.order_prefix = self.order_prefix + (seq,)
        self.chain[self.dsl] = None
        self.block(body)
        self.order_prefix = self.order_prefix[:-1]
        self.counters.pop()
        self.dsl = saved

    # ---- python control flow ---------------------------------------------------------------
    def assigned_names(self, stmts):
        out = {}
        for st in stmts:
            for n in ast.walk(st):
                if isinstance(n, ast.Assign):
                    for t in n.targets:
                        for x in ast.walk(t):
                            if isinstance(x, ast.Name):
                                out.setdefault(x.id, []).append(n)
                elif isinstance(n, ast.AugAssign) and isinstance(n.target, ast.Name):
                    out.setdefault(n.target.id, []).append(n)
        return out

    def zip_parts(self, e):
        """The sequences of zip(S1, S2, ...) when each is a plain expression over the component (names, attributes, subscripts by
        constants): a loop over the zip visits position k of each of them."""
        if not (e[0] == 'call' and e[1] == ('name', 'zip') and len(e[2]) >= 2 and not e[3]):
            return None

        def plain(x):
            if self.zip_parts(x) is not None:
                return True
            # a list built by a comprehension over range(n): one element per position (its length n is assumed to match: A8)
            if x[0] == 'gen' and x[1] == 'list' and len(x[3]) == 1 and not x[3][0][2] and x[3][0][0][0] == 'bv' and \
                    x[3][0][1][0] == 'call' and x[3][0][1][1] == ('name', 'range') and 1 <= len(x[3][0][1][2]) <= 2:
                return True
            return all(y[0] in ('name', 'attr', 'sub', 'const') for y in ir.walk(x)) and any(y == ('name', 'self') for y in ir.walk(x))
        return tuple(e[2]) if all(plain(a) for a in e[2]) else None

    def for_listacc(self, st, accs):
        """for t in xs / for a, b in zip(xs, ys): replay the generation context of every append."""
        n = {len(a.items) for a in accs}
        if len(n) != 1:
            self.unsupported(st, "zip over lists with different numbers of append sites")
            return
        for k in range(n.pop()):
            frames = {a.items[k][1][len(a.home):] for a in accs}
            if len(frames) != 1 or any(a.home != accs[0].home for a in accs):
                self.unsupported(st, "zip over lists that are not filled in the same generation context")
                return
            extra = frames.pop()
            if len(accs) == 1:
                value = accs[0].items[k][0]
            else:
                value = ('tuple', tuple(a.items[k][0] for a in accs))
            saved_gen, saved_env, saved_bc = self.gen, dict(self.env), dict(self.bind_ctx)
            self.gen = self.gen + extra
            self.assign_target(st.target, value, st)
            self.block(st.body)
            self.gen = saved_gen
            # locals of the replayed body do not leak into the next replay
            for name in list(self.env):
                if name not in saved_env:
                    del self.env[name]

    def for_literal(self, st, elts):
        """A loop over a literal tuple / list is unrolled: the target is bound to each element in turn.  `if c: ...; break`
        puts the rest of the iteration and all later iterations under `not c`; `if c: ...; continue` only the rest of
        the iteration."""
        def run(k):
            if k == len(elts):
                return
            self.assign_target(st.target, self.ex(elts[k]), st)
            blk(st.body, k)

        def blk(stmts, k):
            for i, s in enumerate(stmts):
                last = s.body[-1] if isinstance(s, ast.If) and not s.orelse and s.body else None
                if isinstance(last, (ast.Break, ast.Continue)):
                    cond = self.ex(s.test)
                    known = self.const_cond(cond)
                    if known is True:
                        self.block(s.body[:-1])
                        if isinstance(last, ast.Continue):
                            run(k + 1)
                        return
                    if known is False:
                        continue
                    self.t.conds.append((cond, self.gen, s.lineno))
                    saved = self.gen
                    env0, bc0 = dict(self.env), dict(self.bind_ctx)
                    self.gen = saved + (('pyif', cond, True),)
                    self.block(s.body[:-1])
                    if isinstance(last, ast.Continue):
                        self.env, self.bind_ctx = dict(env0), dict(bc0)
                        run(k + 1)
                    self.env, self.bind_ctx = env0, bc0
                    self.gen = saved + (('pyif', cond, False),)
                    blk(stmts[i + 1:], k)
                    self.gen = saved
                    return
                if isinstance(s, (ast.Break, ast.Continue)):
                    if isinstance(s, ast.Continue):
                        run(k + 1)
                    return
                if any(isinstance(n, (ast.Break, ast.Continue)) for n in ast.walk(s)
                       if not isinstance(s, (ast.For, ast.While))):
                    self.unsupported(s, "break / continue nested deeper than `if c: ...; break`")
                self.stmt(s)
            run(k + 1)
        run(0)

    def for_(self, st):
        if st.orelse:
            self.unsupported(st, "for/else")
        if isinstance(st.iter, (ast.Tuple, ast.List)) and 0 < len(st.iter.elts) <= 8 and \
                not any(isinstance(e, ast.Starred) for e in st.iter.elts):
            return self.for_literal(st, st.iter.elts)
        # a local name bound once to a literal table of rows (tuples of constants / names / attribute chains) and never
        # touched again: the same unrolling
        if isinstance(st.iter, ast.Name) and self.env.get(st.iter.id, ('x',))[0] in ('tuple', 'list'):
            nm = st.iter.id
            defs = [n for n in ast.walk(self.fi.node) if isinstance(n, ast.Assign) and len(n.targets) == 1 and
                    isinstance(n.targets[0], ast.Name) and n.targets[0].id == nm]
            uses = [n for n in ast.walk(self.fi.node) if isinstance(n, ast.Name) and n.id == nm]

            def plain(e):
                return isinstance(e, ast.Constant) or (isinstance(e, ast.Name)) or (isinstance(e, ast.Attribute) and plain(e.value)) or \
                    (isinstance(e, (ast.Tuple, ast.List)) and all(plain(x) for x in e.elts))
            if len(defs) == 1 and isinstance(defs[0].value, (ast.Tuple, ast.List)) and 0 < len(defs[0].value.elts) <= 8 and \
                    all(isinstance(e, (ast.Tuple, ast.List)) and plain(e) for e in defs[0].value.elts) and \
                    sum(1 for n in uses if isinstance(n.ctx, ast.Store)) == 1 and \
                    not any(isinstance(n, ast.Name) and isinstance(n.ctx, ast.Store) and n.id in
                            {x.id for e in defs[0].value.elts for x in ast.walk(e) if isinstance(x, ast.Name)}
                            for n in ast.walk(self.fi.node)):
                return self.for_literal(st, defs[0].value.elts)
        # for k, v in D.items() / for k in D / for v in D.values() with D a local dict display bound once: the rows in order
        # {K: v, ...}.items() / .values() / .keys() of a dict display written in place (a propagated constant table), or the display itself
        dd = st.iter.func.value if isinstance(st.iter, ast.Call) and isinstance(st.iter.func, ast.Attribute) and \
            st.iter.func.attr in ("items", "values", "keys") and not st.iter.args and not st.iter.keywords else (st.iter if isinstance(st.iter, ast.Dict) else None)
        if isinstance(dd, ast.Dict) and 0 < len(dd.keys) <= 8 and all(k is not None for k in dd.keys):
            mode = st.iter.func.attr if isinstance(st.iter, ast.Call) else "keys"
            rows = [ast.Tuple(elts=[k, v], ctx=ast.Load()) if mode == "items" else (v if mode == "values" else k) for k, v in zip(dd.keys, dd.values)]
            for e in rows:
                ast.copy_location(e, st)
                ast.fix_missing_locations(e)
            return self.for_literal(st, rows)
        dn = None
        if isinstance(st.iter, ast.Call) and isinstance(st.iter.func, ast.Attribute) and isinstance(st.iter.func.value, ast.Name) and \
                st.iter.func.attr in ("items", "values", "keys") and not st.iter.args and not st.iter.keywords:
            dn, dmode = st.iter.func.value.id, st.iter.func.attr
        if dn is not None and dn in self.records:
            rows = []
            for k, h in self.records[dn].items():
                kk, hh = ast.Constant(value=k), ast.Name(id=h, ctx=ast.Load())
                rows.append(ast.Tuple(elts=[kk, hh], ctx=ast.Load()) if dmode == "items" else (hh if dmode == "values" else kk))
            for e in rows:
                ast.copy_location(e, st)
                for x in ast.walk(e):
                    ast.copy_location(x, st)
            return self.for_literal(st, rows)
        if dn is not None and self.env.get(dn, ('x',))[0] == 'dict':
            defs = [n for n in ast.walk(self.fi.node) if isinstance(n, ast.Assign) and len(n.targets) == 1 and
                    isinstance(n.targets[0], ast.Name) and n.targets[0].id == dn]
            stores = [n for n in ast.walk(self.fi.node) if isinstance(n, ast.Name) and n.id == dn and isinstance(n.ctx, (ast.Store, ast.Del))]
            touched = [n for n in ast.walk(self.fi.node) if isinstance(n, ast.Subscript) and isinstance(n.value, ast.Name) and n.value.id == dn and
                       isinstance(n.ctx, (ast.Store, ast.Del))] + \
                      [n for n in ast.walk(self.fi.node) if isinstance(n, ast.Call) and isinstance(n.func, ast.Attribute) and
                       isinstance(n.func.value, ast.Name) and n.func.value.id == dn and n.func.attr in ("update", "pop", "setdefault", "clear", "popitem")]
            if len(defs) == 1 and len(stores) == 1 and not touched and isinstance(defs[0].value, ast.Dict) and 0 < len(defs[0].value.keys) <= 8 and \
                    all(k is not None for k in defs[0].value.keys):
                dv = defs[0].value
                # the values are evaluated where the display is written; they are replayed through temporaries bound there
                if dmode == "items":
                    elts = [ast.copy_location(ast.Tuple(elts=[k, v], ctx=ast.Load()), st) for k, v in zip(dv.keys, dv.values)]
                elif dmode == "values":
                    elts = list(dv.values)
                else:
                    elts = list(dv.keys)
                names_in = {x.id for e in elts for x in ast.walk(e) if isinstance(x, ast.Name)}
                rebound = any(isinstance(n, ast.Name) and isinstance(n.ctx, ast.Store) and n.id in names_in and n.lineno > defs[0].lineno
                              for n in ast.walk(self.fi.node))
                if not rebound:
                    for e in elts:
                        ast.fix_missing_locations(e)
                    return self.for_literal(st, elts)
        # iteration over an append-built list (or a zip of such lists)
        src = st.iter
        names_ = []
        if isinstance(src, ast.Name):
            names_ = [src.id]
        elif isinstance(src, ast.Call) and isinstance(src.func, ast.Name) and src.func.id == "zip" and \
                all(isinstance(a, ast.Name) for a in src.args) and src.args:
            names_ = [a.id for a in src.args]
        if names_ and all(self.env.get(nm, ('x',))[0] == 'listacc' for nm in names_):
            return self.for_listacc(st, [self.t.lists[self.env[nm][1]] for nm in names_])
        if isinstance(st.iter, ast.Call):
            outer = {"env": None}
            # variables of the consuming body that carry a value from one iteration to the next (read before they are written):
            # they are loop-carried with respect to the loop *inside the generator* that the yield sits in
            tnames = ir_names(st.target)
            carried_names = [nm for nm, sites in self.assigned_names(st.body).items()
                             if nm not in tnames and nm in self.env and self.read_before_write(nm, st.body) and
                             not all(self.is_or_update(nm, s) for s in sites) and self.env[nm][0] != 'acc']
            loop_gen = self.gen
            folds = {}
            yields_seen = [0]
            gen_loops = set()

            def consume(val, yst):
                gen_env, gen_bc = self.env, self.bind_ctx
                value = self.ex(val)
                self.env, self.bind_ctx = outer["env"], outer["bc"]
                handlers, self.yield_handlers = self.yield_handlers, []
                yields_seen[0] += 1
                gen_loops.update(fr[1] for fr in self.gen[len(loop_gen):] if fr[0] == 'for')
                if carried_names:
                    extra = [fr for fr in self.gen[len(loop_gen):] if fr[0] == 'for']
                    if yields_seen[0] > 1 or len(extra) != 1:
                        self.unsupported(st, "a variable carried from one iteration to the next across a generator with several yield "
                                             "sites (or a yield outside a single loop)")
                    else:
                        for nm in carried_names:
                            fid = self.fresh()
                            fold = Fold(fid, nm, self.env[nm], extra[0][1])
                            self.t.folds[fid] = fold
                            self.env[nm] = ('carry', fid)
                            folds[nm] = fold
                self.assign_target(st.target, value, st)
                self.block(st.body)
                for nm, fold in folds.items():
                    if getattr(fold, "update", None) is None or fold.update == ('undef',):
                        fold.update = self.env.get(nm, ('undef',))
                        self.env[nm] = ('final', fold.id)
                self.yield_handlers = handlers
                outer["env"], outer["bc"] = self.env, self.bind_ctx
                self.env, self.bind_ctx = gen_env, gen_bc
            outer["env"], outer["bc"] = dict(self.env), dict(self.bind_ctx)
            if self.inline_generator(st.iter, st, on_yield=consume, private_only=True):
                self.env, self.bind_ctx = outer["env"], outer["bc"]
                # the loop's own targets, read after the loop, denote the values of the last iteration
                if yields_seen[0] == 1 and len(gen_loops) == 1:
                    for nm in tnames:
                        if nm in self.env:
                            self.env[nm] = ir.subst(self.env[nm], lambda x: ('last', x) if x[0] == 'idx' and x[1] in gen_loops else None)
                return
        it = self.ex(st.iter)
        # iterating a snapshot (`tuple(X)` / `list(X)`) visits what iterating X visits, in the same order
        while it[0] == 'call' and it[1] in (('name', 'tuple'), ('name', 'list')) and len(it[2]) == 1 and not it[3] and \
                it[2][0][0] in ('call', 'attr', 'sub'):
            it = it[2][0]
        # loop fission: a second loop over the same (pure, self-derived) iterable in the same generation context walks
        # the same iteration space, so it shares the first loop's identity
        key = None
        try:
            nit = ir.norm(it)
            # enumerate(X) and range(len(X)) walk the same index space
            if nit[0] == 'call' and nit[1] == ('name', 'enumerate') and len(nit[2]) == 1 and not nit[3]:
                nit = ('idxspace', nit[2][0])
            # zip(A, B, ...) over component sequences walks the index space of A (equal lengths assumed)
            while nit[0] == 'idxspace' and self.zip_parts(nit[1]) is not None:
                nit = ('idxspace', self.zip_parts(nit[1])[0])
            if nit[0] == 'call' and self.zip_parts(nit) is not None:
                z0 = self.zip_parts(nit)[0]
                while self.zip_parts(z0) is not None:
                    z0 = self.zip_parts(z0)[0]
                nit = ('idxspace', z0)
            elif nit[0] == 'call' and nit[1] == ('name', 'range') and not nit[3] and (
                    len(nit[2]) == 1 or len(nit[2]) == 2 and nit[2][0] == ('const', 0)) and \
                    nit[2][-1][0] == 'call' and nit[2][-1][1] == ('name', 'len') and len(nit[2][-1][2]) == 1:
                nit = ('idxspace', nit[2][-1][2][0])
            inner = nit[1] if nit[0] == 'idxspace' else nit
            if any(x == ('name', 'self') for x in ir.walk(inner)) and \
                    not any(x[0] in ('sig', 'obj', 'acc', 'carry', 'final', 'listacc') for x in ir.walk(inner)):
                key = (nit, self.gen)
        except Exception:                                   # pragma: no cover
            key = None
        if it[0] == 'listacc':
            return self.for_listacc(st, [self.t.lists[it[1]]])
        if key is not None and key in self.loop_keys:
            lid = self.loop_keys[key]
        else:
            lid = self.fresh()
            if key is not None:
                self.loop_keys[key] = lid
        names = [n.id for n in ast.walk(st.target) if isinstance(n, ast.Name)]
        rev = False
        core = it
        if core[0] == 'call' and core[1] == ('name', 'reversed') and len(core[2]) == 1:
            rev = True
            core = core[2][0]
        loop = None
        step = core[2][2] if core[0] == 'call' and core[1] == ('name', 'range') and len(core[2]) == 3 else None
        neg_step = step in (('const', -1), ('un', '-', ('const', 1)))
        if core[0] == 'call' and core[1] == ('name', 'range') and not core[3] and \
                (1 <= len(core[2]) <= 2 or step == ('const', 1) or neg_step):
            loop = Loop(lid, 'range', it, None, st.lineno, names)
            a = core[2]
            if neg_step:
                # range(a, b, -1) visits a, a-1, ..., b+1: the index set of range(b+1, a+1), in descending order
                loop.bounds = (('bin', '+', a[1], ('const', 1)), ('bin', '+', a[0], ('const', 1)))
                rev = not rev
            else:
                loop.bounds = (('const', 0), a[0]) if len(a) == 1 else (a[0], a[1])
            loop.reversed = rev
            if isinstance(st.target, ast.Name):
                self.t.loops.setdefault(lid, loop)
                self.bind_loopvar(st.target.id, ('idx', lid))
            else:
                self.unsupported(st, "range loop with a destructuring target")
                return
        elif core[0] == 'call' and core[1] == ('name', 'enumerate') and len(core[2]) == 1 and \
                isinstance(st.target, ast.Tuple) and len(st.target.elts) == 2 and \
                isinstance(st.target.elts[0], ast.Name):
            seq = core[2][0]
            zp = self.zip_parts(seq)
            if zp is not None:
                # enumerate(zip(A, B, ...)): position k of parallel component sequences (assumed equally long: A8)
                loop = Loop(lid, 'enum', ('call', ('name', 'enumerate'), (zp[0],), ()), zp[0], st.lineno, names)
                loop.reversed = rev
                loop.zipped = zp
                self.t.loops.setdefault(lid, loop)
                self.t.zipped_loops.append((lid, zp, st.lineno))
                self.bind_loopvar(st.target.elts[0].id, ('idx', lid))
                self.bind_pattern(st.target.elts[1], self.elem_of(seq, lid), lid)
            else:
                loop = Loop(lid, 'enum', it, seq, st.lineno, names)
                loop.reversed = rev
                self.t.loops.setdefault(lid, loop)
                self.bind_loopvar(st.target.elts[0].id, ('idx', lid))
                elem = self.elem_of(seq, lid)
                self.bind_pattern(st.target.elts[1], elem, lid)
        elif self.zip_parts(core) is not None:
            # zip(A, B, ...) over component sequences: the same position of each (assumed equally long: A8)
            zp = self.zip_parts(core)
            loop = Loop(lid, 'seq', zp[0], zp[0], st.lineno, names)
            loop.reversed = rev
            loop.zipped = zp
            self.t.loops.setdefault(lid, loop)
            self.t.zipped_loops.append((lid, zp, st.lineno))
            self.bind_pattern(st.target, self.elem_of(core, lid), lid)
        else:
            kind = 'gen' if (core[0] == 'call') else 'seq'
            loop = Loop(lid, kind, it, core if kind == 'seq' else None, st.lineno, names)
            loop.reversed = rev
            self.t.loops.setdefault(lid, loop)
            if kind == 'seq':
                self.bind_pattern(st.target, self.elem_of(core, lid), lid)
            else:
                self.bind_pattern(st.target, ('item', lid, ()), lid)
        # loop-carried variables
        assigned = self.assigned_names(st.body)
        carried = []
        for name, sites in assigned.items():
            if name in names or name not in self.env:
                continue
            if not self.read_before_write(name, st.body):
                continue                            # redefined in every iteration before any use
            cur = self.env[name]
            if all(self.is_or_update(name, s) for s in sites):
                continue                            # accumulator; handled on the fly
            if cur[0] == 'acc':
                continue
            fid = self.fresh()
            fold = Fold(fid, name, cur, lid)
            self.t.folds[fid] = fold
            self.env[name] = ('carry', fid)
            carried.append((name, fold))
        saved_gen = self.gen
        self.gen = self.gen + (('for', lid),)
        self.block(st.body)
        self.gen = saved_gen
        for name, fold in carried:
            fold.update = self.env.get(name, ('undef',))    # in terms of ('carry', fold.id); identity if unchanged
            self.env[name] = ('final', fold.id)
            self.bind_ctx[name] = self.gen
        # loop variables used after the loop denote the last element
        for n in names:
            if n in self.env:
                self.env[n] = ('last', self.env[n])

    @staticmethod
    def read_before_write(name, body):
        for st in body:
            loads = any(isinstance(n, ast.Name) and n.id == name and isinstance(n.ctx, ast.Load)
                        for n in ast.walk(st))
            stores = any(isinstance(n, ast.Name) and n.id == name and isinstance(n.ctx, (ast.Store, ast.Del))
                         for n in ast.walk(st))
            if isinstance(st, ast.Assign) and stores and not loads and \
                    all(isinstance(t, (ast.Name, ast.Tuple, ast.List)) for t in st.targets):
                return False
            if loads or stores:
                return True
        return False

    def is_or_update(self, name, site):
        if isinstance(site, ast.AugAssign):
            return isinstance(site.op, ast.BitOr)
        if isinstance(site, ast.Assign) and len(site.targets) == 1 and isinstance(site.targets[0], ast.Name):
            v = site.value
            if isinstance(v, ast.BinOp) and isinstance(v.op, ast.BitOr):
                return (isinstance(v.left, ast.Name) and v.left.id == name) or \
                       (isinstance(v.right, ast.Name) and v.right.id == name)
        return False

    def elem_of(self, seq, lid):
        zp = self.zip_parts(seq)
        if zp is not None:
            return ('tuple', tuple(self.elem_of(s_, lid) for s_ in zp))      # position k of zip(A, B) is (A[k], B[k])
        return ('sub', seq, ('idx', lid))

    def bind_loopvar(self, name, v):
        self.env[name] = v
        self.bind_ctx[name] = self.gen

    def bind_pattern(self, target, value, lid):
        if isinstance(target, ast.Name):
            self.bind_loopvar(target.id, value)
        elif isinstance(target, (ast.Tuple, ast.List)):
            for i, te in enumerate(target.elts):
                if value[0] == 'item':
                    self.bind_pattern(te, ('item', value[1], value[2] + (i,)), lid)
                else:
                    self.bind_pattern(te, ('sub', value, ('const', i)), lid)
        else:
            self.t.unsupported.append((getattr(target, "lineno", 0), "loop target not modelled"))

    def const_cond(self, cond):
        """True / False when a generation-time condition is decided by constants alone (an unrolled table entry), else None."""
        try:
            n = ir.norm(cond)
        except Exception:
            return None
        if n[0] == 'const' and isinstance(n[1], (bool, int)) and not isinstance(n[1], str):
            return bool(n[1])
        if n == ('const', None):
            return False
        return None

    def if_(self, st):
        cond = self.ex(st.test)
        known = self.const_cond(cond)
        if known is not None:
            # dead-branch pruning: only the live branch emits anything
            self.block(st.body if known else st.orelse)
            return
        self.t.conds.append((cond, self.gen, st.lineno))
        env0, bc0 = dict(self.env), dict(self.bind_ctx)
        saved_gen = self.gen
        self.gen = saved_gen + (('pyif', cond, True),)
        self.refine_none(st.test, True)
        self.block(st.body)
        env_t, bc_t = self.env, self.bind_ctx
        self.env, self.bind_ctx = dict(env0), dict(bc0)
        self.gen = saved_gen + (('pyif', cond, False),)
        self.refine_none(st.test, False)
        self.block(st.orelse)
        env_f = self.env
        self.gen = saved_gen

        def terminates(blk):
            if not blk:
                return False
            last = blk[-1]
            if isinstance(last, (ast.Raise, ast.Return)):
                return True
            return isinstance(last, ast.If) and terminates(last.body) and terminates(last.orelse)
        # an arm that leaves the function (raise / return) contributes no bindings to what follows
        t_out, f_out = terminates(st.body), terminates(st.orelse)
        if t_out and not f_out:
            self.env, self.bind_ctx = env_f, self.bind_ctx
            return
        if f_out and not t_out:
            self.env, self.bind_ctx = env_t, bc_t
            return
        merged = {}
        params = set(self.fi.params)
        for name in set(env_t) | set(env_f):
            free = ('name', name) if name in params else ('undef',)
            a = env_t.get(name, free)
            b = env_f.get(name, free)
            if a == b:
                merged[name] = a
                continue
            # accumulator created in one branch only
            if a[0] == 'acc' and self.t.accs[a[1]].init == b:
                merged[name] = a
            elif b[0] == 'acc' and self.t.accs[b[1]].init == a:
                merged[name] = b
            else:
                merged[name] = ('phi', cond, a, b)
        self.env = merged
        bc = dict(bc0)
        for name in merged:
            if name not in bc:
                bc[name] = saved_gen
        self.bind_ctx = bc


def extract(func_info, index, inline_depth=3, no_inline=()):
    w = Walker(func_info, index, inline_depth, no_inline)
    return w.run()
