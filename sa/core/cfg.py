"""E-CFG: statement-level control-flow graph for the statement kinds the repository uses.

Nodes are simple statements and branch tests; edges carry a label (next/true/false/iter/done/exc).  Exceptional
edges start at nodes the caller-supplied oracle says may raise.  `finally` bodies are duplicated per exit kind."""
import ast


class Node:
    __slots__ = ("id", "kind", "ast", "lineno", "label")

    def __init__(self, nid, kind, node=None, label=""):
        self.id = nid
        self.kind = kind        # entry | exit | raise | stmt | test | iter | with | except
        self.ast = node
        self.lineno = getattr(node, "lineno", 0)
        self.label = label

    def __repr__(self):
        txt = ""
        if self.ast is not None:
            try:
                txt = ast.unparse(self.ast).split("\n")[0][:60]
            except Exception:
                txt = type(self.ast).__name__
        return f"<{self.id}:{self.kind}@{self.lineno} {txt}>"


class CFG:
    def __init__(self, func):
        self.func = func
        self.nodes = []
        self.succ = {}
        self.pred = {}
        self.entry = self.new("entry")
        self.exit = self.new("exit")        # normal return
        self.raise_exit = self.new("raise")  # exception leaves the function

    def new(self, kind, node=None, label=""):
        n = Node(len(self.nodes), kind, node, label)
        self.nodes.append(n)
        self.succ[n.id] = []
        self.pred[n.id] = []
        return n

    def edge(self, a, b, label="next"):
        if (b.id, label) not in self.succ[a.id]:
            self.succ[a.id].append((b.id, label))
            self.pred[b.id].append((a.id, label))

    # ---- queries -------------------------------------------------------------------------
    def reachable(self, start_ids, skip_labels=()):
        seen = set()
        work = list(start_ids)
        while work:
            n = work.pop()
            if n in seen:
                continue
            seen.add(n)
            for m, lab in self.succ[n]:
                if lab not in skip_labels:
                    work.append(m)
        return seen

    def dominators(self):
        ids = [n.id for n in self.nodes]
        reach = self.reachable([self.entry.id])
        dom = {i: set(reach) for i in reach}
        dom[self.entry.id] = {self.entry.id}
        changed = True
        while changed:
            changed = False
            for i in ids:
                if i == self.entry.id or i not in reach:
                    continue
                ps = [p for p, _ in self.pred[i] if p in reach]
                new = set.intersection(*[dom[p] for p in ps]) if ps else set()
                new = new | {i}
                if new != dom[i]:
                    dom[i] = new
                    changed = True
        return dom

    def postdominators(self, exits):
        """Post-dominators w.r.t. the given exit node ids (paths ending elsewhere are ignored)."""
        # nodes that can reach one of the exits
        can = set()
        work = list(exits)
        while work:
            n = work.pop()
            if n in can:
                continue
            can.add(n)
            for p, _ in self.pred[n]:
                work.append(p)
        pdom = {i: set(can) for i in can}
        for e in exits:
            pdom[e] = {e}
        changed = True
        while changed:
            changed = False
            for i in can:
                if i in exits:
                    continue
                ss = [s for s, _ in self.succ[i] if s in can]
                new = set.intersection(*[pdom[s] for s in ss]) if ss else set()
                new = new | {i}
                if new != pdom[i]:
                    pdom[i] = new
                    changed = True
        return pdom

    def paths(self, limit=20000):
        """All paths entry -> (exit | raise_exit) taking each back edge at most once."""
        out = []
        stack = [(self.entry.id, (self.entry.id,), frozenset())]
        while stack:
            n, path, used = stack.pop()
            if n in (self.exit.id, self.raise_exit.id):
                out.append(path)
                if len(out) >= limit:
                    return out, False
                continue
            for m, lab in self.succ[n]:
                e = (n, m)
                if e in used and m in path:
                    continue
                stack.append((m, path + (m,), used | {e} if m in path else used))
        return out, True


class Builder:
    """may_raise(ast_node, kind) -> bool decides whether a node gets an exceptional edge."""

    def __init__(self, func_node, may_raise, noreturn=None):
        self.g = CFG(func_node)
        self.may_raise = may_raise
        self.noreturn = noreturn
        self.handlers = [[("raise", self.g.raise_exit, None)]]   # stack of lists of (kind, node, types)
        self.loops = []             # (continue_target, break_collector)
        self.finals = []            # enclosing finally bodies (innermost last)

    def build(self):
        outs = self.block(self.g.func.body, [(self.g.entry, "next")])
        for n, lab in outs:
            self.g.edge(n, self.g.exit, lab)
        return self.g

    # outs: list of (node, label) dangling edges
    def connect(self, outs, node):
        for n, lab in outs:
            self.g.edge(n, node, lab)

    def exc_targets(self):
        return self.handlers[-1]

    def add_exc(self, node):
        for kind, target, types in self.exc_targets():
            self.g.edge(node, target, "exc")

    def simple(self, st, outs, kind="stmt"):
        n = self.g.new(kind, st)
        self.connect(outs, n)
        if self.may_raise(st, kind):
            self.add_exc(n)
        elif getattr(self, "in_try", 0) > 0:
            # inside a try body with handlers any statement may be the one that raises (a subscript, an attribute ...): the
            # handlers are reachable from each of them
            for kind_, target, types in self.exc_targets():
                if kind_ == "handler":
                    self.g.edge(n, target, "exc")
        return n

    def block(self, stmts, outs):
        for st in stmts:
            if not outs:
                break                       # unreachable code
            outs = self.stmt(st, outs)
        return outs

    def run_finals(self, outs, upto=0):
        """Execute enclosing finally bodies (innermost first) on a jumping path."""
        for fin in reversed(self.finals[upto:]):
            saved = self.finals
            self.finals = self.finals[:self.finals.index(fin)]
            outs = self.block(fin, outs)
            self.finals = saved
        return outs

    def stmt(self, st, outs):
        g = self.g
        if isinstance(st, ast.If):
            t = self.simple(st.test, outs, "test")
            t.ast = st.test
            a = self.block(st.body, [(t, "true")])
            b = self.block(st.orelse, [(t, "false")])
            return a + b
        if isinstance(st, (ast.For, ast.While)):
            head = self.simple(st.iter if isinstance(st, ast.For) else st.test, outs,
                               "iter" if isinstance(st, ast.For) else "test")
            brk = []
            self.loops.append((head, brk, len(self.finals)))
            body_out = self.block(st.body, [(head, "iter" if isinstance(st, ast.For) else "true")])
            self.loops.pop()
            for n, lab in body_out:
                g.edge(n, head, "back")
            done = [(head, "done" if isinstance(st, ast.For) else "false")]
            if st.orelse:
                done = self.block(st.orelse, done)
            return done + brk
        if isinstance(st, ast.Break):
            head, brk, depth = self.loops[-1]
            n = self.simple(st, outs)
            o = self.run_finals([(n, "next")], depth)
            brk.extend(o)
            return []
        if isinstance(st, ast.Continue):
            head, brk, depth = self.loops[-1]
            n = self.simple(st, outs)
            o = self.run_finals([(n, "next")], depth)
            for m, lab in o:
                g.edge(m, head, "back")
            return []
        if isinstance(st, ast.Return):
            n = self.simple(st, outs)
            o = self.run_finals([(n, "next")], 0)
            for m, lab in o:
                g.edge(m, g.exit, "return")
            return []
        if isinstance(st, ast.Raise) or (self.noreturn is not None and isinstance(st, ast.Expr) and
                                         isinstance(st.value, ast.Call) and self.noreturn(st.value)):
            # a raise, or a call of a helper that always raises
            n = g.new("stmt", st)
            self.connect(outs, n)
            self.add_exc(n)
            return []
        if isinstance(st, ast.With):
            n = self.simple(st, outs, "with")
            return self.block(st.body, [(n, "next")])
        if isinstance(st, ast.Try):
            return self.try_(st, outs)
        if isinstance(st, (ast.FunctionDef, ast.ClassDef, ast.AsyncFunctionDef)):
            n = g.new("stmt", st, "def")
            self.connect(outs, n)
            return [(n, "next")]
        # simple statement (Assign, AugAssign, AnnAssign, Expr, Assert, Delete, Pass, Import, Global...)
        n = self.simple(st, outs)
        return [(n, "next")]

    def try_(self, st, outs):
        g = self.g
        has_final = bool(st.finalbody)
        outer = self.exc_targets()
        # where do exceptions raised in the body go?
        targets = []
        hnodes = []
        for h in st.handlers:
            hn = g.new("except", h)
            hnodes.append((h, hn))
            types = None if h.type is None else [ast.unparse(t) for t in (h.type.elts if isinstance(h.type, ast.Tuple) else [h.type])]
            targets.append(("handler", hn, types))
        catch_all = any(t is None or "Exception" in t or "BaseException" in t for _, _, t in targets)
        exc_final_entry = None
        if has_final:
            exc_final_entry = g.new("stmt", ast.Pass(), "finally(exc)")
        if not catch_all:
            if has_final:
                targets.append(("finally", exc_final_entry, None))
            else:
                targets.extend(outer)
        self.handlers.append(targets)
        if has_final:
            self.finals.append(st.finalbody)
        self.in_try = getattr(self, "in_try", 0) + (1 if st.handlers else 0)
        body_out = self.block(st.body, outs)
        self.in_try -= (1 if st.handlers else 0)
        self.handlers.pop()
        # else clause runs with the outer handlers (+finally)
        after_handlers = []
        if has_final:
            self.handlers.append([("finally", exc_final_entry, None)])
        if st.orelse:
            body_out = self.block(st.orelse, body_out)
        for h, hn in hnodes:
            after_handlers += self.block(h.body, [(hn, "next")])
        if has_final:
            self.handlers.pop()
            self.finals.pop()
            normal = self.block(st.finalbody, body_out + after_handlers)
            # exceptional copy of the finally body, then re-raise outward
            exc_out = self.block(st.finalbody, [(exc_final_entry, "next")])
            for n, lab in exc_out:
                for kind, target, types in outer:
                    g.edge(n, target, "exc")
            return normal
        return body_out + after_handlers


def build(func_node, may_raise, noreturn=None):
    return Builder(func_node, may_raise, noreturn).build()
