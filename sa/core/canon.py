"""Canonical names for private attributes, discovered by role.

Rules refer to the book-keeping state of the library by the names it has today (`self._ranges`, `self._subs`, ...).
Renaming a private attribute is a behaviour-preserving edit, so before any rule runs the index discovers each such
attribute *by the role it plays* (the field constructed as `_RangeMap()`, the dict stored under `id(resource)` in
add_resource, the list `add()` appends the initiator to, ...) and, when it carries another name, alpha-renames it in the
parsed trees.  Reports then show the canonical name; `Index.renamed` records the mapping."""
import ast


def _self_attr(node):
    if isinstance(node, ast.Attribute) and isinstance(node.value, ast.Name) and node.value.id == "self":
        return node.attr
    return None


def _ctor_field(cls, class_names):
    init = cls.method("__init__")
    if init is None:
        return None
    for n in ast.walk(init.node):
        if isinstance(n, ast.Assign) and len(n.targets) == 1 and _self_attr(n.targets[0]) and isinstance(n.value, ast.Call):
            f = n.value.func
            nm = f.id if isinstance(f, ast.Name) else (f.attr if isinstance(f, ast.Attribute) else None)
            if nm in class_names:
                return _self_attr(n.targets[0])
    return None


def _assigned_const(cls, method, value):
    m = cls.method(method)
    if m is None:
        return None
    for n in ast.walk(m.node):
        if isinstance(n, ast.Assign) and len(n.targets) == 1 and _self_attr(n.targets[0]) and \
                isinstance(n.value, ast.Constant) and n.value.value is value:
            return _self_attr(n.targets[0])
    return None


def _first_assigned(cls, method):
    m = cls.method(method)
    if m is None:
        return None
    for n in ast.walk(m.node):
        if isinstance(n, ast.Assign) and len(n.targets) == 1 and _self_attr(n.targets[0]):
            return _self_attr(n.targets[0])
    return None


def _subscript_store(cls, method, key_pred=None, value_pred=None):
    m = cls.method(method)
    if m is None:
        return None
    for n in ast.walk(m.node):
        if isinstance(n, ast.Assign) and len(n.targets) == 1 and isinstance(n.targets[0], ast.Subscript):
            t = n.targets[0]
            a = _self_attr(t.value)
            if a and (key_pred is None or key_pred(t.slice)) and (value_pred is None or value_pred(n.value)):
                return a
    return None


def _method_call_receiver(cls, method, attr, arg_pred=None):
    m = cls.method(method)
    if m is None:
        return None
    for n in ast.walk(m.node):
        if isinstance(n, ast.Call) and isinstance(n.func, ast.Attribute) and n.func.attr == attr:
            a = _self_attr(n.func.value)
            if a and (arg_pred is None or arg_pred(n)):
                return a
    return None


def _is_id_of(name):
    return lambda k: isinstance(k, ast.Call) and isinstance(k.func, ast.Name) and k.func.id == "id" and \
        len(k.args) == 1 and isinstance(k.args[0], ast.Name) and k.args[0].id == name


def _arg_is(pos, text):
    return lambda c: len(c.args) > pos and ast.unparse(c.args[pos]) == text


def _assigned_from_param(cls, method, param):
    """self.<x> = <param> in cls.<method> (exactly one such attribute) -> x"""
    f = cls.method(method)
    if f is None:
        return None
    found = {_self_attr(t) for n in ast.walk(f.node) if isinstance(n, ast.Assign) and isinstance(n.value, ast.Name) and n.value.id == param
             for t in n.targets if _self_attr(t)}
    return found.pop() if len(found) == 1 else None


def discover(index):
    """-> {(class site, found name): canonical name}"""
    out = {}

    def put(cls, found, canonical):
        if found is not None and found != canonical:
            out[(cls.site, found)] = canonical

    for cls in index.all_classes():
        q = cls.qual
        if q == "MemoryMap":
            put(cls, _ctor_field(cls, {"_RangeMap"}), "_ranges")
            put(cls, _ctor_field(cls, {"_Namespace"}), "_namespace")
            put(cls, _assigned_const(cls, "freeze", True), "_frozen")
            put(cls, _first_assigned(cls, "align_to"), "_next_addr")
            put(cls, _subscript_store(cls, "add_resource", _is_id_of("resource")), "_resources")
            put(cls, _subscript_store(cls, "add_window", _is_id_of("window")), "_windows")
        elif q == "_RangeMap":
            put(cls, _method_call_receiver(cls, "insert", "insert", _arg_is(1, "key.start")), "_starts")
            put(cls, _method_call_receiver(cls, "insert", "insert", _arg_is(1, "key.stop")), "_stops")
            put(cls, _method_call_receiver(cls, "insert", "insert", _arg_is(1, "key")), "_keys")
            put(cls, _subscript_store(cls, "insert", lambda k: isinstance(k, ast.Name) and k.id == "key"), "_values")
        elif q == "_Namespace":
            put(cls, _subscript_store(cls, "assign"), "_assignments")
        elif q == "EventMap":
            put(cls, _subscript_store(cls, "add"), "_sources")
            put(cls, _assigned_const(cls, "freeze", True), "_frozen")
        elif q == "Builder":
            put(cls, _subscript_store(cls, "add"), "_registers")
            put(cls, _method_call_receiver(cls, "Cluster", "append"), "_scope_stack")
            put(cls, _assigned_const(cls, "freeze", True), "_frozen")
        elif q == "Decoder":
            put(cls, _subscript_store(cls, "add", None, lambda v: isinstance(v, ast.Name) and v.id == "sub_bus"), "_subs")
        elif q == "Arbiter":
            put(cls, _method_call_receiver(cls, "add", "append", _arg_is(0, "intr_bus")), "_intrs")
        elif q == "WishboneCSRBridge":
            put(cls, _assigned_from_param(cls, "__init__", "csr_bus"), "_csr_bus")
    return out


def apply(index, mapping):
    """Alpha-rename discovered private attributes to their canonical names (only when the found name is private to
    that one class, so the rename cannot capture anything else)."""
    if not mapping:
        return {}
    # which classes assign self.<name> anywhere?
    owners = {}
    for cls in index.all_classes():
        for fs in cls.methods.values():
            for f in fs:
                for n in ast.walk(f.node):
                    if isinstance(n, (ast.Assign, ast.AugAssign, ast.AnnAssign)):
                        for t in (n.targets if isinstance(n, ast.Assign) else [n.target]):
                            a = _self_attr(t)
                            if a:
                                owners.setdefault(a, set()).add(cls.site)
    done = {}
    for (site, found), canonical in mapping.items():
        others = owners.get(found, set()) - {site}
        if others and not all(mapping.get((o, found)) == canonical for o in others):
            continue                                    # the name is also a field of another class (with another role): leave it alone
        if canonical in owners and site in owners[canonical]:
            continue                                    # canonical name already in use in that class
        # a read-only alias property under the old (canonical) name -- `def _subs(self): return self._sub_buses` -- would become
        # `return self._subs` after the rename: it is the attribute itself, so the property is dropped from the analysis
        for cls in index.all_classes():
            if cls.site == site and cls.method(canonical) is not None:
                f = cls.method(canonical)
                body = [s for s in f.node.body if not (isinstance(s, ast.Expr) and isinstance(s.value, ast.Constant))]
                if f.is_property and len(body) == 1 and isinstance(body[0], ast.Return) and _self_attr(body[0].value) == found:
                    cls.methods.pop(canonical, None)
                    if f.node in cls.node.body:
                        cls.node.body.remove(f.node)
        for m in index.modules.values():
            for n in ast.walk(m.tree):
                if isinstance(n, ast.Attribute) and n.attr == found:
                    n.attr = canonical
        done[f"{site}.{found}"] = canonical
    return done


# static helper methods that the rules refer to as methods of a class; a maintainer may turn them into module-level functions
HELPER_METHODS = {"MemoryMap": ("_align_up", "_translate")}


def attach_aliased_methods(index):
    """`name = staticmethod(fn)` / `name = fn` in a class body, with fn a function of the package (possibly imported from
    another module): the class has a (static) method `name` whose body is fn's.  Returns {class.method: function site}."""
    from .index import FuncInfo
    done = {}
    for cls in index.all_classes():
        for name, val in list(cls.class_attrs.items()):
            fn = None
            if isinstance(val, ast.Call) and isinstance(val.func, ast.Name) and val.func.id in ("staticmethod",) and len(val.args) == 1 and \
                    isinstance(val.args[0], ast.Name):
                fn = val.args[0].id
            if fn is None or cls.method(name) is not None:
                continue
            target = index.resolve_function(cls.module, fn)
            if target is None:
                continue
            clone = FuncInfo(target.node, cls, target.module)
            clone.name = name
            clone.qual = cls.qual + "." + name
            clone.site = f"{cls.module.rel}::{clone.qual}"
            if "staticmethod" not in clone.decorators:
                clone.decorators = list(clone.decorators) + ["staticmethod"]
            clone.aliased_from = target.site
            cls.methods.setdefault(name, []).append(clone)
            done[clone.qual] = target.site
    return done


def relocate_helpers(index):
    """A static helper method that became a module-level function of the same module (same name, or the name plus a suffix) is
    re-attached to its class for the analysis: calls `helper(...)` are rewritten to `self.<canonical>(...)` and the function is
    registered as a static method.  Returns {class.method: function site}."""
    done = {}
    for cls in index.all_classes():
        for name in HELPER_METHODS.get(cls.qual, ()):
            if cls.method(name) is not None:
                continue
            fns = [(n_, g) for n_, g in cls.module.functions.items() if n_ == name or n_.startswith(name + "_")]
            if len(fns) != 1:
                continue
            fname, fi = fns[0]
            for n in ast.walk(cls.module.tree):
                if isinstance(n, ast.Call) and isinstance(n.func, ast.Name) and n.func.id == fname:
                    n.func = ast.copy_location(ast.Attribute(value=ast.Name(id="self", ctx=ast.Load()), attr=name, ctx=ast.Load()), n.func)
                    ast.fix_missing_locations(n)
            fi.node.name = name
            fi.name = name
            fi.cls = cls
            if "staticmethod" not in fi.decorators:
                fi.decorators.append("staticmethod")
            fi.qual = cls.qual + "." + name
            cls.methods.setdefault(name, []).append(fi)
            done[f"{cls.qual}.{name}"] = fi.site
    return done


# ---- procedure inlining -----------------------------------------------------------------------------------------------
# A maintainer may move a few statements of an API function into a private helper that did not exist at the pinned commit
# (a validator that raises or hands its argument back, a "record this entry" procedure).  The rules are stated on the
# function a user calls, so such helpers are opened at their call sites before anything is analysed: the statements of the
# helper, with its parameters replaced by the arguments, take the place of the call.  Only helpers that are *new* (not a
# function of the pinned tree, core/anchors.json -- those are what the rules anchor on) are opened, only when the
# substitution is plainly semantics-preserving (see _inlinable / _simple_arg), and the helper itself stays in the index.
_ANCHORS = None


def _anchors():
    global _ANCHORS
    if _ANCHORS is None:
        import json
        import os
        with open(os.path.join(os.path.dirname(__file__), "anchors.json")) as f:
            _ANCHORS = set(json.load(f))
    return _ANCHORS


def _own_nodes(fn):
    """Nodes of a function body, not descending into nested function definitions, lambdas or classes."""
    stack = list(fn.body)
    while stack:
        n = stack.pop()
        yield n
        for ch in ast.iter_child_nodes(n):
            if not isinstance(ch, (ast.FunctionDef, ast.AsyncFunctionDef, ast.Lambda, ast.ClassDef)):
                stack.append(ch)


def _inlinable(fi):
    """-> ('void' | 'identity', body statements, returned parameter) or None."""
    node = fi.node
    a = node.args
    if a.vararg or a.kwarg or a.posonlyargs or isinstance(node, ast.AsyncFunctionDef):
        return None
    decos = set(fi.decorators)
    if decos - {"staticmethod", "classmethod"}:
        return None
    body = [s for s in node.body if not (isinstance(s, ast.Expr) and isinstance(s.value, ast.Constant))]
    if not body or len(body) > _OPTS["max_body"]:
        return None
    for n in ast.walk(node):
        if isinstance(n, (ast.Yield, ast.YieldFrom, ast.Await, ast.Global, ast.Nonlocal, ast.Lambda, ast.ClassDef, ast.Try, ast.With,
                          ast.While, ast.NamedExpr)) or (isinstance(n, (ast.FunctionDef, ast.AsyncFunctionDef)) and n is not node):
            return None
        if isinstance(n, ast.Call) and isinstance(n.func, ast.Name) and n.func.id in ("locals", "vars", "super"):
            return None
    rets = [n for n in _own_nodes(node) if isinstance(n, ast.Return)]
    params = [x.arg for x in a.args + a.kwonlyargs]
    if len(rets) > 1 and all(r.value is not None for r in rets):
        from .dsl import single_exit
        import copy
        one = single_exit(copy.deepcopy(body))          # `if c: return a` ... `return b`  ->  one exit through a local
        if one is None:
            return None
        return ('value', one[:-1], one[-1].value)
    if not rets:
        return ('void', body, None)
    if len(rets) == 1 and rets[0] is not body[-1] and isinstance(body[-1], ast.Raise) and isinstance(rets[0].value, ast.Name) and \
            rets[0].value.id in params:
        # a checking pass-through: `if ok: return p` ... `raise E`  ==  `if not ok: ... raise E` and then p itself
        for j, s in enumerate(body):
            if isinstance(s, ast.If) and not s.orelse and len(s.body) == 1 and s.body[0] is rets[0]:
                guard = ast.If(test=ast.UnaryOp(op=ast.Not(), operand=s.test), body=body[j + 1:], orelse=[])
                ast.copy_location(guard, s)
                ast.fix_missing_locations(guard)
                return ('identity', body[:j] + [guard], rets[0].value.id)
        return None
    if len(rets) == 1 and rets[0] is body[-1] and isinstance(rets[0].value, ast.Name) and rets[0].value.id in params and len(body) > 1:
        return ('identity', body[:-1], rets[0].value.id)
    if len(rets) == 1 and rets[0] is body[-1] and rets[0].value is not None and (len(body) > 1 or _OPTS["allow_anchors"]):
        # statements, then one result expression: it is evaluated into a temporary right before the calling statement, i.e.
        # at the point where the call was evaluated (the call site is required to be evaluated first in its statement)
        return ('value', body[:-1], rets[0].value)
    return None


def _simple_arg(e):
    """An argument that may be substituted for every use of the parameter: reading it has no effect and yields the same
    value each time within the helper (names, attribute chains, constants, id()/len() of those, tuples of those)."""
    if isinstance(e, (ast.Name, ast.Constant)):
        return True
    if isinstance(e, ast.Attribute):
        return _simple_arg(e.value)
    if isinstance(e, ast.Tuple):
        return all(_simple_arg(x) for x in e.elts)
    if isinstance(e, ast.Call) and isinstance(e.func, ast.Name) and e.func.id in ("id", "len") and len(e.args) == 1 and not e.keywords:
        return _simple_arg(e.args[0])
    return False


class _Subst(ast.NodeTransformer):
    def __init__(self, bind, rename):
        self.bind, self.rename = bind, rename

    def visit_Name(self, n):
        if n.id in self.bind and isinstance(n.ctx, ast.Load):
            import copy
            return ast.copy_location(copy.deepcopy(self.bind[n.id]), n)
        if n.id in self.rename:
            return ast.copy_location(ast.Name(id=self.rename[n.id], ctx=n.ctx), n)
        return n


def _expand(call, target, kind, body, retparam, counter, static_cls=None):
    """-> (statements, value expression or None) for one call of an inlinable helper, or None."""
    import copy
    node = target.node
    a = node.args
    pos = [x.arg for x in a.args]
    is_method = target.cls is not None and "staticmethod" not in target.decorators
    recv = None
    if is_method:
        if not pos:
            return None
        recv = pos[0]
        pos = pos[1:]
    kwonly = [x.arg for x in a.kwonlyargs]
    if len(call.args) > len(pos) or any(isinstance(x, ast.Starred) for x in call.args) or any(k.arg is None for k in call.keywords):
        return None
    bind = dict(zip(pos, call.args))
    for k in call.keywords:
        if k.arg in bind or k.arg not in pos + kwonly:
            return None
        bind[k.arg] = k.value
    for p, dflt in zip(pos[len(pos) - len(a.defaults):], a.defaults):
        bind.setdefault(p, dflt)
    for p, dflt in zip(kwonly, a.kw_defaults):
        if dflt is not None:
            bind.setdefault(p, dflt)
    if set(bind) != set(pos + kwonly):
        return None
    stored = {n.id for n in ast.walk(node) if isinstance(n, ast.Name) and isinstance(n.ctx, (ast.Store, ast.Del))}
    stored |= {n.arg for n in ast.walk(node) if isinstance(n, ast.arg)} - set(pos + kwonly) - ({recv} if recv else set())
    counter[0] += 1
    tag = f"__h{counter[0]}_"
    pre = []
    for p in list(bind):
        if p in stored or not _simple_arg(bind[p]):
            if p == retparam and p not in stored and False:
                pass
            tmp = tag + p
            asg = ast.Assign(targets=[ast.Name(id=tmp, ctx=ast.Store())], value=copy.deepcopy(bind[p]))
            ast.copy_location(asg, call)
            pre.append(asg)
            bind[p] = ast.Name(id=tmp, ctx=ast.Load())
    rename = {n: tag + n for n in stored if n not in bind}
    rename.update({p: bind[p].id for p in bind if p in stored})
    if recv is not None:
        if "classmethod" in target.decorators:
            bind[recv] = ast.Name(id=target.cls.name, ctx=ast.Load()) if static_cls is None else static_cls
        else:
            bind[recv] = ast.Name(id="self", ctx=ast.Load())
    sub = _Subst(bind, rename)
    out = pre + [sub.visit(copy.deepcopy(s)) for s in body]
    for s in out:
        ast.fix_missing_locations(s)
        for n in ast.walk(s):
            n._inlined_from = target.site               # a copy: rules that enumerate sites count the original only
    value = None
    if kind == 'identity':
        value = copy.deepcopy(bind[retparam])
    elif kind == 'value':
        tmp = tag + "ret"
        asg = ast.Assign(targets=[ast.Name(id=tmp, ctx=ast.Store())], value=sub.visit(copy.deepcopy(retparam)))
        ast.copy_location(asg, call)
        ast.fix_missing_locations(asg)
        out.append(asg)
        value = ast.Name(id=tmp, ctx=ast.Load())
    return out, value


_OPTS = {"allow_anchors": False, "exclude": (), "max_body": 12}


def _resolve_helper(index, fi, call):
    """The FuncInfo a call refers to, when it is a private helper of the caller's own class or module."""
    f = call.func
    target = None
    if isinstance(f, ast.Name):
        target = index.resolve_function(fi.module, f.id)
    elif isinstance(f, ast.Attribute) and isinstance(f.value, ast.Name) and fi.cls is not None:
        if f.value.id in ("self", "cls") and fi.node.args.args and fi.node.args.args[0].arg == f.value.id:
            target = fi.cls.method(f.attr)
        elif f.value.id == fi.cls.name or (fi.cls.outer is not None and f.value.id == fi.cls.outer.name):
            k = fi.cls if f.value.id == fi.cls.name else fi.cls.outer
            target = k.method(f.attr)
            if target is not None and not ({"staticmethod", "classmethod"} & set(target.decorators)):
                target = None
    if target is None or target.node is fi.node:
        return None
    name = target.node.name
    import os as _os
    private_module = _os.path.basename(target.module.rel).startswith("_") and not _os.path.basename(target.module.rel).startswith("__")
    if (not name.startswith("_") and not private_module) or name.startswith("__"):
        return None
    if name in _OPTS["exclude"]:
        return None
    if target.cls is not None and isinstance(f, ast.Attribute) and f.value.id in ("self", "cls"):
        # dynamic dispatch: a method that a subclass overrides is not the one that runs for that subclass's instances
        for k in index.all_classes():
            if k is not target.cls and target.cls in index.bases_of(k) and k.method(name) is not None:
                return None
    if (f"{target.module.rel}::{target.qual}" in _anchors() or target.site in _anchors()) and not _OPTS["allow_anchors"]:
        return None
    if target.cls is not None and isinstance(f, ast.Attribute) and f.value.id == "self" and "classmethod" in target.decorators and \
            any(isinstance(n, ast.Name) and n.id == target.node.args.args[0].arg for s in target.node.body for n in ast.walk(s)):
        return None                                     # cls would be type(self): not expressible without evaluating it
    return target


def _unconditional_calls(expr):
    """Call nodes of an expression that are evaluated exactly once whenever the expression is (not under and/or, a
    conditional expression, a comprehension or a lambda), innermost first."""
    out = []

    def rec(e):
        if isinstance(e, (ast.BoolOp, ast.IfExp)):
            first = e.values[0] if isinstance(e, ast.BoolOp) else e.test
            rec(first)
            return
        if isinstance(e, (ast.Lambda, ast.ListComp, ast.SetComp, ast.DictComp, ast.GeneratorExp)):
            return
        for ch in ast.iter_child_nodes(e):
            if isinstance(ch, ast.expr):
                rec(ch)
        if isinstance(e, ast.Call):
            out.append(e)
    rec(expr)
    return out


def inline_procedures(index, max_rounds=3):
    """Open new private helpers at their call sites (see the comment above).  Returns {caller site: [helper names]}."""
    done = {}
    counter = [0]
    funcs = []
    for m in index.modules.values():
        funcs.extend(m.functions.values())
        for c in m.all_classes():
            for fs in c.methods.values():
                funcs.extend(fs)
    for _ in range(max_rounds):
        changed = False
        for fi in funcs:
            if _inline_in(index, fi, fi.node.body, counter, done):
                changed = True
        if not changed:
            break
    return done


def _inline_in(index, fi, stmts, counter, done):
    changed = False
    i = 0
    while i < len(stmts):
        s = stmts[i]
        # nested blocks first
        for field in ("body", "orelse", "finalbody"):
            blk = getattr(s, field, None)
            if isinstance(blk, list) and blk and isinstance(blk[0], ast.stmt) and not isinstance(s, (ast.FunctionDef, ast.AsyncFunctionDef, ast.ClassDef)):
                if _inline_in(index, fi, blk, counter, done):
                    changed = True
        if isinstance(s, ast.Try):
            for h in s.handlers:
                if _inline_in(index, fi, h.body, counter, done):
                    changed = True
        # (1) the statement is the call
        if isinstance(s, ast.Expr) and isinstance(s.value, ast.Call):
            target = _resolve_helper(index, fi, s.value)
            shape = _inlinable(target) if target is not None else None
            if shape is not None:
                r = _expand(s.value, target, *shape, counter)
                if r is not None:
                    new = r[0][:-1] if shape[0] == 'value' else r[0]
                    stmts[i:i + 1] = new or [ast.copy_location(ast.Pass(), s)]
                    done.setdefault(fi.site, []).append(target.qual)
                    changed = True
                    continue                            # re-examine from the same position
        # (2) the call is evaluated unconditionally inside a simple statement: hoist the helper's statements
        elif isinstance(s, (ast.Assign, ast.AugAssign, ast.Return, ast.Expr, ast.AnnAssign)) and getattr(s, "value", None) is not None:
            hit = False
            for call in _unconditional_calls(s.value):
                target = _resolve_helper(index, fi, call)
                shape = _inlinable(target) if target is not None else None
                if shape is None or shape[0] == 'void':
                    continue
                # everything evaluated before the call in this statement must be effect-free: only accept when the
                # call's arguments and the rest of the statement are reads (no other calls precede it)
                others = [c_ for c_ in ast.walk(s.value) if isinstance(c_, ast.Call) and c_ is not call and
                          not (isinstance(c_.func, ast.Name) and c_.func.id in ("max", "min", "len", "id", "int", "tuple", "range"))]
                if any(c_.lineno < call.lineno or (c_.lineno == call.lineno and c_.col_offset < call.col_offset) for c_ in others
                       if not any(x is call for x in ast.walk(c_))):
                    continue
                r = _expand(call, target, *shape, counter)
                if r is None:
                    continue
                pre, value = r

                class R(ast.NodeTransformer):
                    def visit_Call(self, n):
                        if n is call:
                            return ast.copy_location(value, n)
                        return self.generic_visit(n)
                s.value = R().visit(s.value)
                ast.fix_missing_locations(s)
                stmts[i:i] = pre
                i += len(pre)
                done.setdefault(fi.site, []).append(target.qual)
                changed = True
                hit = True
                break
            if hit:
                continue
        i += 1
    return changed


# ---- constant tables ----------------------------------------------------------------------------------------------------
def _table_expr(e, globals_):
    """A display of constants and module-level names (a table a maintainer hoisted out of a function body)."""
    if isinstance(e, ast.Constant):
        return True
    if isinstance(e, (ast.Tuple, ast.List)):
        return all(_table_expr(x, globals_) for x in e.elts)
    if isinstance(e, ast.Name):
        return e.id in globals_
    if isinstance(e, ast.Attribute):
        return _table_expr(e.value, globals_) and not isinstance(e.value, ast.Constant)
    if isinstance(e, ast.UnaryOp) and isinstance(e.op, ast.USub):
        return isinstance(e.operand, ast.Constant)
    if isinstance(e, ast.Dict):
        return all(k is not None and isinstance(k, ast.Constant) for k in e.keys) and all(_table_expr(v, globals_) for v in e.values)
    return False


def _only_read(index, names, attr):
    """Every use of the table `attr` (as self.<attr> / cls.<attr> / <Class>.<attr>, or as the bare module-level name) only reads
    it: indexed, iterated, .items()/.values()/.keys()/.get(), tested for membership, measured.  A mutable table that is
    aliased or updated in place must stay where it is -- substituting a fresh display for it would change the program."""
    READ_METHODS = ("items", "keys", "values", "get", "index", "count", "copy")
    READ_CALLS = ("len", "list", "tuple", "dict", "set", "frozenset", "sorted", "iter", "enumerate", "zip", "reversed", "any", "all", "sum", "min", "max")
    for m_ in index.modules.values():
        par = {}
        for n in ast.walk(m_.tree):
            for ch in ast.iter_child_nodes(n):
                par[ch] = n
        for n in ast.walk(m_.tree):
            if names is None:
                hit = isinstance(n, ast.Name) and n.id == attr and isinstance(n.ctx, ast.Load)
            else:
                hit = isinstance(n, ast.Attribute) and n.attr == attr and isinstance(n.value, ast.Name) and n.value.id in names and \
                    isinstance(n.ctx, ast.Load)
            if not hit:
                continue
            p = par.get(n)
            if isinstance(p, ast.Subscript) and p.value is n and isinstance(p.ctx, ast.Load):
                continue
            if isinstance(p, ast.Attribute) and p.value is n and p.attr in READ_METHODS and isinstance(par.get(p), ast.Call) and par.get(p).func is p:
                continue
            if isinstance(p, (ast.For, ast.comprehension)) and p.iter is n:
                continue
            if isinstance(p, ast.Compare) and n in p.comparators and all(isinstance(o, (ast.In, ast.NotIn)) for o in p.ops):
                continue
            if isinstance(p, ast.Call) and n in p.args and isinstance(p.func, ast.Name) and p.func.id in READ_CALLS:
                continue
            if isinstance(p, ast.Starred):
                continue
            return False
    return True


def propagate_constants(index):
    """Private constant tables hoisted to class or module level (`_VALID_WIDTHS = (8, 16, 32, 64)`) are put back where they
    are read: `self._T`, `cls._T`, `Class._T` inside the class, `_T` inside the module.  Only names that are bound exactly
    once in the whole package (no other assignment, no attribute store of that name anywhere) and whose value is a display
    of constants and module-level names are touched, so the value read is the value written here.  Enum classes are left
    alone (their members are handled by the enum tables).  Returns {site: name}."""
    import copy
    done = {}
    stored_attrs = {}
    for m in index.modules.values():
        for n in ast.walk(m.tree):
            if isinstance(n, ast.Attribute) and isinstance(n.ctx, (ast.Store, ast.Del)):
                stored_attrs[n.attr] = stored_attrs.get(n.attr, 0) + 1
    class_attr_owners = {}
    for c in index.all_classes():
        for k in c.class_attrs:
            class_attr_owners.setdefault(k, []).append(c)

    def unshadowed(c, k):
        """No class related to c by inheritance binds the same name (then self.<k> inside c is c's own table)."""
        for o in class_attr_owners.get(k, ()):
            if o is not c and (o in index.bases_of(c) or c in index.bases_of(o)):
                return False
        return True
    for m in index.modules.values():
        globals_ = set(m.imports) | set(m.classes) | set(m.functions)
        for st in m.tree.body:
            if isinstance(st, (ast.Import, ast.ImportFrom)):
                globals_ |= {(a.asname or a.name).split(".")[0] for a in st.names if a.name != "*"}
        star = any(isinstance(st, ast.ImportFrom) and any(a.name == "*" for a in st.names) for st in m.tree.body)
        # module-level tables
        mod_consts = {}
        name_stores = {}
        for n in ast.walk(m.tree):
            if isinstance(n, ast.Name) and isinstance(n.ctx, (ast.Store, ast.Del)):
                name_stores[n.id] = name_stores.get(n.id, 0) + 1
            elif isinstance(n, ast.arg):
                name_stores[n.arg] = name_stores.get(n.arg, 0) + 1
        for st in m.tree.body:
            if isinstance(st, ast.Assign) and len(st.targets) == 1 and isinstance(st.targets[0], ast.Name):
                nm = st.targets[0].id
                if nm.startswith("_") and not nm.startswith("__") and name_stores.get(nm) == 1 and \
                        isinstance(st.value, (ast.Tuple, ast.List, ast.Constant, ast.Dict)) and _table_expr(st.value, globals_ if not star else globals_ | _names_in(st.value)) and \
                        (isinstance(st.value, (ast.Tuple, ast.Constant)) or _only_read(index, None, nm)):
                    mod_consts[nm] = st.value
        if mod_consts:
            class RM(ast.NodeTransformer):
                def visit_Name(self, n):
                    if isinstance(n.ctx, ast.Load) and n.id in mod_consts:
                        done[f"{m.rel}::{n.id}"] = n.id
                        return ast.copy_location(copy.deepcopy(mod_consts[n.id]), n)
                    return n
            for st in m.tree.body:
                if isinstance(st, (ast.FunctionDef, ast.ClassDef)):
                    RM().visit(st)
                    ast.fix_missing_locations(st)
        # class-level tables
        for c in m.all_classes():
            if c.is_enum():
                continue
            consts = {}
            for k, v in c.class_attrs.items():
                if k.startswith("_") and not k.startswith("__") and unshadowed(c, k) and not stored_attrs.get(k) and \
                        isinstance(v, (ast.Tuple, ast.List, ast.Constant, ast.Dict)) and not (isinstance(v, ast.Constant) and isinstance(v.value, str)) and \
                        _table_expr(v, globals_ if not star else globals_ | _names_in(v)) and \
                        (isinstance(v, (ast.Tuple, ast.Constant)) or _only_read(index, ("self", "cls", c.name), k)):
                    consts[k] = v
            if not consts:
                continue

            class RC(ast.NodeTransformer):
                def visit_Attribute(self, n):
                    self.generic_visit(n)
                    if isinstance(n.ctx, ast.Load) and n.attr in consts and isinstance(n.value, ast.Name) and n.value.id in ("self", "cls", c.name):
                        done[f"{c.site}.{n.attr}"] = n.attr
                        return ast.copy_location(copy.deepcopy(consts[n.attr]), n)
                    return n
            for fs in c.methods.values():
                for f in fs:
                    RC().visit(f.node)
                    ast.fix_missing_locations(f.node)
    return done


def _names_in(e):
    return {n.id for n in ast.walk(e) if isinstance(n, ast.Name)}


# ---- expression helpers ---------------------------------------------------------------------------------------------------
def open_expression_helpers(index):
    """`X._h()` where `_h` is a *new* private method whose body is one `return <expr>` over `self` only (no parameters):
    replaced by <expr> with self := X (X a plain name).  The method is the one of the enclosing class; for a receiver other
    than `self` the enclosing function must test `isinstance(X, <that class>)` (an `__eq__`), and no class related by
    inheritance may define another `_h`.  Then two consequences are simplified: f(**{"a": x, "b": y}) becomes f(a=x, b=y), and
    {"a": x, "b": y} == {"a": u, "b": v} becomes x == u and y == v.  Returns {site: helper}."""
    import copy
    helpers = {}                                        # (class site, name) -> (FuncInfo, expr)
    by_name = {}
    for c in index.all_classes():
        for name, fs in c.methods.items():
            by_name.setdefault(name, []).append(c)
    for c in index.all_classes():
        for name, fs in c.methods.items():
            if len(fs) != 1 or not name.startswith("_") or name.startswith("__"):
                continue
            f = fs[0]
            if f"{f.module.rel}::{f.qual}" in _anchors() or f.decorators:
                continue
            if any(o is not c and (o in index.bases_of(c) or c in index.bases_of(o)) for o in by_name[name]):
                continue                                # overridden somewhere in the family
            a = f.node.args
            if [x.arg for x in a.args] != ["self"] or a.vararg or a.kwarg or a.kwonlyargs:
                continue
            body = [s for s in f.node.body if not (isinstance(s, ast.Expr) and isinstance(s.value, ast.Constant))]
            if len(body) != 1 or not isinstance(body[0], ast.Return) or body[0].value is None:
                continue
            v = body[0].value
            pure = ("Shape.cast", "tuple", "frozenset", "int", "bool", "str", "len")
            if any(isinstance(n, (ast.Lambda, ast.Yield, ast.Await, ast.NamedExpr, ast.ListComp, ast.GeneratorExp, ast.DictComp, ast.SetComp)) or
                   (isinstance(n, ast.Call) and ast.unparse(n.func) not in pure) for n in ast.walk(v)):
                continue                                # reads and value conversions only
            if any(isinstance(n, ast.Name) and n.id != "self" and n.id not in f.module.imports and n.id not in f.module.classes and
                   n.id not in ("Shape", "tuple", "frozenset", "int", "bool", "str", "len") for n in ast.walk(v)):
                continue
            helpers[(c.site, name)] = (f, v)
    done = {}
    if not helpers:
        return done

    class Open(ast.NodeTransformer):
        def __init__(self, fi):
            self.fi = fi
            self.site = fi.site

        def visit_Call(self, n):
            self.generic_visit(n)
            f = n.func
            cls = self.fi.cls
            if isinstance(f, ast.Attribute) and cls is not None and (cls.site, f.attr) in helpers and isinstance(f.value, ast.Name) and \
                    not n.args and not n.keywords:
                recv = f.value.id
                if recv != "self":
                    # another instance: the function must have established its class
                    guarded = any(isinstance(t, ast.Call) and isinstance(t.func, ast.Name) and t.func.id == "isinstance" and len(t.args) == 2 and
                                  isinstance(t.args[0], ast.Name) and t.args[0].id == recv and ast.unparse(t.args[1]).split(".")[-1] == cls.name
                                  for t in ast.walk(self.fi.node))
                    if not guarded:
                        return n
                expr = copy.deepcopy(helpers[(cls.site, f.attr)][1])

                class S(ast.NodeTransformer):
                    def visit_Name(self, x):
                        return ast.copy_location(ast.Name(id=recv, ctx=x.ctx), x) if x.id == "self" else x
                done.setdefault(self.site, []).append(f.attr)
                new = S().visit(expr)
                for x in ast.walk(new):
                    ast.copy_location(x, n)
                return new
            return n

    class Simplify(ast.NodeTransformer):
        def visit_Call(self, n):
            self.generic_visit(n)
            args = []
            for a in n.args:
                if isinstance(a, ast.Starred) and isinstance(a.value, (ast.Tuple, ast.List)) and \
                        not any(isinstance(x, ast.Starred) for x in a.value.elts):
                    args.extend(a.value.elts)
                else:
                    args.append(a)
            n.args = args
            kws = []
            for k in n.keywords:
                if k.arg is None and isinstance(k.value, ast.Dict) and k.value.keys and \
                        all(isinstance(x, ast.Constant) and isinstance(x.value, str) and x.value.isidentifier() for x in k.value.keys):
                    kws.extend(ast.keyword(arg=x.value, value=v) for x, v in zip(k.value.keys, k.value.values))
                else:
                    kws.append(k)
            n.keywords = kws
            return n

        def visit_Compare(self, n):
            self.generic_visit(n)
            if len(n.ops) == 1 and isinstance(n.ops[0], (ast.Eq, ast.NotEq)) and isinstance(n.left, ast.Dict) and isinstance(n.comparators[0], ast.Dict):
                l, r = n.left, n.comparators[0]
                lk = [x.value if isinstance(x, ast.Constant) else None for x in l.keys]
                rk = [x.value if isinstance(x, ast.Constant) else None for x in r.keys]
                if lk and None not in lk and len(set(lk)) == len(lk) and sorted(map(repr, lk)) == sorted(map(repr, rk)) and len(set(rk)) == len(rk):
                    rv = dict(zip(rk, r.values))
                    parts = [ast.Compare(left=a, ops=[ast.Eq()], comparators=[rv[k]]) for k, a in zip(lk, l.values)]
                    new = ast.BoolOp(op=ast.And(), values=parts) if len(parts) > 1 else parts[0]
                    if isinstance(n.ops[0], ast.NotEq):
                        new = ast.UnaryOp(op=ast.Not(), operand=new)
                    for x in ast.walk(new):
                        if not hasattr(x, "lineno"):
                            ast.copy_location(x, n)
                    return ast.copy_location(new, n)
            return n

        def visit_BoolOp(self, n):
            self.generic_visit(n)
            vals = []
            for v in n.values:                          # a and (b and c)  ->  a and b and c
                if isinstance(v, ast.BoolOp) and type(v.op) is type(n.op):
                    vals.extend(v.values)
                else:
                    vals.append(v)
            n.values = vals
            return n
    for m in index.modules.values():
        funcs = list(m.functions.values()) + [f for c in m.all_classes() for fs in c.methods.values() for f in fs]
        for f in funcs:
            if f.cls is not None and (f.cls.site, f.node.name) in helpers:
                continue
            before = len(done.get(f.site, ()))
            Open(f).visit(f.node)
            if len(done.get(f.site, ())) != before:
                Simplify().visit(f.node)
                ast.fix_missing_locations(f.node)
    return done


# ---- lists used as a cursor ---------------------------------------------------------------------------------------------
def scalarise_last_lists(index):
    """A local list that is only ever created with one element, appended to, and read at [-1] is a cursor that remembers the
    last value: `xs = [a]` / `xs.append(b)` / `xs[-1]` become `xs = a` / `xs = b` / `xs`.  Nothing else may touch the list
    (no iteration, no len(), no other index, not passed anywhere), so no other observation of it exists."""
    done = {}
    for m in index.modules.values():
        funcs = list(m.functions.values()) + [f for c in m.all_classes() for fs in c.methods.values() for f in fs]
        for f in funcs:
            cands = {}
            for n in _own_nodes(f.node):
                if isinstance(n, ast.Assign) and len(n.targets) == 1 and isinstance(n.targets[0], ast.Name) and \
                        isinstance(n.value, ast.List) and len(n.value.elts) == 1 and not isinstance(n.value.elts[0], ast.Starred):
                    cands.setdefault(n.targets[0].id, []).append(n)
            if not cands:
                continue
            parents = {}
            for n in ast.walk(f.node):
                for ch in ast.iter_child_nodes(n):
                    parents[ch] = n
            for name, inits in cands.items():
                ok = True
                appends, lasts = [], []
                for n in ast.walk(f.node):
                    if not (isinstance(n, ast.Name) and n.id == name):
                        continue
                    p = parents.get(n)
                    if isinstance(n.ctx, ast.Store):
                        if not (isinstance(p, ast.Assign) and p in inits):
                            ok = False
                        continue
                    if isinstance(p, ast.Subscript) and p.value is n and isinstance(p.ctx, ast.Load) and \
                            isinstance(p.slice, ast.UnaryOp) and isinstance(p.slice.op, ast.USub) and \
                            isinstance(p.slice.operand, ast.Constant) and p.slice.operand.value == 1:
                        lasts.append(p)
                        continue
                    pp = parents.get(p)
                    ppp = parents.get(pp)
                    if isinstance(p, ast.Attribute) and p.attr == "append" and isinstance(pp, ast.Call) and pp.func is p and \
                            len(pp.args) == 1 and not pp.keywords and isinstance(ppp, ast.Expr):
                        appends.append(ppp)
                        continue
                    ok = False
                if not ok or not lasts or not appends:
                    continue
                for a in inits:
                    a.value = a.value.elts[0]
                for e in appends:
                    new = ast.Assign(targets=[ast.Name(id=name, ctx=ast.Store())], value=e.value.args[0])
                    ast.copy_location(new, e)
                    ast.fix_missing_locations(new)
                    blk = parents[e]
                    for field in ("body", "orelse", "finalbody"):
                        lst = getattr(blk, field, None)
                        if isinstance(lst, list) and e in lst:
                            lst[lst.index(e)] = new
                for s in lasts:
                    p = parents[s]
                    for field, val in ast.iter_fields(p):
                        if val is s:
                            setattr(p, field, ast.copy_location(ast.Name(id=name, ctx=ast.Load()), s))
                        elif isinstance(val, list) and s in val:
                            val[val.index(s)] = ast.copy_location(ast.Name(id=name, ctx=ast.Load()), s)
                done.setdefault(f.site, []).append(name)
    return done


# ---- sum() over a comprehension --------------------------------------------------------------------------------------------
def desugar_sums(index):
    """`x = sum(E for T in IT if C)` (optionally with a start value) is the loop it abbreviates: `x = 0` /
    `for T' in IT: if C': x += E'`, with the comprehension's targets renamed so that they do not leak.  The rules read running
    totals as loop-carried folds, so both spellings give the same fold."""
    import copy
    done = {}
    n_ = [0]
    for m in index.modules.values():
        funcs = list(m.functions.values()) + [f for c in m.all_classes() for fs in c.methods.values() for f in fs]
        for f in funcs:
            def walk_block(stmts):
                i = 0
                while i < len(stmts):
                    s = stmts[i]
                    for field in ("body", "orelse", "finalbody"):
                        blk = getattr(s, field, None)
                        if isinstance(blk, list) and blk and isinstance(blk[0], ast.stmt) and not isinstance(s, (ast.FunctionDef, ast.AsyncFunctionDef, ast.ClassDef)):
                            walk_block(blk)
                    v = getattr(s, "value", None)
                    if isinstance(s, ast.Assign) and len(s.targets) == 1 and isinstance(s.targets[0], ast.Name) and isinstance(v, ast.Call) and \
                            isinstance(v.func, ast.Name) and v.func.id == "sum" and 1 <= len(v.args) <= 2 and not v.keywords and \
                            isinstance(v.args[0], (ast.GeneratorExp, ast.ListComp)) and len(v.args[0].generators) == 1 and \
                            not v.args[0].generators[0].is_async:
                        g = v.args[0].generators[0]
                        x = s.targets[0].id
                        if any(isinstance(n, ast.Name) and n.id == x for n in ast.walk(v)):
                            i += 1
                            continue
                        n_[0] += 1
                        ren = {n.id: f"__s{n_[0]}_{n.id}" for n in ast.walk(g.target) if isinstance(n, ast.Name)}

                        class R(ast.NodeTransformer):
                            def visit_Name(self, n):
                                return ast.copy_location(ast.Name(id=ren[n.id], ctx=n.ctx), n) if n.id in ren else n
                        body = [ast.AugAssign(target=ast.Name(id=x, ctx=ast.Store()), op=ast.Add(), value=R().visit(copy.deepcopy(v.args[0].elt)))]
                        for t in reversed(g.ifs):
                            body = [ast.If(test=R().visit(copy.deepcopy(t)), body=body, orelse=[])]
                        init = v.args[1] if len(v.args) == 2 else ast.Constant(value=0)
                        new = [ast.Assign(targets=[ast.Name(id=x, ctx=ast.Store())], value=init),
                               ast.For(target=R().visit(copy.deepcopy(g.target)), iter=g.iter, body=body, orelse=[])]
                        for st in new:
                            ast.copy_location(st, s)
                            for n in ast.walk(st):
                                if not hasattr(n, "lineno"):
                                    ast.copy_location(n, s)
                            ast.fix_missing_locations(st)
                        stmts[i:i + 1] = new
                        done.setdefault(f.site, []).append(x)
                        i += 2
                        continue
                    i += 1
            walk_block(f.node.body)
    return done


# ---- xs.extend(<comprehension>) ----------------------------------------------------------------------------------------------
def desugar_extends(index):
    """The statement `xs.extend(E for T in IT if C)` is `for T' in IT: if C': xs.append(E')` (elements are produced and appended
    one by one in both spellings; the comprehension's targets are renamed so that they do not leak)."""
    import copy
    done = {}
    n_ = [0]
    for m in index.modules.values():
        funcs = list(m.functions.values()) + [f for c in m.all_classes() for fs in c.methods.values() for f in fs]
        for f in funcs:
            def walk_block(stmts):
                for i, s in enumerate(list(stmts)):
                    for field in ("body", "orelse", "finalbody"):
                        blk = getattr(s, field, None)
                        if isinstance(blk, list) and blk and isinstance(blk[0], ast.stmt) and not isinstance(s, (ast.FunctionDef, ast.AsyncFunctionDef, ast.ClassDef)):
                            walk_block(blk)
                    v = s.value if isinstance(s, ast.Expr) else None
                    if isinstance(v, ast.Call) and isinstance(v.func, ast.Attribute) and v.func.attr == "extend" and len(v.args) == 1 and \
                            not v.keywords and isinstance(v.args[0], (ast.GeneratorExp, ast.ListComp)) and len(v.args[0].generators) == 1 and \
                            not v.args[0].generators[0].is_async and _simple_arg(v.func.value):
                        g = v.args[0].generators[0]
                        n_[0] += 1
                        ren = {n.id: f"__e{n_[0]}_{n.id}" for n in ast.walk(g.target) if isinstance(n, ast.Name)}

                        class R(ast.NodeTransformer):
                            def visit_Name(self, n):
                                return ast.copy_location(ast.Name(id=ren[n.id], ctx=n.ctx), n) if n.id in ren else n
                        app = ast.Expr(value=ast.Call(func=ast.Attribute(value=copy.deepcopy(v.func.value), attr="append", ctx=ast.Load()),
                                                      args=[R().visit(copy.deepcopy(v.args[0].elt))], keywords=[]))
                        body = [app]
                        for t in reversed(g.ifs):
                            body = [ast.If(test=R().visit(copy.deepcopy(t)), body=body, orelse=[])]
                        new = ast.For(target=R().visit(copy.deepcopy(g.target)), iter=g.iter, body=body, orelse=[])
                        ast.copy_location(new, s)
                        for n in ast.walk(new):
                            if not hasattr(n, "lineno"):
                                ast.copy_location(n, s)
                        ast.fix_missing_locations(new)
                        stmts[stmts.index(s)] = new
                        done.setdefault(f.site, []).append(ast.unparse(v.func.value))
            walk_block(f.node.body)
    return done



def flatten_function(index, fi, exclude=()):
    """A copy of function `fi` in which every call of a private helper of its own class / module -- including the helpers the
    rules otherwise anchor on -- is replaced by the helper's statements (same conditions as inline_procedures).  The rules that
    state a property on what an API call does as a whole (which range is inserted, which tests precede the insertion) read this
    flattened body, so that moving statements between the API function and its helpers does not change what they see.
    Returns a FuncInfo for the copy (same site), or `fi` itself when nothing was opened."""
    import copy
    from .index import FuncInfo
    node = copy.deepcopy(fi.node)
    clone = FuncInfo(node, fi.cls, fi.module)
    saved = dict(_OPTS)
    _OPTS.update(allow_anchors=True, exclude=tuple(exclude), max_body=40)
    try:
        done = {}
        counter = [1000]
        for _ in range(4):
            if not _inline_in(index, clone, node.body, counter, done):
                break
    finally:
        _OPTS.clear()
        _OPTS.update(saved)
    if not done:
        return fi
    ast.fix_missing_locations(node)
    clone.flattened = sorted({h for hs in done.values() for h in hs})
    return clone


# ---- renamed parameters of pinned private functions ----------------------------------------------------------------------------------
def pinned_parameter_names(index):
    """A private function of the pinned tree (core/anchor_sigs.json) whose parameters were renamed -- same number, same order,
    positional or keyword-only -- is read with the pinned names: the parameters are renamed inside the body and in the keywords of
    its call sites (`self._translate(info, window=w, name=n, addr_range=r)`), after which the pinned calling convention applies.
    Only for names starting with an underscore (nobody outside the package can pass these by keyword), and only when the new
    names do not occur otherwise in the function."""
    import json
    import os
    with open(os.path.join(os.path.dirname(__file__), "anchor_sigs.json")) as f:
        pinned = json.load(f)
    done = {}
    renames = {}
    for f in index.all_functions():
        sg = pinned.get(f.site)
        if sg is None or not f.name.startswith("_") or f.name.startswith("__"):
            continue
        a = f.node.args
        if a.vararg or a.kwarg or a.posonlyargs:
            continue
        cur = [x.arg for x in a.args + a.kwonlyargs]
        old = list(sg["pos"]) + list(sg["kwonly"])
        if len(cur) != len(old) or cur == old or set(cur) == set(old):
            continue
        mp = {c_: o_ for c_, o_ in zip(cur, old) if c_ != o_}
        names_in_body = {n.id for n in ast.walk(f.node) if isinstance(n, ast.Name)}
        if any(o_ in names_in_body and o_ not in cur for o_ in mp.values()):
            continue
        for x in a.args + a.kwonlyargs:
            if x.arg in mp:
                x.arg = mp[x.arg]
        for n in ast.walk(f.node):
            if isinstance(n, ast.Name) and n.id in mp:
                n.id = mp[n.id]
        renames[f.name] = (mp, set(cur))
        f.params = [mp.get(p_, p_) for p_ in f.params]
        done[f.site] = dict(mp)
    if renames:
        for g in index.all_functions():
            for n in ast.walk(g.node):
                if isinstance(n, ast.Call):
                    name = n.func.attr if isinstance(n.func, ast.Attribute) else (n.func.id if isinstance(n.func, ast.Name) else None)
                    target = n
                    # functools.partial(self._f, kw=...) names the parameters as well
                    if name == "partial" and n.args:
                        inner = n.args[0]
                        name = inner.attr if isinstance(inner, ast.Attribute) else (inner.id if isinstance(inner, ast.Name) else None)
                    if name in renames:
                        mp, cur = renames[name]
                        if all(k.arg is None or k.arg in cur for k in target.keywords):
                            for k in target.keywords:
                                if k.arg in mp:
                                    k.arg = mp[k.arg]
    return done


# ---- new optional parameters read at their default ----------------------------------------------------------------------------------
def specialise_default_parameters(index):
    """A function of the pinned tree that gained a parameter with a constant default, which no call site in the package passes,
    behaves for every caller the properties speak about as it does at that default.  The body is read at the default: a top-level
    `if` whose test is decided by the default (`p is None`, `p is not None`, `p`, `not p`, `p == K`) is replaced by the arm taken,
    and what follows an arm that returns or raises is dropped.  Reading stops at the first statement that rebinds the parameter.
    The parameter stays in the signature."""
    import json
    import os
    with open(os.path.join(os.path.dirname(__file__), "anchor_sigs.json")) as f:
        pinned = json.load(f)
    done = {}
    # names passed by keyword anywhere, and the largest positional count per callee name
    kw_passed = {}
    pos_count = {}
    star_calls = set()
    for g in index.all_functions():
        for n in ast.walk(g.node):
            if isinstance(n, ast.Call):
                name = n.func.attr if isinstance(n.func, ast.Attribute) else (n.func.id if isinstance(n.func, ast.Name) else None)
                for k in n.keywords:
                    if k.arg is None:
                        star_calls.add(name)
                    else:
                        kw_passed.setdefault(name, set()).add(k.arg)
                if any(isinstance(a_, ast.Starred) for a_ in n.args):
                    star_calls.add(name)
                pos_count[name] = max(pos_count.get(name, 0), len(n.args))

    def const_of(d):
        if isinstance(d, ast.Constant) and (d.value is None or isinstance(d.value, (bool, int, str))):
            return d.value
        return const_of

    def fold(test, pname, val):
        """Truth of `test` when the parameter holds its default; None when not decided."""
        if isinstance(test, ast.Name) and test.id == pname:
            return bool(val)
        if isinstance(test, ast.UnaryOp) and isinstance(test.op, ast.Not):
            r = fold(test.operand, pname, val)
            return None if r is None else not r
        if isinstance(test, ast.Compare) and len(test.ops) == 1 and isinstance(test.left, ast.Name) and test.left.id == pname and \
                isinstance(test.comparators[0], ast.Constant):
            k = test.comparators[0].value
            op = test.ops[0]
            if isinstance(op, ast.Is):
                return val is k if (k is None or isinstance(k, bool)) else None
            if isinstance(op, ast.IsNot):
                return val is not k if (k is None or isinstance(k, bool)) else None
            if isinstance(op, ast.Eq) and type(val) is type(k):
                return val == k
            if isinstance(op, ast.NotEq) and type(val) is type(k):
                return val != k
        return None

    def rebinds(st, pname):
        return any(isinstance(n, ast.Name) and n.id == pname and isinstance(n.ctx, (ast.Store, ast.Del)) for n in ast.walk(st))

    def terminates(block):
        return bool(block) and isinstance(block[-1], (ast.Return, ast.Raise))

    def read_block(stmts, pname, val):
        """-> (new statements, changed, stopped)"""
        out = []
        changed = False
        for i_, st in enumerate(stmts):
            if rebinds(st, pname):
                return out + stmts[i_:], changed, True
            if isinstance(st, ast.If):
                r = fold(st.test, pname, val)
                if r is not None:
                    arm = st.body if r else st.orelse
                    arm2, _, stopped = read_block(list(arm), pname, val)
                    out.extend(arm2)
                    changed = True
                    if terminates(arm2):
                        return out, True, True
                    if stopped:
                        return out + stmts[i_ + 1:], True, True
                    continue
            if any(isinstance(n, ast.Name) and n.id == pname and isinstance(n.ctx, ast.Load) for n in ast.walk(st)):
                st = Subst(pname, val).visit(st)
                changed = True
            out.append(st)
        return out, changed, False

    class Subst(ast.NodeTransformer):
        """The parameter read as its default; `bool(K)` / `not K` of the constant folded."""
        def __init__(self, pname, val):
            self.pname, self.val = pname, val

        def visit_Name(self, node):
            if node.id == self.pname and isinstance(node.ctx, ast.Load):
                return ast.copy_location(ast.Constant(value=self.val), node)
            return node

        def visit_Call(self, node):
            self.generic_visit(node)
            if isinstance(node.func, ast.Name) and node.func.id == "bool" and len(node.args) == 1 and not node.keywords and \
                    isinstance(node.args[0], ast.Constant):
                return ast.copy_location(ast.Constant(value=bool(node.args[0].value)), node)
            return node

        def visit_UnaryOp(self, node):
            self.generic_visit(node)
            if isinstance(node.op, ast.Not) and isinstance(node.operand, ast.Constant):
                return ast.copy_location(ast.Constant(value=not node.operand.value), node)
            return node

    for f in index.all_functions():
        sg = pinned.get(f.site)
        if sg is None:
            continue
        a = f.node.args
        if f.name in star_calls:
            continue
        old = set(sg["pos"]) | set(sg["kwonly"])
        cands = []
        npos = len(a.args)
        for j, x in enumerate(a.args):
            dj = j - (npos - len(a.defaults))
            if x.arg not in old and dj >= 0:
                # positional: no call passes that many arguments (self is not counted at method call sites)
                is_method = bool(a.args) and a.args[0].arg in ("self", "cls")
                cal_ = f.name if f.name != "__init__" else f.site.split("::")[1].split(".")[0]
                if max(pos_count.get(cal_, 0), pos_count.get("__init__", 0) if f.name == "__init__" else 0) <= j - (1 if is_method else 0):
                    cands.append((x.arg, a.defaults[dj]))
        for x, d in zip(a.kwonlyargs, a.kw_defaults):
            if x.arg not in old and d is not None:
                cands.append((x.arg, d))
        callee = f.name if f.name != "__init__" else f.site.split("::")[1].split(".")[0]
        for pname, d in cands:
            v = const_of(d)
            if v is const_of or pname in kw_passed.get(callee, ()) or (f.name == "__init__" and pname in kw_passed.get("__init__", ())):
                continue
            body, changed, _ = read_block(list(f.node.body), pname, v)
            if not changed:
                continue
            # a bare `return` closing the function says nothing
            while body and isinstance(body[-1], ast.Return) and body[-1].value is None:
                body.pop()
            if not body:
                body = [ast.Pass()]
            f.node.body = body
            done.setdefault(f.site, []).append(pname)
    return done


# ---- functools.partial, map(), divmod() --------------------------------------------------------------------------------------------
def desugar_functional_idioms(index):
    """Three spellings that only abbreviate:
    * `q, r = divmod(a, b)` with plain operands is `q = a // b; r = a % b`;
    * `F = functools.partial(G, *A, **K)` bound once to a local that is only called or handed to map(): `F(x)` is `G(*A, x, **K)`;
    * `map(F, X)` over one iterable is the generator `(F(v) for v in X)` (lazy either way)."""
    import copy
    done = {}

    def plain(e):
        return not any(isinstance(x, (ast.Call, ast.Lambda, ast.Yield, ast.YieldFrom, ast.Await, ast.NamedExpr, ast.ListComp, ast.GeneratorExp,
                                      ast.DictComp, ast.SetComp)) for x in ast.walk(e))

    for f in index.all_functions():
        count = 0
        # divmod
        def walk_block(stmts):
            nonlocal count
            i = 0
            while i < len(stmts):
                s = stmts[i]
                for field in ("body", "orelse", "finalbody"):
                    blk = getattr(s, field, None)
                    if isinstance(blk, list) and blk and isinstance(blk[0], ast.stmt) and not isinstance(s, (ast.FunctionDef, ast.AsyncFunctionDef, ast.ClassDef)):
                        walk_block(blk)
                if isinstance(s, ast.Try):
                    for h in s.handlers:
                        walk_block(h.body)
                if isinstance(s, ast.Assign) and len(s.targets) == 1 and isinstance(s.targets[0], ast.Tuple) and len(s.targets[0].elts) == 2 and \
                        isinstance(s.value, ast.Call) and isinstance(s.value.func, ast.Name) and s.value.func.id == "divmod" and \
                        len(s.value.args) == 2 and not s.value.keywords and all(plain(a_) for a_ in s.value.args) and \
                        all(isinstance(t, ast.Name) for t in s.targets[0].elts):
                    a_, b_ = s.value.args
                    used = {n.id for n in ast.walk(s.value) if isinstance(n, ast.Name)}
                    if not (used & {t.id for t in s.targets[0].elts}):
                        q = ast.Assign(targets=[s.targets[0].elts[0]], value=ast.BinOp(left=copy.deepcopy(a_), op=ast.FloorDiv(), right=copy.deepcopy(b_)))
                        r = ast.Assign(targets=[s.targets[0].elts[1]], value=ast.BinOp(left=copy.deepcopy(a_), op=ast.Mod(), right=copy.deepcopy(b_)))
                        for x in (q, r):
                            ast.copy_location(x, s)
                            ast.fix_missing_locations(x)
                        stmts[i:i + 1] = [q, r]
                        count += 1
                        i += 2
                        continue
                i += 1
        walk_block(f.node.body)
        # partial
        binds = {}
        for s in ast.walk(f.node):
            if isinstance(s, ast.Assign) and len(s.targets) == 1 and isinstance(s.targets[0], ast.Name):
                binds.setdefault(s.targets[0].id, []).append(s)
        partials = {}
        for nm, ss in binds.items():
            v = ss[0].value
            if len(ss) == 1 and isinstance(v, ast.Call) and ast.unparse(v.func) in ("functools.partial", "partial") and v.args and \
                    not any(isinstance(a_, ast.Starred) for a_ in v.args) and all(k.arg is not None for k in v.keywords) and \
                    all(plain(a_) for a_ in v.args[1:]) and all(plain(k.value) for k in v.keywords) and \
                    nm not in [a_.arg for a_ in f.node.args.args + f.node.args.kwonlyargs]:
                stores = [n for n in ast.walk(f.node) if isinstance(n, ast.Name) and n.id == nm and isinstance(n.ctx, ast.Store)]
                loads = [n for n in ast.walk(f.node) if isinstance(n, ast.Name) and n.id == nm and isinstance(n.ctx, ast.Load)]
                call_funcs = {id(c_.func) for c_ in ast.walk(f.node) if isinstance(c_, ast.Call)}
                map_firsts = {id(c_.args[0]) for c_ in ast.walk(f.node) if isinstance(c_, ast.Call) and isinstance(c_.func, ast.Name) and
                              c_.func.id == "map" and c_.args}
                if len(stores) == 1 and loads and all(id(n) in call_funcs or id(n) in map_firsts for n in loads):
                    partials[nm] = v

        class M(ast.NodeTransformer):
            def visit_Call(self, n):
                nonlocal count
                self.generic_visit(n)
                if isinstance(n.func, ast.Name) and n.func.id == "map" and len(n.args) == 2 and not n.keywords and \
                        isinstance(n.args[0], (ast.Name, ast.Attribute)) and not isinstance(n.args[1], ast.Starred):
                    var = "_mapped"
                    k_ = 0
                    names = {x.id for x in ast.walk(f.node) if isinstance(x, ast.Name)}
                    while var in names:
                        k_ += 1
                        var = f"_mapped{k_}"
                    call = ast.Call(func=n.args[0], args=[ast.Name(id=var, ctx=ast.Load())], keywords=[])
                    gen = ast.GeneratorExp(elt=call, generators=[ast.comprehension(target=ast.Name(id=var, ctx=ast.Store()), iter=n.args[1], ifs=[], is_async=0)])
                    count += 1
                    return ast.fix_missing_locations(ast.copy_location(gen, n))
                return n
        M().visit(f.node)

        class P(ast.NodeTransformer):
            def visit_Call(self, n):
                nonlocal count
                self.generic_visit(n)
                if isinstance(n.func, ast.Name) and n.func.id in partials:
                    pv = partials[n.func.id]
                    new = ast.Call(func=copy.deepcopy(pv.args[0]), args=[copy.deepcopy(a_) for a_ in pv.args[1:]] + list(n.args),
                                   keywords=[copy.deepcopy(k) for k in pv.keywords] + list(n.keywords))
                    count += 1
                    return ast.fix_missing_locations(ast.copy_location(new, n))
                return n
        if partials:
            P().visit(f.node)

            def drop(stmts):
                for s in list(stmts):
                    for field in ("body", "orelse", "finalbody"):
                        blk = getattr(s, field, None)
                        if isinstance(blk, list) and blk and isinstance(blk[0], ast.stmt) and not isinstance(s, (ast.FunctionDef, ast.AsyncFunctionDef, ast.ClassDef)):
                            drop(blk)
                    if isinstance(s, ast.Assign) and len(s.targets) == 1 and isinstance(s.targets[0], ast.Name) and s.targets[0].id in partials and \
                            s.value is partials[s.targets[0].id]:
                        stmts.remove(s)
                        if not stmts:
                            stmts.append(ast.copy_location(ast.Pass(), s))
            drop(f.node.body)
        if count:
            done[f.site] = count
    return done


# ---- Counter lookups, lists of records built by one comprehension ----------------------------------------------------------------
def _own_walk(fn):
    """Nodes of a function, nested function / class bodies excluded."""
    todo = list(fn.body)
    while todo:
        n = todo.pop()
        yield n
        for c in ast.iter_child_nodes(n):
            if not isinstance(c, (ast.FunctionDef, ast.AsyncFunctionDef, ast.ClassDef, ast.Lambda)):
                todo.append(c)


def desugar_counters(index):
    """`C = Counter(ITER)` bound once and only ever read as `C[x]`: the number of occurrences of x in ITER, `list(ITER).count(x)`.
    The local becomes the list and every lookup a `.count()` (a missing key counts 0 either way)."""
    done = {}
    for f in index.all_functions():
        binds = {}
        for n in _own_walk(f.node):
            if isinstance(n, ast.Assign) and len(n.targets) == 1 and isinstance(n.targets[0], ast.Name):
                binds.setdefault(n.targets[0].id, []).append(n)
            elif isinstance(n, (ast.AugAssign, ast.AnnAssign, ast.For, ast.NamedExpr, ast.withitem, ast.comprehension)):
                for t in ast.walk(getattr(n, "target", None) or getattr(n, "optional_vars", None) or ast.Pass()):
                    if isinstance(t, ast.Name):
                        binds.setdefault(t.id, []).append(None)
        for name, bs in binds.items():
            if len(bs) != 1 or bs[0] is None:
                continue
            v = bs[0].value
            if not (isinstance(v, ast.Call) and ast.unparse(v.func) in ("Counter", "collections.Counter") and len(v.args) == 1 and not v.keywords):
                continue
            it = v.args[0]
            if not isinstance(it, (ast.ListComp, ast.GeneratorExp, ast.Name)):
                continue
            uses = [n for n in ast.walk(f.node) if isinstance(n, ast.Name) and n.id == name and isinstance(n.ctx, ast.Load)]
            subs = [n for n in ast.walk(f.node) if isinstance(n, ast.Subscript) and isinstance(n.value, ast.Name) and n.value.id == name and
                    isinstance(n.ctx, ast.Load) and not isinstance(n.slice, ast.Slice)]
            if not uses or len(uses) != len(subs):
                continue
            if isinstance(it, ast.Name):
                bs[0].value = ast.Call(func=ast.Name(id="list", ctx=ast.Load()), args=[it], keywords=[])
            else:
                bs[0].value = ast.ListComp(elt=it.elt, generators=it.generators)

            class T(ast.NodeTransformer):
                def visit_Subscript(self, node):
                    self.generic_visit(node)
                    if isinstance(node.value, ast.Name) and node.value.id == name and isinstance(node.ctx, ast.Load) and not isinstance(node.slice, ast.Slice):
                        return ast.copy_location(ast.Call(func=ast.Attribute(value=node.value, attr="count", ctx=ast.Load()),
                                                          args=[node.slice], keywords=[]), node)
                    return node
            T().visit(f.node)
            ast.fix_missing_locations(f.node)
            done.setdefault(f.site, []).append(name)
    return done


def desugar_setdefault_identity(index):
    """`got = D.setdefault(K, E)` followed by `if got is not E: BODY [else: ELSE]` where E is a local bound once, in this function, to a
    freshly built object (a tuple / list display or a constructor call): `got is not E` holds exactly when K was already in D, and only
    then nothing was stored.  Rewritten as `if K in D: got = D[K]; BODY` / `else: D[K] = E; got = E; ELSE`."""
    import copy
    done = {}
    for f in index.all_functions():
        fresh = {}
        for n in ast.walk(f.node):
            if isinstance(n, ast.Assign) and len(n.targets) == 1 and isinstance(n.targets[0], ast.Name):
                fresh.setdefault(n.targets[0].id, []).append(n.value)
        k = 0

        def walk(stmts):
            nonlocal k
            i = 0
            while i < len(stmts):
                st = stmts[i]
                for fld in ("body", "orelse", "finalbody"):
                    b = getattr(st, fld, None)
                    if isinstance(b, list) and b and isinstance(b[0], ast.stmt) and not isinstance(st, (ast.FunctionDef, ast.ClassDef)):
                        walk(b)
                nxt = stmts[i + 1] if i + 1 < len(stmts) else None
                # `D.setdefault(K, E)` as a statement: `if K not in D: D[K] = E` (E is evaluated either way; it must only read)
                if isinstance(st, ast.Expr) and isinstance(st.value, ast.Call) and isinstance(st.value.func, ast.Attribute) and \
                        st.value.func.attr == "setdefault" and len(st.value.args) == 2 and not st.value.keywords and \
                        _simple_arg(st.value.func.value) and not any(isinstance(x, ast.Call) and not (isinstance(x.func, ast.Name) and x.func.id in ("id", "len", "tuple"))
                                                                    for x in ast.walk(st.value.args[1])) and \
                        not any(isinstance(x, ast.Call) and not (isinstance(x.func, ast.Name) and x.func.id in ("id", "len"))
                                for x in ast.walk(st.value.args[0])):
                    D, K, E = st.value.func.value, st.value.args[0], st.value.args[1]
                    new = ast.If(test=ast.Compare(left=copy.deepcopy(K), ops=[ast.NotIn()], comparators=[copy.deepcopy(D)]),
                                 body=[ast.Assign(targets=[ast.Subscript(value=copy.deepcopy(D), slice=copy.deepcopy(K), ctx=ast.Store())], value=E)],
                                 orelse=[])
                    ast.copy_location(new, st)
                    stmts[i] = new
                    k += 1
                    i += 1
                    continue
                if isinstance(st, ast.Assign) and len(st.targets) == 1 and isinstance(st.targets[0], ast.Name) and isinstance(st.value, ast.Call) and \
                        isinstance(st.value.func, ast.Attribute) and st.value.func.attr == "setdefault" and len(st.value.args) == 2 and \
                        not st.value.keywords and isinstance(st.value.args[1], ast.Name) and isinstance(nxt, ast.If):
                    got, D, K, E = st.targets[0].id, st.value.func.value, st.value.args[0], st.value.args[1].id
                    vs = fresh.get(E, [])
                    is_fresh = len(vs) == 1 and (isinstance(vs[0], (ast.Tuple, ast.List, ast.Dict)) or
                                                 (isinstance(vs[0], ast.Call) and ast.unparse(vs[0].func).split(".")[-1][:1].isupper()))
                    t = nxt.test
                    pol = None
                    if isinstance(t, ast.Compare) and len(t.ops) == 1 and isinstance(t.ops[0], (ast.Is, ast.IsNot)) and \
                            isinstance(t.left, ast.Name) and isinstance(t.comparators[0], ast.Name) and \
                            {t.left.id, t.comparators[0].id} == {got, E}:
                        pol = isinstance(t.ops[0], ast.IsNot)           # True: the body runs when the key was present
                    if is_fresh and pol is not None and _simple_arg(K) and _simple_arg(D):
                        present = [ast.Assign(targets=[ast.Name(id=got, ctx=ast.Store())],
                                              value=ast.Subscript(value=copy.deepcopy(D), slice=copy.deepcopy(K), ctx=ast.Load()))]
                        absent = [ast.Assign(targets=[ast.Subscript(value=copy.deepcopy(D), slice=copy.deepcopy(K), ctx=ast.Store())],
                                             value=ast.Name(id=E, ctx=ast.Load())),
                                  ast.Assign(targets=[ast.Name(id=got, ctx=ast.Store())], value=ast.Name(id=E, ctx=ast.Load()))]
                        body_p, body_a = (nxt.body, nxt.orelse) if pol else (nxt.orelse, nxt.body)
                        new = ast.If(test=ast.Compare(left=copy.deepcopy(K), ops=[ast.In()], comparators=[copy.deepcopy(D)]),
                                     body=present + list(body_p), orelse=absent + list(body_a))
                        ast.copy_location(new, st)
                        stmts[i:i + 2] = [new]
                        k += 1
                i += 1
        walk(f.node.body)
        if k:
            ast.fix_missing_locations(f.node)
            done[f.site] = k
    return done


def desugar_counting_loops(index):
    """`D = defaultdict(int)` (or `Counter()`, or `{}` read through `.get(k, 0)`), followed by `for T in IT: D[K] += 1` as the whole loop
    body, and otherwise only read as `D[x]` / `D.get(x, 0)`: the number of elements of IT whose key is x -- `[K for T in IT].count(x)`."""
    done = {}
    for f in index.all_functions():
        k = 0
        def blocks(stmts):
            yield stmts
            for st in stmts:
                for fld in ("body", "orelse", "finalbody"):
                    b = getattr(st, fld, None)
                    if isinstance(b, list) and b and isinstance(b[0], ast.stmt) and not isinstance(st, (ast.FunctionDef, ast.ClassDef)):
                        yield from blocks(b)
        for blk in list(blocks(f.node.body)):
            for i, st in enumerate(list(blk)):
                if not (isinstance(st, ast.Assign) and len(st.targets) == 1 and isinstance(st.targets[0], ast.Name)):
                    continue
                v = st.value
                ctor = (isinstance(v, ast.Call) and ast.unparse(v.func) in ("defaultdict", "collections.defaultdict") and len(v.args) == 1 and
                        isinstance(v.args[0], ast.Name) and v.args[0].id == "int" and not v.keywords) or \
                       (isinstance(v, ast.Call) and ast.unparse(v.func) in ("Counter", "collections.Counter") and not v.args and not v.keywords)
                if not ctor:
                    continue
                name = st.targets[0].id
                j = blk.index(st) + 1
                if j >= len(blk) or not isinstance(blk[j], ast.For) or blk[j].orelse or len(blk[j].body) != 1:
                    continue
                loop = blk[j]
                inc = loop.body[0]
                if not (isinstance(inc, ast.AugAssign) and isinstance(inc.op, ast.Add) and isinstance(inc.value, ast.Constant) and inc.value.value == 1 and
                        isinstance(inc.target, ast.Subscript) and isinstance(inc.target.value, ast.Name) and inc.target.value.id == name):
                    continue
                occ = [n for n in ast.walk(f.node) if isinstance(n, ast.Name) and n.id == name and n is not st.targets[0] and n is not inc.target.value]
                par = {}
                for n in ast.walk(f.node):
                    for ch in ast.iter_child_nodes(n):
                        par[ch] = n
                reads = []
                ok = True
                for n in occ:
                    p_ = par.get(n)
                    if isinstance(p_, ast.Subscript) and p_.value is n and isinstance(p_.ctx, ast.Load) and not isinstance(p_.slice, ast.Slice):
                        reads.append(p_)
                    else:
                        ok = False
                if not ok or not reads:
                    continue
                st.value = ast.ListComp(elt=inc.target.slice, generators=[ast.comprehension(target=loop.target, iter=loop.iter, ifs=[], is_async=0)])
                blk.remove(loop)

                class T(ast.NodeTransformer):
                    def visit_Subscript(self, node):
                        self.generic_visit(node)
                        if any(node is r for r in reads):
                            return ast.copy_location(ast.Call(func=ast.Attribute(value=node.value, attr="count", ctx=ast.Load()),
                                                              args=[node.slice], keywords=[]), node)
                        return node
                T().visit(f.node)
                k += 1
        if k:
            ast.fix_missing_locations(f.node)
            done[f.site] = k
    return done


_MAP_PURE_CALLS = ("str", "int", "len", "tuple", "list", "sorted", "min", "max", "repr", "bool", "range", "isinstance", "Shape.cast", "slice",
                   "exact_log2", "ceil_log2")
_MUTATORS = ("append", "add", "extend", "insert", "pop", "remove", "clear", "update", "setdefault", "freeze", "popitem", "discard", "sort", "reverse")


def _map_pure(e):
    for n in ast.walk(e):
        if isinstance(n, (ast.Lambda, ast.Yield, ast.YieldFrom, ast.Await, ast.NamedExpr)):
            return False
        if isinstance(n, ast.Call):
            if isinstance(n.func, ast.Attribute) and n.func.attr in ("join", "format") and isinstance(n.func.value, ast.Constant):
                continue
            if ast.unparse(n.func) not in _MAP_PURE_CALLS:
                return False
    return True


def fuse_record_lists(index):
    """`X = [(E1, ..., En) for T in S]` (one generator, no filter, pure elements), X bound once, never mutated and only ever iterated
    -- `for U in X:` statements and `for U in X` comprehension clauses with U a tuple of n names.  Iterating X is iterating S with
    U bound to the record: a statement loop becomes `for T' in S: U = (E1', ..., En'); ...` (T renamed apart), a comprehension
    clause becomes `for T' in S` with U's names replaced by the components.  S must not be mutated by the loop bodies (no mutating
    method call or store rooted at S's base name)."""
    done = {}
    counter = [0]
    for f in index.all_functions():
        binds = {}
        for n in _own_walk(f.node):
            if isinstance(n, ast.Assign) and len(n.targets) == 1 and isinstance(n.targets[0], ast.Name):
                binds.setdefault(n.targets[0].id, []).append(n)
            elif isinstance(n, (ast.AugAssign, ast.AnnAssign, ast.For, ast.NamedExpr, ast.withitem, ast.comprehension, ast.Assign)):
                tg = n.targets if isinstance(n, ast.Assign) else [getattr(n, "target", None) or getattr(n, "optional_vars", None) or ast.Pass()]
                for t0 in tg:
                    for t in ast.walk(t0):
                        if isinstance(t, ast.Name) and isinstance(t.ctx, ast.Store):
                            binds.setdefault(t.id, []).append(None)
        for name, bs in list(binds.items()):
            if len(bs) != 1 or bs[0] is None:
                continue
            v = bs[0].value
            if not (isinstance(v, ast.ListComp) and len(v.generators) == 1 and not v.generators[0].ifs and not v.generators[0].is_async and
                    isinstance(v.elt, ast.Tuple) and len(v.elt.elts) >= 2 and _map_pure(v.elt) and _map_pure(v.generators[0].iter)):
                continue
            gen = v.generators[0]
            n_el = len(v.elt.elts)
            tnames = [t.id for t in ast.walk(gen.target) if isinstance(t, ast.Name)]
            loads = [n for n in ast.walk(f.node) if isinstance(n, ast.Name) and n.id == name and isinstance(n.ctx, ast.Load)]
            fors = [n for n in ast.walk(f.node) if isinstance(n, ast.For) and isinstance(n.iter, ast.Name) and n.iter.id == name]
            comps = [(c, g) for c in ast.walk(f.node) if isinstance(c, (ast.ListComp, ast.GeneratorExp, ast.SetComp))
                     for g in c.generators if isinstance(g.iter, ast.Name) and g.iter.id == name]
            if not loads or len(loads) != len(fors) + len(comps):
                continue

            def tuple_of_names(t):
                return isinstance(t, ast.Tuple) and len(t.elts) == n_el and all(isinstance(x, ast.Name) for x in t.elts)
            if not all(tuple_of_names(n.target) and not n.orelse for n in fors) or not all(tuple_of_names(g.target) and len(c.generators) == 1 for c, g in comps):
                continue
            root = gen.iter
            while isinstance(root, (ast.Attribute, ast.Subscript, ast.Call)):
                root = root.func if isinstance(root, ast.Call) else root.value
            rootname = root.id if isinstance(root, ast.Name) else None

            def mutates(body):
                for st in body:
                    for x in ast.walk(st):
                        if isinstance(x, (ast.Attribute, ast.Subscript)) and isinstance(x.ctx, (ast.Store, ast.Del)):
                            r = x
                            while isinstance(r, (ast.Attribute, ast.Subscript)):
                                r = r.value
                            if isinstance(r, ast.Name) and r.id == rootname:
                                return True
                        if isinstance(x, ast.Call) and isinstance(x.func, ast.Attribute) and x.func.attr in _MUTATORS:
                            r = x.func.value
                            while isinstance(r, (ast.Attribute, ast.Subscript, ast.Call)):
                                r = r.func if isinstance(r, ast.Call) else r.value
                            if isinstance(r, ast.Name) and r.id == rootname:
                                return True
                return False
            # the span between the binding and each loop must not touch S either: keep it simple -- the whole function
            if rootname is None or mutates(f.node.body):
                continue

            def fresh():
                counter[0] += 1
                k = counter[0]
                mp = {t: f"_r{k}_{t}" for t in tnames}

                class R(ast.NodeTransformer):
                    def visit_Name(self, node):
                        if node.id in mp:
                            return ast.copy_location(ast.Name(id=mp[node.id], ctx=node.ctx), node)
                        return node
                import copy
                return R().visit(copy.deepcopy(gen.target)), R().visit(copy.deepcopy(v.elt)), copy.deepcopy(gen.iter)
            for n in fors:
                tgt, elt, it = fresh()
                asg = ast.Assign(targets=[n.target], value=elt)
                n.target = tgt
                n.iter = it
                n.body = [ast.copy_location(asg, n.body[0])] + n.body
            for c, g in comps:
                tgt, elt, it = fresh()
                mp = {u.id: e_ for u, e_ in zip(g.target.elts, elt.elts) if u.id != "_"}

                class S2(ast.NodeTransformer):
                    def visit_Name(self, node):
                        if isinstance(node.ctx, ast.Load) and node.id in mp:
                            import copy
                            return copy.deepcopy(mp[node.id])
                        return node
                if isinstance(c, (ast.ListComp, ast.GeneratorExp, ast.SetComp)):
                    c.elt = S2().visit(c.elt)
                g.ifs = [S2().visit(x) for x in g.ifs]
                g.target = tgt
                g.iter = it
            # the list itself is no longer read
            for blk in ast.walk(f.node):
                for fld in ("body", "orelse", "finalbody"):
                    b = getattr(blk, fld, None)
                    if isinstance(b, list) and bs[0] in b:
                        b.remove(bs[0])
                        if not b:
                            b.append(ast.Pass())
            ast.fix_missing_locations(f.node)
            done.setdefault(f.site, []).append(name)
    return done


# ---- loops over a literal table of rows -------------------------------------------------------------------------------------------
def unroll_literal_tables(index):
    """`for a, b, c in ((A1, B1, C1), (A2, B2, C2), ...):` -- directly, or through a local bound once to that literal and used for
    nothing else -- is the body once per row with the targets replaced by the row's entries, in order.  Entries may be thunks
    (`lambda: E`): a call `a()` of such an entry is E.  Only for bodies without break / continue, tables of at most 12 rows whose
    entries are names, constants, attribute chains, f-strings or parameterless lambdas."""
    import copy
    done = {}

    def entry_ok(e):
        if isinstance(e, ast.Lambda):
            a = e.args
            return not (a.args or a.kwonlyargs or a.vararg or a.kwarg or a.posonlyargs)
        return isinstance(e, (ast.Name, ast.Constant, ast.Attribute, ast.JoinedStr))

    def table_of(e):
        if isinstance(e, (ast.Tuple, ast.List)) and 1 <= len(e.elts) <= 12 and all(isinstance(r, (ast.Tuple, ast.List)) for r in e.elts) and \
                len({len(r.elts) for r in e.elts}) == 1 and all(entry_ok(x) for r in e.elts for x in r.elts):
            return [list(r.elts) for r in e.elts]
        return None

    def module_table(f, name):
        """A module-level name bound exactly once, to a literal table, and never rebound by `global`."""
        tree = f.module.tree
        asg = [n for n in tree.body if isinstance(n, ast.Assign) and len(n.targets) == 1 and isinstance(n.targets[0], ast.Name) and
               n.targets[0].id == name]
        if len(asg) != 1 or any(isinstance(n, ast.Global) and name in n.names for n in ast.walk(tree)):
            return None
        return asg[0].value

    def enum_rows(f, e):
        """`for x in EnumClass:` visits the members in definition order."""
        if isinstance(e, ast.Name) and e.id in index.enums and isinstance(index.enums[e.id], dict) and 1 <= len(index.enums[e.id]) <= 12:
            return [[ast.Attribute(value=ast.Name(id=e.id, ctx=ast.Load()), attr=mname, ctx=ast.Load())] for mname in index.enums[e.id]]
        return None

    for f in index.all_functions():
        binds = {}
        for n in _own_walk(f.node):
            if isinstance(n, ast.Assign) and len(n.targets) == 1 and isinstance(n.targets[0], ast.Name):
                binds.setdefault(n.targets[0].id, []).append(n)
        changed = False
        for blk_owner in list(ast.walk(f.node)):
            for fld in ("body", "orelse", "finalbody"):
                blk = getattr(blk_owner, fld, None)
                if not isinstance(blk, list):
                    continue
                i = 0
                while i < len(blk):
                    st = blk[i]
                    i += 1
                    if isinstance(st, ast.For) and not st.orelse and isinstance(st.target, ast.Name):
                        # one name per row: `for x in (a, b, c)` / `for x in EnumClass`
                        one = enum_rows(f, st.iter)
                        if one is None and isinstance(st.iter, (ast.Tuple, ast.List)) and 1 <= len(st.iter.elts) <= 12 and \
                                all(isinstance(x, (ast.Name, ast.Constant, ast.Attribute)) for x in st.iter.elts):
                            one = [[x] for x in st.iter.elts]
                        if one is None:
                            continue
                        st.target = ast.Tuple(elts=[st.target], ctx=ast.Store())
                        st.iter = ast.Tuple(elts=[ast.Tuple(elts=r, ctx=ast.Load()) for r in one], ctx=ast.Load())
                    if not (isinstance(st, ast.For) and not st.orelse and isinstance(st.target, ast.Tuple) and
                            all(isinstance(t, ast.Name) for t in st.target.elts)):
                        continue
                    # a leading `if c: continue` guards the rest of the body
                    while st.body and isinstance(st.body[0], ast.If) and not st.body[0].orelse and len(st.body[0].body) == 1 and \
                            isinstance(st.body[0].body[0], ast.Continue) and len(st.body) > 1 and \
                            not any(isinstance(x, (ast.Break, ast.Continue)) for b in st.body[1:] for x in ast.walk(b)):
                        g_ = st.body[0]
                        st.body = [ast.copy_location(ast.If(test=ast.UnaryOp(op=ast.Not(), operand=g_.test), body=st.body[1:], orelse=[]), g_)]
                    rows, via = table_of(st.iter), None
                    if rows is None and isinstance(st.iter, ast.Name) and st.iter.id not in binds and st.iter.id not in f.params:
                        mt = module_table(f, st.iter.id)
                        if mt is not None:
                            rows = table_of(mt)
                    if rows is None and isinstance(st.iter, ast.Name) and len(binds.get(st.iter.id, ())) == 1:
                        rows, via = table_of(binds[st.iter.id][0].value), st.iter.id
                        uses = [n for n in ast.walk(f.node) if isinstance(n, ast.Name) and n.id == via and isinstance(n.ctx, ast.Load)]
                        if len(uses) != 1:
                            rows = None
                    if rows is None or len(rows[0]) != len(st.target.elts):
                        continue
                    if any(isinstance(x, (ast.Break, ast.Continue)) for b in st.body for x in ast.walk(b)):
                        continue
                    tnames = [t.id for t in st.target.elts]
                    if any(isinstance(x, ast.Name) and x.id in tnames and isinstance(x.ctx, ast.Store) for b in st.body for x in ast.walk(b)):
                        continue
                    out = []
                    for row in rows:
                        mp = dict(zip(tnames, row))

                        class S(ast.NodeTransformer):
                            def visit_Call(self, node):
                                if isinstance(node.func, ast.Name) and node.func.id in mp and isinstance(mp[node.func.id], ast.Lambda) and \
                                        not node.args and not node.keywords:
                                    return copy.deepcopy(mp[node.func.id].body)
                                self.generic_visit(node)
                                return node

                            def visit_Name(self, node):
                                if isinstance(node.ctx, ast.Load) and node.id in mp:
                                    return copy.deepcopy(mp[node.id])
                                return node
                        for b in st.body:
                            out.append(S().visit(copy.deepcopy(b)))
                    blk[i - 1:i] = out
                    i = i - 1 + len(out)
                    changed = True
                    if via is not None:
                        asg = binds[via][0]
                        for o2 in ast.walk(f.node):
                            for fld2 in ("body", "orelse", "finalbody"):
                                b2 = getattr(o2, fld2, None)
                                if isinstance(b2, list) and asg in b2:
                                    if b2 is blk and b2.index(asg) < i:
                                        i -= 1
                                    b2.remove(asg)
                                    if not b2:
                                        b2.append(ast.Pass())
                    done[f.site] = done.get(f.site, 0) + 1
        if changed:
            ast.fix_missing_locations(f.node)
    return done


# ---- enumeration members compared with each other --------------------------------------------------------------------------------
def fold_enum_constants(index):
    """After a loop over an enumeration (or a table of members) has been unrolled, its body compares *constants*: `Feature.ERR ==
    Feature.RTY` is False, `Feature.ERR in (Feature.ERR, Feature.RTY)` is True, `Feature.ERR.value` is "err".  Such tests are
    folded, `if` statements with a constant test keep the arm that runs, `not (a not in b)` is `a in b`."""
    done = {}

    def member(e):
        if isinstance(e, ast.Attribute) and isinstance(e.value, ast.Name) and isinstance(index.enums.get(e.value.id), dict) and \
                e.attr in index.enums[e.value.id]:
            return (e.value.id, e.attr)
        return None

    class F(ast.NodeTransformer):
        def __init__(self):
            self.n = 0

        def visit_Attribute(self, node):
            self.generic_visit(node)
            if node.attr == "value" and isinstance(node.ctx, ast.Load):
                m_ = member(node.value)
                if m_ is not None:
                    v = index.enums[m_[0]][m_[1]]
                    if isinstance(v, (str, int)) and not isinstance(v, bool):
                        self.n += 1
                        return ast.copy_location(ast.Constant(value=v), node)
            return node

        def visit_Compare(self, node):
            self.generic_visit(node)
            if len(node.ops) != 1:
                return node
            a, op, b = member(node.left), node.ops[0], node.comparators[0]
            if a is not None and member(b) is not None and isinstance(op, (ast.Eq, ast.NotEq, ast.Is, ast.IsNot)):
                same = a == member(b)
                self.n += 1
                return ast.copy_location(ast.Constant(value=same if isinstance(op, (ast.Eq, ast.Is)) else not same), node)
            if a is not None and isinstance(op, (ast.In, ast.NotIn)) and isinstance(b, (ast.Tuple, ast.List, ast.Set)) and b.elts and \
                    all(member(x) is not None for x in b.elts):
                inside = any(member(x) == a for x in b.elts)
                self.n += 1
                return ast.copy_location(ast.Constant(value=inside if isinstance(op, ast.In) else not inside), node)
            return node

        def visit_UnaryOp(self, node):
            self.generic_visit(node)
            if isinstance(node.op, ast.Not):
                o = node.operand
                if isinstance(o, ast.Constant) and isinstance(o.value, bool):
                    return ast.copy_location(ast.Constant(value=not o.value), node)
                if isinstance(o, ast.Compare) and len(o.ops) == 1 and isinstance(o.ops[0], ast.NotIn):
                    return ast.copy_location(ast.Compare(left=o.left, ops=[ast.In()], comparators=o.comparators), node)
            return node

        def visit_BoolOp(self, node):
            self.generic_visit(node)
            is_or = isinstance(node.op, ast.Or)
            vals = []
            for v in node.values:
                if isinstance(v, ast.Constant) and isinstance(v.value, bool):
                    if v.value == is_or:
                        return ast.copy_location(ast.Constant(value=is_or), node)      # True in an `or`, False in an `and`
                    continue
                vals.append(v)
            if not vals:
                return ast.copy_location(ast.Constant(value=not is_or), node)
            if len(vals) == 1:
                return vals[0]
            node.values = vals
            return node

    def prune(stmts):
        out = []
        for st in stmts:
            for fld in ("body", "orelse", "finalbody"):
                b = getattr(st, fld, None)
                if isinstance(b, list) and b and isinstance(b[0], ast.stmt) and not isinstance(st, (ast.FunctionDef, ast.ClassDef)):
                    setattr(st, fld, prune(b) or ([ast.copy_location(ast.Pass(), st)] if fld == "body" else []))
            if isinstance(st, ast.If) and isinstance(st.test, ast.Constant) and isinstance(st.test.value, bool):
                out.extend(st.body if st.test.value else st.orelse)
            else:
                out.append(st)
        return out
    for f in index.all_functions():
        t = F()
        t.visit(f.node)
        if t.n:
            f.node.body = prune(f.node.body) or [ast.Pass()]
            ast.fix_missing_locations(f.node)
            done[f.site] = t.n
    return done


# ---- D.update(<pairs>) ------------------------------------------------------------------------------------------------------------
def desugar_update_generators(index):
    """`D.update((K, V) for T in S if C)` as a statement (also with a list / dict comprehension `{K: V for ...}`) stores the pairs one
    by one, in order: `for T in S: if C: D[K] = V`."""
    import copy
    done = {}
    for f in index.all_functions():
        k = 0
        # {..., **{K: V for x in (a, b, c)}, ...}: the comprehension over a literal display, entry by entry
        for d in [n for n in ast.walk(f.node) if isinstance(n, ast.Dict)]:
            keys, vals = [], []
            hit = False
            for kk, vv in zip(d.keys, d.values):
                if kk is None and isinstance(vv, ast.DictComp) and len(vv.generators) == 1 and not vv.generators[0].ifs and \
                        isinstance(vv.generators[0].target, ast.Name) and isinstance(vv.generators[0].iter, (ast.Tuple, ast.List)) and \
                        1 <= len(vv.generators[0].iter.elts) <= 12 and \
                        all(isinstance(x, (ast.Constant, ast.Name, ast.Attribute)) for x in vv.generators[0].iter.elts):
                    var = vv.generators[0].target.id
                    for x in vv.generators[0].iter.elts:
                        sub = _Subst({var: x}, {})
                        keys.append(sub.visit(copy.deepcopy(vv.key)))
                        vals.append(sub.visit(copy.deepcopy(vv.value)))
                    hit = True
                else:
                    keys.append(kk)
                    vals.append(vv)
            if hit:
                d.keys, d.values = keys, vals
                k += 1
        for owner in list(ast.walk(f.node)):
            for fld in ("body", "orelse", "finalbody"):
                blk = getattr(owner, fld, None)
                if not isinstance(blk, list):
                    continue
                for i, st in enumerate(list(blk)):
                    if not (isinstance(st, ast.Expr) and isinstance(st.value, ast.Call) and isinstance(st.value.func, ast.Attribute) and
                            st.value.func.attr == "update" and len(st.value.args) == 1 and not st.value.keywords):
                        continue
                    g = st.value.args[0]
                    if isinstance(g, (ast.GeneratorExp, ast.ListComp)) and isinstance(g.elt, ast.Tuple) and len(g.elt.elts) == 2:
                        key, val = g.elt.elts
                    elif isinstance(g, ast.DictComp):
                        key, val = g.key, g.value
                    else:
                        continue
                    if len(g.generators) != 1 or g.generators[0].is_async:
                        continue
                    gen = g.generators[0]
                    if not isinstance(gen.iter, (ast.Name, ast.Tuple, ast.List)):
                        continue                        # only tables; views of dictionaries etc. are read by the rules themselves
                    bound = {n.id for n in ast.walk(gen.target) if isinstance(n, ast.Name)}
                    inside = {id(n) for n in ast.walk(g)}
                    if any(isinstance(n, ast.Name) and n.id in bound and id(n) not in inside for n in ast.walk(f.node)):
                        continue
                    body = [ast.Assign(targets=[ast.Subscript(value=st.value.func.value, slice=key, ctx=ast.Store())], value=val)]
                    for cond in reversed(gen.ifs):
                        body = [ast.If(test=cond, body=body, orelse=[])]
                    loop = ast.For(target=gen.target, iter=gen.iter, body=body, orelse=[], type_comment=None)
                    ast.copy_location(loop, st)
                    for n in ast.walk(loop):
                        if isinstance(n, ast.Name) and n.id in bound and isinstance(n.ctx, ast.Load) and False:
                            pass
                    # the comprehension's targets are stores now
                    for n in ast.walk(loop.target):
                        if isinstance(n, (ast.Name, ast.Tuple, ast.List)):
                            n.ctx = ast.Store()
                    blk[blk.index(st)] = loop
                    k += 1
        if k:
            ast.fix_missing_locations(f.node)
            done[f.site] = k
    return done


# ---- zip of a sequence with a list mapped from it -----------------------------------------------------------------------------------
def unzip_mapped_lists(index):
    """`L = [E(x) for x in S]` (one generator, no filter; bound once) and later `for a, x in zip(L, S):` (or `zip(S, L)`) with S spelled
    the same and not rebound in between: element k of L is E of element k of S, so the loop is `for x in S: a = E(x)`."""
    import copy
    done = {}
    for f in index.all_functions():
        binds = {}
        for n in _own_walk(f.node):
            if isinstance(n, ast.Assign) and len(n.targets) == 1 and isinstance(n.targets[0], ast.Name):
                binds.setdefault(n.targets[0].id, []).append(n.value)
        k = 0
        for loop in [n for n in ast.walk(f.node) if isinstance(n, ast.For)]:
            it = loop.iter
            if not (isinstance(it, ast.Call) and isinstance(it.func, ast.Name) and it.func.id == "zip" and len(it.args) == 2 and not it.keywords and
                    isinstance(loop.target, ast.Tuple) and len(loop.target.elts) == 2):
                continue
            for li, si in ((0, 1), (1, 0)):
                L, S = it.args[li], it.args[si]
                if not (isinstance(L, ast.Name) and len(binds.get(L.id, ())) == 1 and isinstance(binds[L.id][0], ast.ListComp)):
                    continue
                comp = binds[L.id][0]
                if len(comp.generators) != 1 or comp.generators[0].ifs or ast.dump(comp.generators[0].iter) != ast.dump(S):
                    continue
                ct, lt = comp.generators[0].target, loop.target.elts[si]
                # map the comprehension's target names onto the loop's, position by position
                mp, ok = {}, True

                def pair(a, b):
                    nonlocal ok
                    if isinstance(a, ast.Name):
                        if a.id != "_":
                            if isinstance(b, ast.Name) and b.id != "_":
                                mp[a.id] = ast.Name(id=b.id, ctx=ast.Load())
                            else:
                                ok = False
                    elif isinstance(a, (ast.Tuple, ast.List)) and isinstance(b, (ast.Tuple, ast.List)) and len(a.elts) == len(b.elts):
                        for x, y in zip(a.elts, b.elts):
                            pair(x, y)
                    else:
                        ok = False
                pair(ct, lt)
                used = {n.id for n in ast.walk(comp.elt) if isinstance(n, ast.Name)}
                bound_c = {n.id for n in ast.walk(ct) if isinstance(n, ast.Name)}
                if not ok or (used & bound_c) - set(mp):
                    continue
                val = _Subst(mp, {}).visit(copy.deepcopy(comp.elt))
                first = ast.Assign(targets=[loop.target.elts[li]], value=val)
                ast.copy_location(first, loop)
                loop.target = lt
                loop.iter = S
                loop.body.insert(0, first)
                k += 1
                break
        if k:
            ast.fix_missing_locations(f.node)
            done[f.site] = k
    return done


# ---- one If per value of a signal -------------------------------------------------------------------------------------------------
def switch_for_equality_loops(index):
    """`for i in <values>: with m.If(S == i): BODY` -- the loop body is that one block, S does not depend on `i`, and the values of a
    `range` / `enumerate` are pairwise different -- selects by the value of S exactly like `with m.Switch(S): for i in <values>: with
    m.Case(i): BODY` (at most one block is active; inside it, later statements still win)."""
    import copy
    done = {}
    for f in index.all_functions():
        k = 0

        def walk(stmts):
            nonlocal k
            for i_, st in enumerate(list(stmts)):
                for fld in ("body", "orelse", "finalbody"):
                    b = getattr(st, fld, None)
                    if isinstance(b, list) and b and isinstance(b[0], ast.stmt) and not isinstance(st, (ast.FunctionDef, ast.ClassDef)):
                        walk(b)
                if not (isinstance(st, ast.For) and not st.orelse and len(st.body) == 1 and isinstance(st.body[0], ast.With)):
                    continue
                w = st.body[0]
                if len(w.items) != 1 or w.items[0].optional_vars is not None:
                    continue
                call = w.items[0].context_expr
                if not (isinstance(call, ast.Call) and isinstance(call.func, ast.Attribute) and call.func.attr == "If" and len(call.args) == 1 and
                        not call.keywords and isinstance(call.args[0], ast.Compare) and len(call.args[0].ops) == 1 and
                        isinstance(call.args[0].ops[0], ast.Eq)):
                    continue
                # the loop variable: the target itself, or the index of an enumerate
                it = st.iter
                if isinstance(st.target, ast.Name) and isinstance(it, ast.Call) and isinstance(it.func, ast.Name) and it.func.id == "range":
                    var = st.target.id
                elif isinstance(st.target, ast.Tuple) and st.target.elts and isinstance(st.target.elts[0], ast.Name) and isinstance(it, ast.Call) and \
                        isinstance(it.func, ast.Name) and it.func.id == "enumerate":
                    var = st.target.elts[0].id
                else:
                    continue
                a, b = call.args[0].left, call.args[0].comparators[0]
                if isinstance(b, ast.Name) and b.id == var:
                    subj = a
                elif isinstance(a, ast.Name) and a.id == var:
                    subj = b
                else:
                    continue
                bound = {n.id for n in ast.walk(st.target) if isinstance(n, ast.Name)}
                if any(isinstance(n, ast.Name) and n.id in bound for n in ast.walk(subj)):
                    continue
                mod = call.func.value
                case = ast.With(items=[ast.withitem(context_expr=ast.Call(func=ast.Attribute(value=copy.deepcopy(mod), attr="Case", ctx=ast.Load()),
                                                                         args=[ast.Name(id=var, ctx=ast.Load())], keywords=[]))], body=w.body)
                st.body = [case]
                sw = ast.With(items=[ast.withitem(context_expr=ast.Call(func=ast.Attribute(value=copy.deepcopy(mod), attr="Switch", ctx=ast.Load()),
                                                                       args=[subj], keywords=[]))], body=[st])
                ast.copy_location(sw, st)
                stmts[stmts.index(st)] = sw
                k += 1
        walk(f.node.body)
        if k:
            ast.fix_missing_locations(f.node)
            done[f.site] = k
    return done


# ---- temporaries used once, in the next statement --------------------------------------------------------------------------------
def inline_single_use_temporaries(index):
    """`t = E` followed immediately by a statement that reads `t` exactly once -- in its own header or expression, not inside a
    loop body, comprehension or lambda of that statement -- with `t` occurring nowhere else in the function, and E free of mutating
    calls: the statement with E in place of `t`."""
    import copy
    done = {}
    BAD_CALLS = set(_MUTATORS) | {"freeze", "assign", "insert", "next", "send"}

    def header_nodes(st):
        """Expression nodes of a statement that are evaluated once when the statement is reached (not its nested blocks)."""
        if isinstance(st, (ast.If, ast.While)):
            roots = [st.test] if isinstance(st, ast.If) else []
        elif isinstance(st, (ast.For, ast.AsyncFor)):
            roots = [st.iter]
        elif isinstance(st, (ast.With, ast.AsyncWith)):
            roots = [i.context_expr for i in st.items]
        elif isinstance(st, (ast.FunctionDef, ast.AsyncFunctionDef, ast.ClassDef, ast.Try)):
            roots = []
        else:
            roots = [st]
        out = []
        for r in roots:
            stack = [r]
            while stack:
                n = stack.pop()
                out.append(n)
                for ch in ast.iter_child_nodes(n):
                    if isinstance(ch, (ast.Lambda, ast.ListComp, ast.SetComp, ast.DictComp, ast.GeneratorExp)):
                        continue
                    if isinstance(n, ast.BoolOp) and ch is not n.values[0]:
                        continue                        # evaluated conditionally
                    if isinstance(n, ast.IfExp) and ch is not n.test:
                        continue
                    stack.append(ch)
        return out

    def rewrite(stmts, f, counts):
        k = 0
        i = 0
        while i + 1 < len(stmts):
            a, b = stmts[i], stmts[i + 1]
            for st in (a,):
                for fld in ("body", "orelse", "finalbody"):
                    blk = getattr(st, fld, None)
                    if isinstance(blk, list) and blk and isinstance(blk[0], ast.stmt) and not isinstance(st, (ast.FunctionDef, ast.ClassDef)):
                        k += rewrite(blk, f, counts)
            if isinstance(a, ast.Assign) and len(a.targets) == 1 and isinstance(a.targets[0], ast.Name) and a.targets[0].id in counts and \
                    (counts[a.targets[0].id] == (1, 1) or a.targets[0].id in multi):
                name = a.targets[0].id
                uses = [n for n in header_nodes(b) if isinstance(n, ast.Name) and n.id == name and isinstance(n.ctx, ast.Load)]
                impure = any(isinstance(x, (ast.Yield, ast.YieldFrom, ast.Await, ast.NamedExpr)) or
                             (isinstance(x, ast.Call) and isinstance(x.func, ast.Attribute) and x.func.attr in BAD_CALLS) or
                             (isinstance(x, ast.Call) and isinstance(x.func, ast.Name) and x.func.id in ("Signal", "Module", "next", "iter"))
                             for x in ast.walk(a.value))
                # values built by comprehensions have their own later desugarings (sum / extend / yield from): they keep their statement
                comp = isinstance(a.value, (ast.ListComp, ast.DictComp, ast.SetComp, ast.GeneratorExp)) or (
                    isinstance(a.value, ast.Call) and any(isinstance(x, (ast.ListComp, ast.DictComp, ast.SetComp, ast.GeneratorExp))
                                                          for x in list(a.value.args) + [k_.value for k_ in a.value.keywords]))
                if len(uses) == 1 and not impure and not comp and not isinstance(a.value, (ast.List, ast.Dict, ast.Set)):
                    u = uses[0]

                    class R(ast.NodeTransformer):
                        def visit_Name(self, n):
                            if n is u:
                                return ast.copy_location(copy.deepcopy(a.value), n)
                            return n
                    if isinstance(b, (ast.If, ast.While)):
                        b.test = R().visit(b.test)
                    elif isinstance(b, (ast.For, ast.AsyncFor)):
                        b.iter = R().visit(b.iter)
                    elif isinstance(b, (ast.With, ast.AsyncWith)):
                        for it in b.items:
                            it.context_expr = R().visit(it.context_expr)
                    else:
                        stmts[i + 1] = R().visit(b)
                    del stmts[i]
                    k += 1
                    continue
            i += 1
        if stmts:
            st = stmts[-1]
            for fld in ("body", "orelse", "finalbody"):
                blk = getattr(st, fld, None)
                if isinstance(blk, list) and blk and isinstance(blk[0], ast.stmt) and not isinstance(st, (ast.FunctionDef, ast.ClassDef)):
                    k += rewrite(blk, f, counts)
            if isinstance(st, ast.Try):
                for h in st.handlers:
                    k += rewrite(h.body, f, counts)
        return k
    multi = set()

    def adjacent_pairs(stmts, acc):
        """names -> number of `t = E` statements directly followed by a statement whose header reads t exactly once"""
        for i_, st in enumerate(stmts):
            for fld in ("body", "orelse", "finalbody"):
                blk = getattr(st, fld, None)
                if isinstance(blk, list) and blk and isinstance(blk[0], ast.stmt) and not isinstance(st, (ast.FunctionDef, ast.ClassDef)):
                    adjacent_pairs(blk, acc)
            if isinstance(st, ast.Try):
                for h in st.handlers:
                    adjacent_pairs(h.body, acc)
            if isinstance(st, ast.Assign) and len(st.targets) == 1 and isinstance(st.targets[0], ast.Name) and i_ + 1 < len(stmts):
                nm = st.targets[0].id
                uses = [n for n in header_nodes(stmts[i_ + 1]) if isinstance(n, ast.Name) and n.id == nm and isinstance(n.ctx, ast.Load)]
                if len(uses) == 1:
                    acc[nm] = acc.get(nm, 0) + 1
    for f in index.all_functions():
        stores, loads = {}, {}
        for n in ast.walk(f.node):
            if isinstance(n, ast.Name):
                d = stores if isinstance(n.ctx, (ast.Store, ast.Del)) else loads
                d[n.id] = d.get(n.id, 0) + 1
        counts = {nm: (stores.get(nm, 0), loads.get(nm, 0)) for nm in stores}
        for nm in list(counts):
            if nm in f.params:
                counts.pop(nm)
        # a name bound several times (an unrolled loop's flag): every binding is a plain assignment followed at once by its only use
        pairs = {}
        adjacent_pairs(f.node.body, pairs)
        plain = {}
        for n in ast.walk(f.node):
            if isinstance(n, ast.Assign) and len(n.targets) == 1 and isinstance(n.targets[0], ast.Name):
                plain[n.targets[0].id] = plain.get(n.targets[0].id, 0) + 1
        multi.clear()
        multi.update(nm for nm, (ns, nl) in counts.items() if ns > 1 and ns == nl == pairs.get(nm, 0) == plain.get(nm, 0))
        k = rewrite(f.node.body, f, counts)
        if k:
            ast.fix_missing_locations(f.node)
            done[f.site] = k
    return done


# ---- local names for attributes of the instance -----------------------------------------------------------------------------------
def inline_attribute_aliases(index):
    """`x = self.a.b` at the top level of a method body, `x` bound nowhere else, and neither `self.a` nor `self.a.b` rebound in the
    function (nor `self.a` anywhere in the class outside `__init__`): `x` is another spelling of `self.a.b`.  Every read of `x`
    becomes the attribute chain and the assignment disappears.  (Mutating the object the chain names is not rebinding it.)"""
    import copy
    done = {}

    def chain(e):
        parts = []
        while isinstance(e, ast.Attribute):
            parts.append(e.attr)
            e = e.value
        if isinstance(e, ast.Name) and e.id == "self" and parts:
            return tuple(reversed(parts))
        return None
    for m in index.modules.values():
        for cls in m.all_classes():
            methods = [f for fs in cls.methods.values() for f in fs]
            rebound = set()                              # first attributes assigned outside __init__
            for f in methods:
                if f.name == "__init__":
                    continue
                for n in ast.walk(f.node):
                    if isinstance(n, ast.Attribute) and isinstance(n.ctx, (ast.Store, ast.Del)) and isinstance(n.value, ast.Name) and n.value.id == "self":
                        rebound.add(n.attr)
            for f in methods:
                if f.name in ("__init__", "__new__") or not f.params or f.params[0] != "self":
                    continue
                k = 0
                for st in list(f.node.body):
                    if not (isinstance(st, ast.Assign) and len(st.targets) == 1 and isinstance(st.targets[0], ast.Name)):
                        continue
                    ch = chain(st.value)
                    if ch is None or ch[0] in rebound or cls.method(ch[-1]) is not None and len(ch) == 1 and "property" not in cls.method(ch[-1]).decorators:
                        continue
                    name = st.targets[0].id
                    if name in f.params:
                        continue
                    stores = [n for n in ast.walk(f.node) if isinstance(n, ast.Name) and n.id == name and isinstance(n.ctx, (ast.Store, ast.Del))]
                    if len(stores) != 1 or any(isinstance(n, (ast.Global, ast.Nonlocal)) and name in n.names for n in ast.walk(f.node)):
                        continue
                    if any(isinstance(n, ast.arg) and n.arg == name for n in ast.walk(f.node)):
                        continue
                    # no prefix of the chain is rebound in this function
                    bad = False
                    for n in ast.walk(f.node):
                        if isinstance(n, ast.Attribute) and isinstance(n.ctx, (ast.Store, ast.Del)):
                            c2 = chain(n)
                            if c2 is not None and ch[:len(c2)] == c2:
                                bad = True
                    # every read comes after the binding (textually, at or below the top level)
                    loads = [n for n in ast.walk(f.node) if isinstance(n, ast.Name) and n.id == name and isinstance(n.ctx, ast.Load)]
                    if bad or not loads or any((n.lineno, n.col_offset) < (st.lineno, st.col_offset) for n in loads):
                        continue

                    class R(ast.NodeTransformer):
                        def visit_Name(self, n):
                            if n.id == name and isinstance(n.ctx, ast.Load):
                                return ast.copy_location(copy.deepcopy(st.value), n)
                            return n
                    f.node.body.remove(st)
                    for i_, s2 in enumerate(f.node.body):
                        f.node.body[i_] = R().visit(s2)
                    k += 1
                if k:
                    if not f.node.body:
                        f.node.body.append(ast.Pass())
                    ast.fix_missing_locations(f.node)
                    done[f.site] = k
    return done


# ---- loop items unpacked in the body -----------------------------------------------------------------------------------------------
def fold_loop_unpacking(index):
    """`for item in X:` whose first statement is `a, (b, c) = item` and which uses `item` nowhere else is `for a, (b, c) in X:`
    (a name may serve several such loops, nested or in sequence, as long as it serves nothing else)."""
    done = {}
    for f in index.all_functions():
        inst = []
        for loop in [n for n in ast.walk(f.node) if isinstance(n, (ast.For, ast.AsyncFor))]:
            if not isinstance(loop.target, ast.Name) or len(loop.body) < 2:
                continue
            st = loop.body[0]
            if isinstance(st, ast.Assign) and len(st.targets) == 1 and isinstance(st.targets[0], (ast.Tuple, ast.List)) and \
                    isinstance(st.value, ast.Name) and st.value.id == loop.target.id:
                inst.append((loop, st))
        if not inst:
            continue
        own = {id(l.target) for l, st in inst} | {id(st.value) for l, st in inst}
        spoiled = {n.id for n in ast.walk(f.node) if isinstance(n, ast.Name) and id(n) not in own}
        k = 0
        for loop, st in inst:
            if loop.target.id in spoiled:
                continue
            loop.target = st.targets[0]
            del loop.body[0]
            k += 1
        if k:
            ast.fix_missing_locations(f.node)
            done[f.site] = k
    return done


# ---- lazily filled instance memos ------------------------------------------------------------------------------------------------
def inline_lazy_attr_memos(index):
    """`self._m = None` in __init__; in one method `if self._m is None: self._m = E` (E possibly chosen by nested ifs) and then reads of
    `self._m`; every other store in the class is `self._m = None`.  When nothing that E reads from the instance is written outside
    __init__ without also dropping the memo, `self._m` is E wherever it is read: the test disappears, the stores become a local and
    the reads use it."""
    import copy
    done = {}

    def is_none_test(t, attr):
        return isinstance(t, ast.Compare) and len(t.ops) == 1 and isinstance(t.ops[0], ast.Is) and _self_attr(t.left) and t.left.attr == attr and \
            isinstance(t.comparators[0], ast.Constant) and t.comparators[0].value is None

    def all_paths_assign(body, attr):
        for st in body:
            if isinstance(st, ast.Assign) and len(st.targets) == 1 and _self_attr(st.targets[0]) and st.targets[0].attr == attr:
                return True
            if isinstance(st, ast.If) and st.orelse and all_paths_assign(st.body, attr) and all_paths_assign(st.orelse, attr):
                return True
        return False
    for m in index.modules.values():
        for cls in m.all_classes():
            init = cls.method("__init__")
            if init is None:
                continue
            methods = [f for fs in cls.methods.values() for f in fs]
            memo_attrs = {st.targets[0].attr for st in _own_walk(init.node)
                          if isinstance(st, ast.Assign) and len(st.targets) == 1 and _self_attr(st.targets[0]) and
                          isinstance(st.value, ast.Constant) and st.value.value is None}
            for attr in sorted(memo_attrs):
                stores = [(f, st) for f in methods for st in ast.walk(f.node)
                          if isinstance(st, (ast.Assign, ast.AugAssign, ast.AnnAssign)) and
                          any(_self_attr(t) and t.attr == attr for t in (st.targets if isinstance(st, ast.Assign) else [st.target]))]
                fills = [(f, st) for f, st in stores if not (isinstance(st, ast.Assign) and isinstance(st.value, ast.Constant) and st.value.value is None)]
                homes = {f for f, _ in fills}
                if len(homes) != 1:
                    continue
                g = next(iter(homes))
                if g is init or any(isinstance(n, (ast.Yield,)) and False for n in ast.walk(g.node)):
                    continue
                tests = [st for st in g.node.body if isinstance(st, ast.If) and is_none_test(st.test, attr) and not st.orelse]
                if len(tests) != 1 or not all_paths_assign(tests[0].body, attr):
                    continue
                T = tests[0]
                if any(st for f, st in fills if not any(x is st for x in ast.walk(T))):
                    continue
                loads = [(f, n) for f in methods for n in ast.walk(f.node)
                         if _self_attr(n) and n.attr == attr and isinstance(n.ctx, ast.Load) and not any(x is n for x in ast.walk(T.test))]
                if not loads or any(f is not g for f, n in loads):
                    continue
                ti = g.node.body.index(T)
                if any(any(x is n for x in ast.walk(st)) for st in g.node.body[:ti] for f, n in loads):
                    continue
                # what the filled value reads from the instance (through plain properties and locals bound before the test)
                inputs = set()
                local_src = {}
                for st in g.node.body[:ti]:
                    if isinstance(st, ast.Assign) and len(st.targets) == 1 and isinstance(st.targets[0], ast.Name):
                        local_src[st.targets[0].id] = st.value
                todo = [x for st in T.body for x in ast.walk(st)]
                seen = set()
                while todo:
                    x = todo.pop()
                    if isinstance(x, ast.Name) and x.id in local_src and x.id not in seen:
                        seen.add(x.id)
                        todo.extend(ast.walk(local_src[x.id]))
                    if _self_attr(x) and x.attr != attr:
                        # a property or a method of the class: everything it reads from the instance, transitively
                        pend, seen_m = [x.attr], set()
                        while pend:
                            nm = pend.pop()
                            if nm in seen_m:
                                continue
                            seen_m.add(nm)
                            inputs.add(nm)
                            for h in cls.methods.get(nm, ()):
                                for y in ast.walk(h.node):
                                    if _self_attr(y):
                                        pend.append(y.attr)
                coherent = True
                for f in methods:
                    if f is init or f is g:
                        continue
                    writes = set()
                    for n in ast.walk(f.node):
                        tg = []
                        if isinstance(n, ast.Assign):
                            tg = n.targets
                        elif isinstance(n, (ast.AugAssign, ast.AnnAssign)):
                            tg = [n.target]
                        elif isinstance(n, ast.Call) and isinstance(n.func, ast.Attribute) and n.func.attr in _MUTATORS:
                            tg = [n.func.value]
                        for t in tg:
                            e = t
                            while isinstance(e, ast.Subscript):
                                e = e.value
                            if _self_attr(e):
                                writes.add(e.attr)
                    if writes & inputs and not any(h is f for h, st in stores):
                        coherent = False
                if not coherent:
                    continue
                local = f"__lazy_{attr.lstrip('_')}"

                class R(ast.NodeTransformer):
                    def visit_Attribute(self, node):
                        self.generic_visit(node)
                        if _self_attr(node) and node.attr == attr:
                            return ast.copy_location(ast.Name(id=local, ctx=node.ctx), node)
                        return node
                new_body = [R().visit(st) for st in T.body]
                rest = [R().visit(st) for st in g.node.body[ti + 1:]]
                # `<local> = E` in every arm and then nothing but `yield from <local>`: each arm yields from its own E
                uses = [n for st in rest for n in ast.walk(st) if isinstance(n, ast.Name) and n.id == local]
                if len(rest) == 1 and len(uses) == 1 and isinstance(rest[0], ast.Expr) and isinstance(rest[0].value, ast.YieldFrom) and \
                        rest[0].value.value is uses[0]:
                    def push(stmts):
                        for i_, st in enumerate(list(stmts)):
                            if isinstance(st, ast.If):
                                push(st.body)
                                push(st.orelse)
                            elif isinstance(st, ast.Assign) and len(st.targets) == 1 and isinstance(st.targets[0], ast.Name) and st.targets[0].id == local:
                                e = st.value
                                while isinstance(e, ast.Call) and isinstance(e.func, ast.Name) and e.func.id in ("tuple", "list") and len(e.args) == 1 and \
                                        not e.keywords and not isinstance(e.args[0], (ast.GeneratorExp, ast.ListComp)):
                                    e = e.args[0]               # a materialised copy yields the same elements
                                if isinstance(e, (ast.Tuple, ast.List)) and not any(isinstance(x, ast.Starred) for x in e.elts):
                                    outs = [ast.copy_location(ast.Expr(value=ast.Yield(value=x)), st) for x in e.elts] or [ast.copy_location(ast.Pass(), st)]
                                else:
                                    outs = [ast.copy_location(ast.Expr(value=ast.YieldFrom(value=e)), st)]
                                stmts[i_:i_ + 1] = outs
                    push(new_body)
                    rest = []
                g.node.body[ti:] = new_body + rest
                ast.fix_missing_locations(g.node)
                done[g.site] = attr
    return done


# ---- guards that only skip work on nothing ---------------------------------------------------------------------------------------
def drop_zero_width_guards(index):
    """`if len(X) > 0: <stmt>` (no else) where <stmt> does nothing when X has no bits: an assignment *to* X (`m.d.comb += X.eq(...)`:
    a zero-width target takes no value) or an OR-accumulation of a term that is 0 when X is empty (`acc |= Mux(s, X, 0)`, `acc |= X`,
    `acc |= X & ...`, `acc |= X.any()`).  The guard changes nothing that can be observed; the statement is hoisted out of it."""
    done = {}

    def nonempty_test(t):
        """-> the expression X when the test is true exactly for len(X) != 0."""
        if isinstance(t, ast.Call) and isinstance(t.func, ast.Name) and t.func.id == "len" and len(t.args) == 1:
            return t.args[0]
        if isinstance(t, ast.Compare) and len(t.ops) == 1:
            a, op, b = t.left, t.ops[0], t.comparators[0]
            def ln(e):
                return e.args[0] if isinstance(e, ast.Call) and isinstance(e.func, ast.Name) and e.func.id == "len" and len(e.args) == 1 else None
            def k(e):
                return e.value if isinstance(e, ast.Constant) and isinstance(e.value, int) and not isinstance(e.value, bool) else None
            if ln(a) is not None and k(b) is not None and (type(op).__name__, k(b)) in (("Gt", 0), ("GtE", 1), ("NotEq", 0)):
                return ln(a)
            if ln(b) is not None and k(a) is not None and (type(op).__name__, k(a)) in (("Lt", 0), ("LtE", 1), ("NotEq", 0)):
                return ln(b)
        return None

    def vanishes(e, x):
        if ast.dump(e) == x:
            return True
        if isinstance(e, ast.BinOp) and isinstance(e.op, ast.BitAnd):
            return vanishes(e.left, x) or vanishes(e.right, x)
        if isinstance(e, ast.BinOp) and isinstance(e.op, (ast.BitOr, ast.BitXor)):
            return vanishes(e.left, x) and vanishes(e.right, x)
        if isinstance(e, ast.Call) and isinstance(e.func, ast.Name) and e.func.id == "Mux" and len(e.args) == 3:
            zero = isinstance(e.args[2], ast.Constant) and e.args[2].value == 0
            return zero and vanishes(e.args[1], x)
        if isinstance(e, ast.Call) and isinstance(e.func, ast.Attribute) and e.func.attr in ("any", "bool") and not e.args:
            return vanishes(e.func.value, x)
        if isinstance(e, ast.Subscript):
            return vanishes(e.value, x)
        return False

    def rewrite(stmts):
        n = 0
        for i, st in enumerate(list(stmts)):
            for fld in ("body", "orelse", "finalbody"):
                blk = getattr(st, fld, None)
                if isinstance(blk, list) and blk and isinstance(blk[0], ast.stmt) and not isinstance(st, (ast.FunctionDef, ast.ClassDef)):
                    n += rewrite(blk)
            if not (isinstance(st, ast.If) and not st.orelse and len(st.body) == 1):
                continue
            x = nonempty_test(st.test)
            if x is None or not _simple_arg(x):
                continue
            xd = ast.dump(x)
            b = st.body[0]
            ok = False
            if isinstance(b, ast.AugAssign) and isinstance(b.op, ast.BitOr) and isinstance(b.target, ast.Name) and vanishes(b.value, xd):
                ok = True
            # the same accumulation spelled out: acc = acc | E  /  acc = E | acc
            if isinstance(b, ast.Assign) and len(b.targets) == 1 and isinstance(b.targets[0], ast.Name) and isinstance(b.value, ast.BinOp) and \
                    isinstance(b.value.op, ast.BitOr):
                for acc_, e_ in ((b.value.left, b.value.right), (b.value.right, b.value.left)):
                    if isinstance(acc_, ast.Name) and acc_.id == b.targets[0].id and vanishes(e_, xd):
                        ok = True
            if isinstance(b, ast.AugAssign) and isinstance(b.op, ast.Add) and isinstance(b.target, ast.Attribute) and \
                    isinstance(b.target.value, ast.Attribute) and b.target.value.attr == "d" and isinstance(b.value, ast.Call) and \
                    isinstance(b.value.func, ast.Attribute) and b.value.func.attr == "eq" and ast.dump(b.value.func.value) == xd:
                ok = True
            if ok:
                stmts[stmts.index(st)] = b
                n += 1
        return n
    for f in index.all_functions():
        k = rewrite(f.node.body)
        if k:
            done[f.site] = k
    return done


# ---- keyed tables of derived values ------------------------------------------------------------------------------------------------
def inline_keyed_tables(index):
    """`self._T = dict()` in __init__, one writer `self._T[K] = E(K)` (K a plain name, E a pure expression of K alone, possibly through
    a local bound once in the same function), and otherwise only reads `self._T[X]`: the table files a value that can be recomputed
    from its key.  Every read becomes E(X); the store stays where it is (nobody reads it any more).  A missing key would be a KeyError
    instead of a value -- the look-ups sit behind the same membership asserts as before, and a rule that wants the presence
    guarantee has to ask for it separately."""
    import builtins
    import copy
    done = {}
    for m in index.modules.values():
        for cls in m.all_classes():
            init = cls.method("__init__")
            if init is None:
                continue
            tables = set()
            for st in _own_walk(init.node):
                if isinstance(st, ast.Assign) and len(st.targets) == 1 and _self_attr(st.targets[0]) and \
                        ((isinstance(st.value, ast.Call) and isinstance(st.value.func, ast.Name) and st.value.func.id == "dict" and
                          not st.value.args and not st.value.keywords) or (isinstance(st.value, ast.Dict) and not st.value.keys)):
                    tables.add(st.targets[0].attr)
            if not tables:
                continue
            methods = [f for fs in cls.methods.values() for f in fs]
            uses = {t: [] for t in tables}
            for f in methods:
                par = {}
                for n in ast.walk(f.node):
                    for ch in ast.iter_child_nodes(n):
                        par[ch] = n
                for n in ast.walk(f.node):
                    if isinstance(n, ast.Attribute) and isinstance(n.value, ast.Name) and n.value.id == "self" and n.attr in tables:
                        uses[n.attr].append((f, n, par.get(n), par))
            for t, us in uses.items():
                stores, reads, other = [], [], []
                for f, n, p, par in us:
                    if f is init and isinstance(p, ast.Assign) and n in p.targets:
                        continue
                    if isinstance(p, ast.Subscript) and p.value is n and isinstance(p.ctx, ast.Store) and isinstance(par.get(p), ast.Assign) and \
                            len(par[p].targets) == 1:
                        stores.append((f, par[p]))
                    elif isinstance(p, ast.Subscript) and p.value is n and isinstance(p.ctx, ast.Load):
                        reads.append((f, p, par))
                    else:
                        other.append(n)
                if len(stores) != 1 or other or not reads:
                    continue
                f, st = stores[0]
                key = st.targets[0].slice
                if not isinstance(key, ast.Name):
                    continue
                val = st.value
                # through one local bound once in the same function
                if isinstance(val, ast.Name):
                    bs = [b for b in _own_walk(f.node) if isinstance(b, ast.Assign) and len(b.targets) == 1 and
                          isinstance(b.targets[0], ast.Name) and b.targets[0].id == val.id]
                    if len(bs) != 1:
                        continue
                    val = bs[0].value
                names = {x.id for x in ast.walk(val) if isinstance(x, ast.Name)}
                free = {x for x in names if x != key.id and not hasattr(builtins, x) and index.resolve_function(f.module, x) is None and
                        x not in getattr(f.module, "imports", {}) and x not in ("ceil_log2", "exact_log2", "log2")}
                if free or any(isinstance(x, (ast.Attribute,)) and isinstance(x.value, ast.Name) and x.value.id == "self" for x in ast.walk(val)) or \
                        any(isinstance(x, (ast.Lambda, ast.Yield, ast.Await, ast.NamedExpr)) for x in ast.walk(val)):
                    continue
                if not all(_simple_arg(r.slice) for _, r, _ in reads):
                    continue
                for g, r, par in reads:
                    new = _Subst({key.id: r.slice}, {}).visit(copy.deepcopy(val))
                    ast.copy_location(new, r)
                    holder = par.get(r)
                    for fld, v_ in ast.iter_fields(holder):
                        if v_ is r:
                            setattr(holder, fld, new)
                        elif isinstance(v_, list):
                            for i_, x in enumerate(v_):
                                if x is r:
                                    v_[i_] = new
                    ast.fix_missing_locations(g.node)
                    done[g.site] = done.get(g.site, 0) + 1
    return done


# ---- local memo dictionaries ------------------------------------------------------------------------------------------------------
def inline_local_memos(index):
    """`D = {}` ... `if K not in D: D[K] = E` ... `D[K]`: a local dictionary that memoises the pure expression E per key K.  When E
    depends on nothing but K and names that are not rebound inside the enclosing loop, `D[K]` is E: every read is replaced by E
    and the dictionary disappears.  (E must not create signals or call anything with effects: creating it twice must be the same
    as creating it once.)"""
    import copy
    done = {}
    IMPURE = ("Signal", "Signal.like", "Memory", "Module", "Record")
    for f in index.all_functions():
        binds = {}
        for n in _own_walk(f.node):
            if isinstance(n, ast.Assign) and len(n.targets) == 1 and isinstance(n.targets[0], ast.Name):
                binds.setdefault(n.targets[0].id, []).append(n)
        for name, bs in binds.items():
            if len(bs) != 1:
                continue
            v = bs[0].value
            empty = (isinstance(v, ast.Dict) and not v.keys) or (isinstance(v, ast.Call) and isinstance(v.func, ast.Name) and v.func.id == "dict"
                                                                 and not v.args and not v.keywords)
            if not empty:
                continue
            parents = {}
            for n in ast.walk(f.node):
                for ch in ast.iter_child_nodes(n):
                    parents[ch] = n
            uses = [n for n in ast.walk(f.node) if isinstance(n, ast.Name) and n.id == name and n is not bs[0].targets[0]]
            fills, reads, bad = [], [], False
            for u in uses:
                par = parents.get(u)
                if isinstance(par, ast.Compare) and len(par.ops) == 1 and isinstance(par.ops[0], ast.NotIn) and par.comparators[0] is u:
                    iff = parents.get(par)
                    if isinstance(iff, ast.If) and iff.test is par and not iff.orelse and len(iff.body) == 1 and isinstance(iff.body[0], ast.Assign) and \
                            len(iff.body[0].targets) == 1 and isinstance(iff.body[0].targets[0], ast.Subscript) and \
                            isinstance(iff.body[0].targets[0].value, ast.Name) and iff.body[0].targets[0].value.id == name and \
                            ast.dump(iff.body[0].targets[0].slice) == ast.dump(par.left):
                        fills.append(iff)
                        continue
                    bad = True
                elif isinstance(par, ast.Subscript) and par.value is u and isinstance(par.ctx, ast.Load):
                    reads.append(par)
                elif isinstance(par, ast.Subscript) and par.value is u and isinstance(par.ctx, ast.Store) and \
                        any(parents.get(par) is iff.body[0] for iff in fills):
                    continue
                elif isinstance(par, ast.Subscript) and par.value is u and isinstance(par.ctx, ast.Store):
                    continue            # checked against the fills below
                else:
                    bad = True
            stores = [n for n in ast.walk(f.node) if isinstance(n, ast.Subscript) and isinstance(n.value, ast.Name) and n.value.id == name and
                      isinstance(n.ctx, ast.Store)]
            if bad or len(fills) != 1 or not reads or len(stores) != 1 or parents.get(stores[0]) is not fills[0].body[0]:
                continue
            iff = fills[0]
            K, E = iff.test.left, iff.body[0].value
            if any(ast.dump(r.slice) != ast.dump(K) for r in reads):
                continue
            if any(isinstance(c, ast.Call) and (ast.unparse(c.func) in IMPURE or (isinstance(c.func, ast.Attribute) and c.func.attr in _MUTATORS))
                   for c in ast.walk(E)) or any(isinstance(c, (ast.NamedExpr, ast.Yield, ast.YieldFrom, ast.Await, ast.Lambda)) for c in ast.walk(E)):
                continue
            # E depends on K and on names that the enclosing loop does not rebind
            loop = None
            a = parents.get(iff)
            while a is not None and a is not f.node:
                if isinstance(a, (ast.For, ast.While)):
                    loop = a
                a = parents.get(a)
            rebound = set()
            if loop is not None:
                rebound = {n.id for n in ast.walk(loop) if isinstance(n, ast.Name) and isinstance(n.ctx, ast.Store)}
            knames = {n.id for n in ast.walk(K) if isinstance(n, ast.Name)}
            comp_bound = {n.id for c in ast.walk(E) if isinstance(c, ast.comprehension) for n in ast.walk(c.target) if isinstance(n, ast.Name)}
            enames = {n.id for n in ast.walk(E) if isinstance(n, ast.Name) and isinstance(n.ctx, ast.Load)} - comp_bound
            if (enames - knames) & rebound:
                continue
            # every read comes after the fill in the same iteration: same block or nested below a later statement of that block
            blk = None
            for fld in ("body", "orelse", "finalbody"):
                b = getattr(parents.get(iff), fld, None)
                if isinstance(b, list) and iff in b:
                    blk = b
            if blk is None:
                continue
            after = set()
            for st in blk[blk.index(iff) + 1:]:
                after |= {id(x) for x in ast.walk(st)}
            if not all(id(r) in after for r in reads):
                continue

            class R(ast.NodeTransformer):
                def visit_Subscript(self, node):
                    if any(node is r for r in reads):
                        return ast.copy_location(copy.deepcopy(E), node)
                    self.generic_visit(node)
                    return node
            R().visit(f.node)
            blk.remove(iff)
            if not blk:
                blk.append(ast.Pass())
            for blk2 in ast.walk(f.node):
                for fld in ("body", "orelse", "finalbody"):
                    b = getattr(blk2, fld, None)
                    if isinstance(b, list) and bs[0] in b:
                        b.remove(bs[0])
                        if not b:
                            b.append(ast.Pass())
            ast.fix_missing_locations(f.node)
            done.setdefault(f.site, []).append(name)
    return done


# ---- replicated unpacking ---------------------------------------------------------------------------------------------------------
def desugar_replicated_unpack(index):
    """`a, b = (E for _ in range(2))` (or a list comprehension) with E not mentioning the loop variable evaluates E once per target,
    in order: `a = E; b = E`.  Likewise `a, b = E1, E2` is `a = E1; b = E2` when no target is read by a later value."""
    import copy
    done = {}

    def walk_block(stmts, site):
        i = 0
        while i < len(stmts):
            s = stmts[i]
            for field in ("body", "orelse", "finalbody"):
                blk = getattr(s, field, None)
                if isinstance(blk, list) and blk and isinstance(blk[0], ast.stmt) and not isinstance(s, (ast.FunctionDef, ast.AsyncFunctionDef, ast.ClassDef)):
                    walk_block(blk, site)
            if isinstance(s, ast.Try):
                for h in s.handlers:
                    walk_block(h.body, site)
            if isinstance(s, ast.Assign) and len(s.targets) == 1 and isinstance(s.targets[0], (ast.Tuple, ast.List)) and \
                    isinstance(s.value, (ast.GeneratorExp, ast.ListComp)) and len(s.value.generators) == 1:
                g = s.value.generators[0]
                tg = s.targets[0].elts
                k = None
                if isinstance(g.iter, ast.Call) and isinstance(g.iter.func, ast.Name) and g.iter.func.id == "range" and len(g.iter.args) == 1 and \
                        isinstance(g.iter.args[0], ast.Constant) and isinstance(g.iter.args[0].value, int) and not g.ifs and not g.is_async:
                    k = g.iter.args[0].value
                var = {n.id for n in ast.walk(g.target) if isinstance(n, ast.Name)}
                uses_var = any(isinstance(n, ast.Name) and n.id in var for n in ast.walk(s.value.elt))
                if k == len(tg) and not uses_var and not any(isinstance(t, ast.Starred) for t in tg):
                    new = []
                    for t in tg:
                        a = ast.Assign(targets=[t], value=copy.deepcopy(s.value.elt))
                        ast.copy_location(a, s)
                        ast.fix_missing_locations(a)
                        new.append(a)
                    stmts[i:i + 1] = new
                    done[site] = done.get(site, 0) + 1
                    i += len(new)
                    continue
            i += 1

    for f in index.all_functions():
        walk_block(f.node.body, f.site)
    return done


# ---- enumerate idioms -------------------------------------------------------------------------------------------------------------
def desugar_enumerate_idioms(index):
    """`zip(itertools.count(), X)` / `zip(count(), X)` / `zip(range(len(X)), X)` pair every element of X with its position:
    `enumerate(X)`.  (`count(k)` is `enumerate(X, k)`.)"""
    done = {}

    class T(ast.NodeTransformer):
        def __init__(self):
            self.n = 0

        def visit_Call(self, node):
            self.generic_visit(node)
            if isinstance(node.func, ast.Name) and node.func.id == "zip" and len(node.args) == 2 and not node.keywords:
                a, b = node.args
                if isinstance(a, ast.Call) and ast.unparse(a.func) in ("itertools.count", "count") and len(a.args) <= 1 and not a.keywords:
                    self.n += 1
                    new = ast.Call(func=ast.Name(id="enumerate", ctx=ast.Load()), args=[b] + list(a.args), keywords=[])
                    return ast.fix_missing_locations(ast.copy_location(new, node))
                if isinstance(a, ast.Call) and isinstance(a.func, ast.Name) and a.func.id == "range" and len(a.args) == 1 and \
                        isinstance(a.args[0], ast.Call) and isinstance(a.args[0].func, ast.Name) and a.args[0].func.id == "len" and \
                        len(a.args[0].args) == 1 and ast.dump(a.args[0].args[0]) == ast.dump(b) and \
                        isinstance(b, (ast.Name, ast.Attribute)):
                    self.n += 1
                    new = ast.Call(func=ast.Name(id="enumerate", ctx=ast.Load()), args=[b], keywords=[])
                    return ast.fix_missing_locations(ast.copy_location(new, node))
            return node

    def index_loops(fn):
        """`for i in range(len(S)):` whose first statement is `x = S[i]` (S a plain name or attribute chain that the loop does not
        rebind, `x` and `i` not assigned again in the body) is `for i, x in enumerate(S):`."""
        k = 0
        for loop in [n for n in ast.walk(fn) if isinstance(n, ast.For)]:
            it = loop.iter
            if not (isinstance(loop.target, ast.Name) and isinstance(it, ast.Call) and isinstance(it.func, ast.Name) and it.func.id == "range" and
                    len(it.args) == 1 and not it.keywords and isinstance(it.args[0], ast.Call) and isinstance(it.args[0].func, ast.Name) and
                    it.args[0].func.id == "len" and len(it.args[0].args) == 1 and isinstance(it.args[0].args[0], (ast.Name, ast.Attribute)) and
                    len(loop.body) >= 2 and not loop.orelse):
                continue
            seq, i = it.args[0].args[0], loop.target.id
            st = loop.body[0]
            if not (isinstance(st, ast.Assign) and len(st.targets) == 1 and isinstance(st.targets[0], (ast.Name, ast.Tuple)) and
                    isinstance(st.value, ast.Subscript) and ast.dump(st.value.value) == ast.dump(seq) and
                    isinstance(st.value.slice, ast.Name) and st.value.slice.id == i):
                continue
            bound = {n.id for t_ in [st.targets[0]] for n in ast.walk(t_) if isinstance(n, ast.Name)} | {i}
            root = seq
            while isinstance(root, ast.Attribute):
                root = root.value
            rest_stores = {n.id for s_ in loop.body[1:] for n in ast.walk(s_) if isinstance(n, ast.Name) and isinstance(n.ctx, (ast.Store, ast.Del))}
            if rest_stores & (bound | ({root.id} if isinstance(root, ast.Name) else set())):
                continue
            if any(isinstance(n, ast.Attribute) and isinstance(n.ctx, ast.Store) and ast.dump(n) == ast.dump(seq).replace("Load()", "Store()")
                   for s_ in loop.body for n in ast.walk(s_)):
                continue
            loop.target = ast.Tuple(elts=[ast.Name(id=i, ctx=ast.Store()), st.targets[0]], ctx=ast.Store())
            loop.iter = ast.Call(func=ast.Name(id="enumerate", ctx=ast.Load()), args=[seq], keywords=[])
            del loop.body[0]
            k += 1
        if k:
            ast.fix_missing_locations(fn)
        return k
    for f in index.all_functions():
        t = T()
        t.visit(f.node)
        k = index_loops(f.node)
        if t.n or k:
            done[f.site] = t.n + k
    return done


# ---- yield from a comprehension -------------------------------------------------------------------------------------------------
def desugar_yield_from(index):
    """`yield from (E for T in S if C)` (statement; generator expression or list comprehension over pure parts) is
    `for T in S: if C: yield E`: the same values in the same order.  The comprehension's variables are its own, so the rewrite
    is only made when none of them is otherwise used in the function."""
    done = {}

    def walk_block(stmts, fn, site):
        for i, s in enumerate(list(stmts)):
            for field in ("body", "orelse", "finalbody"):
                blk = getattr(s, field, None)
                if isinstance(blk, list) and blk and isinstance(blk[0], ast.stmt) and not isinstance(s, (ast.FunctionDef, ast.AsyncFunctionDef, ast.ClassDef)):
                    walk_block(blk, fn, site)
            if isinstance(s, ast.Expr) and isinstance(s.value, ast.YieldFrom) and isinstance(s.value.value, ast.Call) and \
                    isinstance(s.value.value.func, ast.Name) and s.value.value.func.id in ("zip", "enumerate", "sorted", "reversed", "list", "tuple", "iter"):
                # `yield from zip(A, B)` hands on the elements of a built-in iterable one by one: `for item in zip(A, B): yield item`
                var = "_yielded"
                names = {x.id for x in ast.walk(fn) if isinstance(x, ast.Name)}
                k_ = 0
                while var in names:
                    k_ += 1
                    var = f"_yielded{k_}"
                new = ast.For(target=ast.Name(id=var, ctx=ast.Store()), iter=s.value.value,
                              body=[ast.Expr(value=ast.Yield(value=ast.Name(id=var, ctx=ast.Load())))], orelse=[], type_comment=None)
                ast.copy_location(new, s)
                ast.fix_missing_locations(new)
                for n in ast.walk(new):
                    if not hasattr(n, "lineno"):
                        n.lineno = s.lineno
                stmts[stmts.index(s)] = new
                done[site] = done.get(site, 0) + 1
                continue
            if not (isinstance(s, ast.Expr) and isinstance(s.value, ast.YieldFrom) and isinstance(s.value.value, (ast.GeneratorExp, ast.ListComp))):
                continue
            comp = s.value.value
            if any(g.is_async for g in comp.generators):
                continue
            bound = {n.id for g in comp.generators for n in ast.walk(g.target) if isinstance(n, ast.Name)}
            inside = {id(n) for n in ast.walk(comp)}
            if any(isinstance(n, ast.Name) and n.id in bound and id(n) not in inside for n in ast.walk(fn)):
                continue
            if any(isinstance(n, (ast.NamedExpr, ast.Yield, ast.YieldFrom, ast.Await)) for n in ast.walk(comp)):
                continue
            body = [ast.Expr(value=ast.Yield(value=comp.elt))]
            for g in reversed(comp.generators):
                for cond in reversed(g.ifs):
                    body = [ast.If(test=cond, body=body, orelse=[])]
                body = [ast.For(target=g.target, iter=g.iter, body=body, orelse=[], type_comment=None)]
            new = body[0]
            ast.copy_location(new, s)
            ast.fix_missing_locations(new)
            for n in ast.walk(new):
                if not hasattr(n, "lineno"):
                    n.lineno = s.lineno
            stmts[stmts.index(s)] = new
            done[site] = done.get(site, 0) + 1

    for f in index.all_functions():
        walk_block(f.node.body, f.node, f.site)
    return done


# ---- match / case ------------------------------------------------------------------------------------------------------------
def desugar_matches(index):
    """`match subject:` with value patterns (constants, dotted names such as enum members), alternatives of those, class
    patterns without arguments (`case dict():`) and a final wildcard is the if / elif / else chain it abbreviates:
    value patterns compare with ==, class patterns with isinstance.  Other patterns (captures, sequences, mappings, guards
    with captures) are left alone and stay unsupported downstream."""
    done = {}
    n_ = [0]

    def test_of(subj, pat):
        import copy
        if isinstance(pat, ast.MatchValue):
            return ast.Compare(left=copy.deepcopy(subj), ops=[ast.Eq()], comparators=[pat.value])
        if isinstance(pat, ast.MatchSingleton):
            return ast.Compare(left=copy.deepcopy(subj), ops=[ast.Is()], comparators=[ast.Constant(value=pat.value)])
        if isinstance(pat, ast.MatchClass) and not pat.patterns and not pat.kwd_patterns:
            return ast.Call(func=ast.Name(id="isinstance", ctx=ast.Load()), args=[copy.deepcopy(subj), pat.cls], keywords=[])
        if isinstance(pat, ast.MatchOr):
            parts = [test_of(subj, p) for p in pat.patterns]
            return None if any(p is None for p in parts) else ast.BoolOp(op=ast.Or(), values=parts)
        return None

    def convert(st):
        subj = st.subject
        pre = []
        if not isinstance(subj, (ast.Name, ast.Attribute, ast.Constant)) or any(isinstance(n, ast.Call) for n in ast.walk(subj)):
            n_[0] += 1
            tmp = f"__match{n_[0]}"
            pre = [ast.Assign(targets=[ast.Name(id=tmp, ctx=ast.Store())], value=subj)]
            subj = ast.Name(id=tmp, ctx=ast.Load())
        chain = None
        tail = None
        for case in st.cases:
            wildcard = isinstance(case.pattern, ast.MatchAs) and case.pattern.pattern is None and case.pattern.name is None
            if wildcard and case.guard is None:
                if chain is None:
                    return None
                tail.orelse = case.body
                tail = None
                break
            t = test_of(subj, case.pattern)
            if t is None:
                return None
            if case.guard is not None:
                t = ast.BoolOp(op=ast.And(), values=[t, case.guard])
            node = ast.If(test=t, body=case.body, orelse=[])
            if chain is None:
                chain = node
            else:
                tail.orelse = [node]
            tail = node
        if chain is None:
            return None
        out = pre + [chain]
        for s in out:
            ast.copy_location(s, st)
            for x in ast.walk(s):
                if not hasattr(x, "lineno"):
                    ast.copy_location(x, st)
            ast.fix_missing_locations(s)
        return out

    def walk_block(stmts, site):
        i = 0
        while i < len(stmts):
            s = stmts[i]
            for field in ("body", "orelse", "finalbody"):
                blk = getattr(s, field, None)
                if isinstance(blk, list) and blk and isinstance(blk[0], ast.stmt):
                    walk_block(blk, site)
            if isinstance(s, ast.Try):
                for h in s.handlers:
                    walk_block(h.body, site)
            if isinstance(s, ast.Match):
                for case in s.cases:
                    walk_block(case.body, site)
                new = convert(s)
                if new is not None:
                    stmts[i:i + 1] = new
                    done[site] = done.get(site, 0) + 1
                    i += len(new)
                    continue
            i += 1
    for m in index.modules.values():
        for st in m.tree.body:
            if isinstance(st, (ast.FunctionDef, ast.ClassDef)):
                walk_block(st.body, f"{m.rel}::{st.name}")
    return done


# ---- keyword arguments -------------------------------------------------------------------------------------------------------
def positional_calls(index):
    """A maintainer may put a `*` into the signature of a function and adapt its call sites (`sh.encode_offset(off,
    reg_range=r)`).  The rules read calls of the functions they anchor on in the calling convention of the pinned tree
    (core/anchor_sigs.json): an argument that the pinned signature takes positionally and that is now passed by keyword is
    written positionally again, in the pinned order.  Only when the callee is identified by its name and the keywords it is
    given (exactly one pinned function / method / class constructor has that name and those parameters), and only when the
    keywords fill the pinned positional parameters without a gap."""
    import json
    import os
    with open(os.path.join(os.path.dirname(__file__), "anchor_sigs.json")) as f:
        pinned = json.load(f)
    by_name = {}
    for site, sg in pinned.items():
        qual = site.split("::")[1]
        name = qual.rsplit(".", 1)[-1]
        is_method = "." in qual
        pos = sg["pos"][1:] if is_method and sg["pos"] and sg["pos"][0] in ("self", "cls") else sg["pos"]
        key = name
        if name == "__init__" and is_method:
            key = "<class>" + qual.rsplit(".", 2)[-2]
        by_name.setdefault(key, []).append((tuple(pos), tuple(sg["kwonly"])))
    done = {}

    class T(ast.NodeTransformer):
        def __init__(self, site):
            self.site = site

        def visit_Call(self, n):
            self.generic_visit(n)
            kws = [k for k in n.keywords if k.arg is not None]
            if not kws or any(isinstance(a, ast.Starred) for a in n.args):
                return n
            name = n.func.attr if isinstance(n.func, ast.Attribute) else (n.func.id if isinstance(n.func, ast.Name) else None)
            if name is None:
                return n
            cands = list(by_name.get(name, ())) + list(by_name.get("<class>" + name, ()))
            fits = {(pos, kwo) for pos, kwo in cands if all(k.arg in pos + kwo for k in kws) and len(n.args) <= len(pos)}
            if len(fits) != 1:
                return n
            pos, kwo = next(iter(fits))
            given = {k.arg: k for k in kws}
            new_args = list(n.args)
            moved = []
            for p_ in pos[len(n.args):]:
                if p_ in given:
                    new_args.append(given[p_].value)
                    moved.append(given[p_])
                else:
                    break
            if not moved or any(k.arg in pos and k not in moved for k in kws):
                return n                                # nothing to move, or a gap
            n.args = new_args
            n.keywords = [k for k in n.keywords if k not in moved]
            done[self.site] = done.get(self.site, 0) + 1
            return n
    for m in index.modules.values():
        funcs = list(m.functions.values()) + [f for c in m.all_classes() for fs in c.methods.values() for f in fs]
        for f in funcs:
            T(f.site).visit(f.node)
    return done


# ---- pure expression functions --------------------------------------------------------------------------------------------------
_PURE_CALLS = ("flipped", "slice", "max", "min", "len", "int", "bool", "tuple", "range", "abs", "isinstance", "exact_log2", "ceil_log2", "Shape.cast")


import re as _re
_MEMO_DECORATOR = _re.compile(r"^(functools\.)?(cache|lru_cache(\(.*\))?)$")


def _pure_expr(e):
    for n in ast.walk(e):
        if isinstance(n, (ast.Lambda, ast.Yield, ast.YieldFrom, ast.Await, ast.NamedExpr, ast.ListComp, ast.GeneratorExp, ast.DictComp, ast.SetComp)):
            return False
        if isinstance(n, ast.Call) and ast.unparse(n.func) not in _PURE_CALLS:
            return False
    return True


def _collapse_return_chain(body):
    """`if C1: return E1` / `if C2: return E2` / ... / `return F` (guard clauses that only return) is the single
    `return E1 if C1 else (E2 if C2 else F)`.  Anything else is handed back unchanged."""
    if len(body) < 2 or not isinstance(body[-1], ast.Return) or body[-1].value is None:
        return body
    expr = body[-1].value
    for st in reversed(body[:-1]):
        if not (isinstance(st, ast.If) and len(st.body) == 1 and isinstance(st.body[0], ast.Return) and st.body[0].value is not None):
            return body
        if st.orelse:
            if not (len(st.orelse) == 1 and isinstance(st.orelse[0], ast.Return) and st.orelse[0].value is not None):
                return body
            expr = ast.IfExp(test=st.test, body=st.body[0].value, orelse=st.orelse[0].value)
        else:
            expr = ast.IfExp(test=st.test, body=st.body[0].value, orelse=expr)
    r = ast.Return(value=expr)
    ast.copy_location(r, body[0])
    ast.fix_missing_locations(r)
    return [r]


def open_pure_functions(index):
    """A *new* module-level function (or static method) whose body is one `return <expr>` with <expr> built from its parameters
    by arithmetic, comparisons, attribute reads and a few pure built-ins (`slice`, `max`, `isinstance`, ...) is a named
    expression: a call with pure arguments is replaced by the expression with the parameters substituted.  (`_segment(i,
    granularity=g)` for `slice(i * g, (i + 1) * g)`, `is_positive_int(x)` for `isinstance(x, int) and x > 0`.)"""
    import copy
    done = {}
    cands = {}
    for m in index.modules.values():
        for f in m.functions.values():
            cands.setdefault(f.name, []).append(f)
    table = {}
    for name, fs in cands.items():
        if len(fs) != 1:
            continue
        f = fs[0]
        import os as _os
        private_module = _os.path.basename(f.module.rel).startswith("_") and not _os.path.basename(f.module.rel).startswith("__")
        # memoising a pure function of hashable arguments (functools.cache / lru_cache) changes nothing it returns
        decos = [d for d in f.decorators if not _MEMO_DECORATOR.match(d)]
        if f.site in _anchors() or decos or (not name.startswith("_") and not private_module) or name.startswith("__"):
            continue
        a = f.node.args
        if a.vararg or a.kwarg or a.posonlyargs:
            continue
        body = [s for s in f.node.body if not (isinstance(s, ast.Expr) and isinstance(s.value, ast.Constant))]
        body = _collapse_return_chain(body)
        if len(body) != 1 or not isinstance(body[0], ast.Return) or body[0].value is None or not _pure_expr(body[0].value):
            continue
        params = [x.arg for x in a.args + a.kwonlyargs]
        if len(decos) != len(f.decorators):
            # ... provided the arguments are hashable: every parameter is used as a number (operand of arithmetic or of a comparison,
            # argument of a numeric built-in), so an unhashable argument is refused with or without the cache
            numeric = set()
            for n in ast.walk(body[0].value):
                kids = []
                if isinstance(n, ast.BinOp) and not isinstance(n.op, (ast.Add, ast.Mult, ast.Mod)):
                    kids = [n.left, n.right]
                elif isinstance(n, ast.Call) and ast.unparse(n.func) in ("exact_log2", "ceil_log2", "abs", "range", "int.bit_length"):
                    kids = list(n.args)
                numeric |= {k.id for k in kids if isinstance(k, ast.Name)}
            if not set(params) <= numeric:
                continue
        free = {n.id for n in ast.walk(body[0].value) if isinstance(n, ast.Name)} - set(params)
        ext = {al.asname or al.name.split(".")[0] for s_ in f.module.tree.body if isinstance(s_, (ast.Import, ast.ImportFrom)) for al in s_.names}
        if any(nm not in f.module.imports and nm not in ext and nm not in f.module.classes and nm not in ("slice", "max", "min", "len", "int", "bool", "tuple", "range",
                                                                                           "abs", "isinstance", "exact_log2", "ceil_log2", "Shape", "str", "float")
               for nm in free):
            continue
        table[name] = f

    class T(ast.NodeTransformer):
        def __init__(self, fi):
            self.fi = fi

        def visit_Call(self, n):
            self.generic_visit(n)
            if not isinstance(n.func, ast.Name) or n.func.id not in table:
                return n
            target = index.resolve_function(self.fi.module, n.func.id)
            if target is None or target is not table[n.func.id] or target.node is self.fi.node:
                return n
            a = target.node.args
            pos, kwonly = [x.arg for x in a.args], [x.arg for x in a.kwonlyargs]
            if len(n.args) > len(pos) or any(isinstance(x, ast.Starred) for x in n.args) or any(k.arg is None for k in n.keywords):
                return n
            bind = dict(zip(pos, n.args))
            for k in n.keywords:
                if k.arg in bind or k.arg not in pos + kwonly:
                    return n
                bind[k.arg] = k.value
            for p_, dflt in zip(pos[len(pos) - len(a.defaults):], a.defaults):
                bind.setdefault(p_, dflt)
            for p_, dflt in zip(kwonly, a.kw_defaults):
                if dflt is not None:
                    bind.setdefault(p_, dflt)
            if set(bind) != set(pos + kwonly) or not all(_pure_expr(v) for v in bind.values()):
                return n
            body = [s for s in target.node.body if not (isinstance(s, ast.Expr) and isinstance(s.value, ast.Constant))]
            body = _collapse_return_chain(body)
            new = _Subst(bind, {}).visit(copy.deepcopy(body[0].value))
            for x in ast.walk(new):
                ast.copy_location(x, n)
            done.setdefault(self.fi.site, []).append(n.func.id)
            return new
    for m in index.modules.values():
        funcs = list(m.functions.values()) + [f for c in m.all_classes() for fs in c.methods.values() for f in fs]
        for f in funcs:
            T(f).visit(f.node)
            ast.fix_missing_locations(f.node)
    return done


# ---- walrus ---------------------------------------------------------------------------------------------------------------------
def desugar_walrus(index):
    """`if (x := E) < y:` / `v = f((x := E), ...)` with the named expression evaluated unconditionally and first in its statement
    is `x = E` followed by the statement with `x` in its place."""
    done = {}

    def first_unconditional(expr):
        """the NamedExpr nodes of expr that are evaluated whenever expr is, in evaluation order (not under and/or/if-else/lambda/comprehension)"""
        out = []

        def rec(e):
            if isinstance(e, (ast.BoolOp, ast.IfExp)):
                rec(e.values[0] if isinstance(e, ast.BoolOp) else e.test)
                return
            if isinstance(e, (ast.Lambda, ast.ListComp, ast.SetComp, ast.DictComp, ast.GeneratorExp)):
                return
            if isinstance(e, ast.NamedExpr):
                rec(e.value)
                out.append(e)
                return
            for ch in ast.iter_child_nodes(e):
                if isinstance(ch, ast.expr):
                    rec(ch)
        rec(expr)
        return out

    def walk_block(stmts, site):
        i = 0
        while i < len(stmts):
            s = stmts[i]
            for field in ("body", "orelse", "finalbody"):
                blk = getattr(s, field, None)
                if isinstance(blk, list) and blk and isinstance(blk[0], ast.stmt) and not isinstance(s, (ast.FunctionDef, ast.AsyncFunctionDef, ast.ClassDef)):
                    walk_block(blk, site)
            if isinstance(s, ast.Try):
                for h in s.handlers:
                    walk_block(h.body, site)
            host = s.test if isinstance(s, ast.If) else getattr(s, "value", None) if isinstance(s, (ast.Assign, ast.Expr, ast.Return, ast.AugAssign)) else None
            if host is not None and any(isinstance(n, ast.NamedExpr) for n in ast.walk(host)):
                named = first_unconditional(host)
                allw = [n for n in ast.walk(host) if isinstance(n, ast.NamedExpr)]
                # every call evaluated before the first named expression must be absent (evaluation order is kept trivially)
                if named and len(named) == len(allw) and all(isinstance(n.target, ast.Name) for n in named):
                    first = named[0]
                    before = [c for c in ast.walk(host) if isinstance(c, ast.Call) and
                              (c.lineno, c.col_offset) < (first.lineno, first.col_offset) and not any(x is first for x in ast.walk(c))]
                    if not before:
                        pre = []
                        for n in named:
                            asg = ast.Assign(targets=[ast.Name(id=n.target.id, ctx=ast.Store())], value=n.value)
                            ast.copy_location(asg, s)
                            ast.fix_missing_locations(asg)
                            pre.append(asg)

                        class R(ast.NodeTransformer):
                            def visit_NamedExpr(self, n):
                                self.generic_visit(n)
                                return ast.copy_location(ast.Name(id=n.target.id, ctx=ast.Load()), n)
                        if isinstance(s, ast.If):
                            s.test = R().visit(s.test)
                        else:
                            s.value = R().visit(s.value)
                        # the assignments' values may themselves have contained named expressions (already emitted in order)
                        for a_ in pre:
                            a_.value = R().visit(a_.value)
                        ast.fix_missing_locations(s)
                        stmts[i:i] = pre
                        i += len(pre)
                        done[site] = done.get(site, 0) + len(pre)
            i += 1
    for m in index.modules.values():
        funcs = list(m.functions.values()) + [f for c in m.all_classes() for fs in c.methods.values() for f in fs]
        for f in funcs:
            walk_block(f.node.body, f.site)
    return done


# ---- named records ---------------------------------------------------------------------------------------------------------------
def tuples_for_named_records(index):
    """A private `class _Entry(NamedTuple)` used for the rows of a table (`self._registers[id(reg)] = _Entry(reg, name, offset)`) is the
    plain tuple it replaces: the constructor call becomes the tuple display, and `x.offset` becomes `x[2]` for every local that
    is bound (once) to a row of such a table -- `for x in self.T.values()`, `x = self.T[k]`, `x = self.T.get(k)`.  Only tables
    whose every store is a call of the one record class are treated this way."""
    records = {}
    for c in index.all_classes():
        if c.name.startswith("_") and any(b.split(".")[-1] == "NamedTuple" for b in c.bases):
            fields = [s.target.id for s in c.node.body if isinstance(s, ast.AnnAssign) and isinstance(s.target, ast.Name)]
            if fields and not c.methods:
                records[c.name] = fields
    if not records:
        return {}
    done = {}
    # tables: self.<T>[...] = Rec(...)
    stores = {}
    for m in index.modules.values():
        for n in ast.walk(m.tree):
            if isinstance(n, ast.Assign) and len(n.targets) == 1 and isinstance(n.targets[0], ast.Subscript) and _self_attr(n.targets[0].value):
                v = n.value
                kind = v.func.id if isinstance(v, ast.Call) and isinstance(v.func, ast.Name) and v.func.id in records else None
                stores.setdefault(_self_attr(n.targets[0].value), set()).add(kind)
    tables = {t: next(iter(k)) for t, k in stores.items() if len(k) == 1 and None not in k}

    def ctor_to_tuple(n, fields):
        if any(isinstance(a, ast.Starred) for a in n.args) or any(k.arg is None or k.arg not in fields for k in n.keywords):
            return None
        vals = dict(zip(fields, n.args))
        for k in n.keywords:
            if k.arg in vals:
                return None
            vals[k.arg] = k.value
        if set(vals) != set(fields):
            return None
        return ast.copy_location(ast.Tuple(elts=[vals[f] for f in fields], ctx=ast.Load()), n)

    class Ctor(ast.NodeTransformer):
        def visit_Call(self, n):
            self.generic_visit(n)
            if isinstance(n.func, ast.Name) and n.func.id in records:
                t = ctor_to_tuple(n, records[n.func.id])
                if t is not None:
                    return t
            return n

    def row_source(e):
        """record class of an expression that denotes a row of a record table"""
        if isinstance(e, ast.Subscript) and _self_attr(e.value) in tables:
            return tables[_self_attr(e.value)]
        if isinstance(e, ast.Call) and isinstance(e.func, ast.Attribute) and e.func.attr == "get" and _self_attr(e.func.value) in tables and len(e.args) == 1:
            return tables[_self_attr(e.func.value)]
        return None

    for m in index.modules.values():
        funcs = list(m.functions.values()) + [f for c in m.all_classes() for fs in c.methods.values() for f in fs]
        for f in funcs:
            Ctor().visit(f.node)
            typed = {}
            counts = {}
            for n in ast.walk(f.node):
                if isinstance(n, ast.Name) and isinstance(n.ctx, ast.Store):
                    counts[n.id] = counts.get(n.id, 0) + 1
            for n in ast.walk(f.node):
                if isinstance(n, ast.Assign) and len(n.targets) == 1 and isinstance(n.targets[0], ast.Name):
                    r = row_source(n.value)
                    if r:
                        typed[n.targets[0].id] = r
                if isinstance(n, (ast.For, ast.comprehension)) and isinstance(n.target, ast.Name) and isinstance(n.iter, ast.Call) and \
                        isinstance(n.iter.func, ast.Attribute) and n.iter.func.attr == "values" and _self_attr(n.iter.func.value) in tables:
                    typed[n.target.id] = tables[_self_attr(n.iter.func.value)]
            typed = {k: v for k, v in typed.items() if counts.get(k) == 1}
            if not typed:
                ast.fix_missing_locations(f.node)
                continue

            class Fld(ast.NodeTransformer):
                def visit_Attribute(self, n):
                    self.generic_visit(n)
                    if isinstance(n.value, ast.Name) and n.value.id in typed and n.attr in records[typed[n.value.id]] and isinstance(n.ctx, ast.Load):
                        done[f.site] = done.get(f.site, 0) + 1
                        return ast.copy_location(ast.Subscript(value=n.value, slice=ast.Constant(value=records[typed[n.value.id]].index(n.attr)),
                                                               ctx=ast.Load()), n)
                    return n
            Fld().visit(f.node)
            ast.fix_missing_locations(f.node)
    return done


# ---- a record of constructor parameters ----------------------------------------------------------------------------------------------
def _record_classes(index):
    """name -> field list, for private NamedTuple classes and module-level `X = namedtuple("X", fields)`."""
    records = {}
    for c in index.all_classes():
        if any(b.split(".")[-1] == "NamedTuple" for b in c.bases):
            fields = [s_.target.id for s_ in c.node.body if isinstance(s_, ast.AnnAssign) and isinstance(s_.target, ast.Name)]
            if fields and not c.methods:
                records[c.name] = fields
    bodies = [m.tree.body for m in index.modules.values()] + [c.node.body for c in index.all_classes()]
    for body_ in bodies:
        for st in body_:
            if isinstance(st, ast.Assign) and len(st.targets) == 1 and isinstance(st.targets[0], ast.Name) and isinstance(st.value, ast.Call) and \
                    ast.unparse(st.value.func) in ("namedtuple", "collections.namedtuple") and len(st.value.args) == 2 and not st.value.keywords:
                fl = st.value.args[1]
                fields = None
                if isinstance(fl, (ast.Tuple, ast.List)) and all(isinstance(x, ast.Constant) and isinstance(x.value, str) for x in fl.elts):
                    fields = [x.value for x in fl.elts]
                elif isinstance(fl, ast.Constant) and isinstance(fl.value, str):
                    fields = fl.value.replace(",", " ").split()
                if fields:
                    records[st.targets[0].id] = fields
    return records


def open_parameter_records(index):
    """`self._params = _Params(addr_width=addr_width, data_width=data_width)` in a constructor (the only store of that attribute in the
    class): the record is its fields.  In the methods of the class `self._params == other._params` is the conjunction of the
    field-wise comparisons, `self._params._asdict()` the dict display of the fields, and `f(**self._params._asdict())` the call with
    one keyword per field.  (Field reads `self._params.addr_width` are resolved by the rules through the constructor.)"""
    import copy
    records = _record_classes(index)
    if not records:
        return {}
    done = {}
    for c in index.all_classes():
        init = c.method("__init__")
        if init is None:
            continue
        attrs = {}
        for m_ in [f for fs in c.methods.values() for f in fs]:
            for n in ast.walk(m_.node):
                if isinstance(n, ast.Assign):
                    for t in n.targets:
                        for t2 in (t.elts if isinstance(t, ast.Tuple) else [t]):
                            if _self_attr(t2):
                                attrs.setdefault(_self_attr(t2), []).append((m_, n))
        recs = {}
        rec_stores = {}
        for a, sts in attrs.items():
            if len(sts) == 1 and sts[0][0] is init and isinstance(sts[0][1].value, ast.Call) and len(sts[0][1].targets) == 1 and \
                    _self_attr(sts[0][1].targets[0]) == a:
                fn_ = sts[0][1].value.func
                rn = fn_.id if isinstance(fn_, ast.Name) else (fn_.attr if isinstance(fn_, ast.Attribute) and isinstance(fn_.value, ast.Name) and
                                                                 fn_.value.id in ("self", "cls", c.name) else None)
                if rn in records:
                    recs[a] = records[rn]
                    rec_stores[a] = sts[0][1]
        if not recs:
            continue

        def rec_of(e):
            """(object name, attribute) when e is <name>.<record attribute>"""
            if isinstance(e, ast.Attribute) and isinstance(e.value, ast.Name) and e.attr in recs:
                return e.value.id, e.attr
            return None

        class T(ast.NodeTransformer):
            def __init__(self):
                self.n = 0

            def visit_Compare(self, node):
                self.generic_visit(node)
                if len(node.ops) == 1 and isinstance(node.ops[0], (ast.Eq, ast.NotEq)):
                    a, b = rec_of(node.left), rec_of(node.comparators[0])
                    if a and b and a[1] == b[1]:
                        parts = [ast.Compare(left=ast.Attribute(value=copy.deepcopy(node.left), attr=f_, ctx=ast.Load()), ops=[ast.Eq()],
                                             comparators=[ast.Attribute(value=copy.deepcopy(node.comparators[0]), attr=f_, ctx=ast.Load())])
                                 for f_ in recs[a[1]]]
                        conj = parts[0] if len(parts) == 1 else ast.BoolOp(op=ast.And(), values=parts)
                        self.n += 1
                        if isinstance(node.ops[0], ast.NotEq):
                            conj = ast.UnaryOp(op=ast.Not(), operand=conj)
                        return ast.copy_location(conj, node)
                return node

            def visit_Call(self, node):
                self.generic_visit(node)
                # f(**self._params._asdict())
                kws = []
                for k in node.keywords:
                    v = k.value
                    if k.arg is None and isinstance(v, ast.Call) and isinstance(v.func, ast.Attribute) and v.func.attr == "_asdict" and not v.args and \
                            rec_of(v.func.value):
                        for f_ in recs[rec_of(v.func.value)[1]]:
                            kws.append(ast.keyword(arg=f_, value=ast.Attribute(value=copy.deepcopy(v.func.value), attr=f_, ctx=ast.Load())))
                        self.n += 1
                    else:
                        kws.append(k)
                node.keywords = kws
                # self._params._asdict() on its own
                if isinstance(node.func, ast.Attribute) and node.func.attr == "_asdict" and not node.args and rec_of(node.func.value):
                    r = rec_of(node.func.value)
                    self.n += 1
                    return ast.copy_location(ast.Dict(keys=[ast.Constant(value=f_) for f_ in recs[r[1]]],
                                                      values=[ast.Attribute(value=copy.deepcopy(node.func.value), attr=f_, ctx=ast.Load())
                                                              for f_ in recs[r[1]]]), node)
                return node
        for m_ in [f for fs in c.methods.values() for f in fs]:
            t = T()
            t.visit(m_.node)
            if t.n:
                ast.fix_missing_locations(m_.node)
                done[m_.site] = t.n
        # a record that is only ever read field by field is its fields: `self.R = Rec(a=A, b=B)` becomes `self.R__a = A; self.R__b = B`
        # (in the order the arguments are written, which is the order they are evaluated in) and `x.R.a` becomes `x.R__a`
        methods = [f for fs in c.methods.values() for f in fs]
        for a, fields in recs.items():
            st = rec_stores[a]
            call = st.value
            if any(isinstance(x, ast.Starred) for x in call.args) or any(k.arg is None or k.arg not in fields for k in call.keywords) or \
                    len(call.args) > len(fields):
                continue
            given = list(zip(fields, call.args)) + [(k.arg, k.value) for k in call.keywords]
            if sorted(n_ for n_, _ in given) != sorted(fields):
                continue
            uses_ok = True
            parents = {}
            for m_ in methods:
                for n in ast.walk(m_.node):
                    for ch in ast.iter_child_nodes(n):
                        parents[ch] = n
            for m_ in methods:
                for n in ast.walk(m_.node):
                    if isinstance(n, ast.Attribute) and n.attr == a and isinstance(n.value, ast.Name):
                        par = parents.get(n)
                        if n is st.targets[0]:
                            continue
                        if not (isinstance(par, ast.Attribute) and par.value is n and par.attr in fields and isinstance(par.ctx, ast.Load)):
                            uses_ok = False
            if not uses_ok:
                continue

            class Sc(ast.NodeTransformer):
                def visit_Attribute(self, node):
                    self.generic_visit(node)
                    if isinstance(node.value, ast.Attribute) and node.value.attr == a and isinstance(node.value.value, ast.Name) and node.attr in fields:
                        return ast.copy_location(ast.Attribute(value=node.value.value, attr=f"{a}__{node.attr}", ctx=node.ctx), node)
                    return node
            for m_ in methods:
                Sc().visit(m_.node)
            new_sts = [ast.copy_location(ast.Assign(targets=[ast.Attribute(value=ast.Name(id="self", ctx=ast.Load()), attr=f"{a}__{fn}", ctx=ast.Store())],
                                                    value=fv), fv) for fn, fv in given]
            for o_ in ast.walk(init.node):
                for fld in ("body", "orelse", "finalbody"):
                    b_ = getattr(o_, fld, None)
                    if isinstance(b_, list) and st in b_:
                        k_ = b_.index(st)
                        b_[k_:k_ + 1] = new_sts
            for m_ in methods:
                ast.fix_missing_locations(m_.node)
            done[init.site] = done.get(init.site, 0) + 1
    return done


# ---- dictionaries of keyword arguments --------------------------------------------------------------------------------------------
def expand_kwargs_dicts(index):
    """`dict(a=x, b=y)` is `{"a": x, "b": y}`; a local bound once to such a display (constant string keys) and used only as
    `**name` is written out as the keyword arguments it stands for: f(**{"a": x}) becomes f(a=x).  The values are evaluated
    where the display is written, so the expansion requires that nothing between the display and the call can change them:
    plain reads only (names, attribute chains, constants, arithmetic of those) and no rebinding of those names in between."""
    done = {}

    class DictCall(ast.NodeTransformer):
        def visit_Call(self, n):
            self.generic_visit(n)
            if isinstance(n.func, ast.Name) and n.func.id == "dict" and not n.args and n.keywords and all(k.arg is not None for k in n.keywords):
                return ast.copy_location(ast.Dict(keys=[ast.Constant(value=k.arg) for k in n.keywords], values=[k.value for k in n.keywords]), n)
            return n

    def plain(e):
        return not any(isinstance(x, (ast.Call, ast.Lambda, ast.Yield, ast.Await, ast.NamedExpr, ast.ListComp, ast.GeneratorExp, ast.DictComp, ast.SetComp))
                       and not (isinstance(x, ast.Call) and ast.unparse(x.func) in _PURE_CALLS) for x in ast.walk(e))

    class Splice(ast.NodeTransformer):
        def __init__(self, table):
            self.table = table

        def visit_Call(self, n):
            self.generic_visit(n)
            kws = []
            for k in n.keywords:
                if k.arg is None and isinstance(k.value, ast.Dict) and k.value.keys and \
                        all(isinstance(x, ast.Constant) and isinstance(x.value, str) and x.value.isidentifier() for x in k.value.keys):
                    kws.extend(ast.keyword(arg=x.value, value=v) for x, v in zip(k.value.keys, k.value.values))
                elif k.arg is None and isinstance(k.value, ast.Name) and k.value.id in self.table:
                    import copy
                    dv = self.table[k.value.id]
                    kws.extend(ast.keyword(arg=x.value, value=copy.deepcopy(v)) for x, v in zip(dv.keys, dv.values))
                else:
                    kws.append(k)
            n.keywords = kws
            return n

    for m in index.modules.values():
        funcs = list(m.functions.values()) + [f for c in m.all_classes() for fs in c.methods.values() for f in fs]
        for f in funcs:
            DictCall().visit(f.node)
            par = {}
            for n in ast.walk(f.node):
                for ch in ast.iter_child_nodes(n):
                    par[ch] = n
            table = {}
            for n in ast.walk(f.node):
                if isinstance(n, ast.Assign) and len(n.targets) == 1 and isinstance(n.targets[0], ast.Name) and isinstance(n.value, ast.Dict) and n.value.keys and \
                        all(isinstance(x, ast.Constant) and isinstance(x.value, str) and x.value.isidentifier() for x in n.value.keys) and \
                        all(plain(v) for v in n.value.values):
                    nm = n.targets[0].id
                    uses = [x for x in ast.walk(f.node) if isinstance(x, ast.Name) and x.id == nm]
                    stores = [x for x in uses if isinstance(x.ctx, ast.Store)]
                    loads = [x for x in uses if isinstance(x.ctx, ast.Load)]
                    if len(stores) != 1 or not loads or not all(isinstance(par.get(x), ast.keyword) and par[x].arg is None for x in loads):
                        continue
                    # names read by the values must not be rebound after the display (up to the last use)
                    read = {x.id for v in n.value.values for x in ast.walk(v) if isinstance(x, ast.Name)}
                    last = max(x.lineno for x in loads)
                    if any(isinstance(x, ast.Name) and isinstance(x.ctx, ast.Store) and x.id in read and n.lineno < x.lineno <= last for x in ast.walk(f.node)):
                        continue
                    table[nm] = n.value
            before = ast.dump(f.node)
            Splice(table).visit(f.node)
            if table:
                # the displays themselves are no longer needed
                def prune(stmts):
                    stmts[:] = [s for s in stmts if not (isinstance(s, ast.Assign) and len(s.targets) == 1 and isinstance(s.targets[0], ast.Name) and
                                                         s.targets[0].id in table and s.value is table[s.targets[0].id])]
                    for s in stmts:
                        for field in ("body", "orelse", "finalbody"):
                            blk = getattr(s, field, None)
                            if isinstance(blk, list) and blk and isinstance(blk[0], ast.stmt):
                                prune(blk)
                prune(f.node.body)
            if ast.dump(f.node) != before:
                done[f.site] = sorted(table) or ["**{...}"]
                ast.fix_missing_locations(f.node)
    return done
