"""Canonical names for private attributes, discovered by role.

Rules refer to the book-keeping state of the library by the names it has today (`self._ranges`, `self._subs`, ...).
Renaming a private attribute is a behaviour-preserving edit, so before any rule runs the index discovers each such
attribute *by the role it plays* (the field constructed as `_RangeMap()`, the dict stored under `id(resource)` in
add_resource, the list `add()` appends the initiator to, ...) and, when it carries another name, alpha-renames it in the
parsed trees.  Reports then show the canonical name; `Index.renamed` records the mapping."""
import ast


def _self_attr(node):
    if isinstance(node, ast.Attribute) and isinstance(node.value, ast.Name) and node.value.id == "self":
        return node.attr
    return None


def _ctor_field(cls, class_names):
    init = cls.method("__init__")
    if init is None:
        return None
    for n in ast.walk(init.node):
        if isinstance(n, ast.Assign) and len(n.targets) == 1 and _self_attr(n.targets[0]) and isinstance(n.value, ast.Call):
            f = n.value.func
            nm = f.id if isinstance(f, ast.Name) else (f.attr if isinstance(f, ast.Attribute) else None)
            if nm in class_names:
                return _self_attr(n.targets[0])
    return None


def _assigned_const(cls, method, value):
    m = cls.method(method)
    if m is None:
        return None
    for n in ast.walk(m.node):
        if isinstance(n, ast.Assign) and len(n.targets) == 1 and _self_attr(n.targets[0]) and \
                isinstance(n.value, ast.Constant) and n.value.value is value:
            return _self_attr(n.targets[0])
    return None


def _first_assigned(cls, method):
    m = cls.method(method)
    if m is None:
        return None
    for n in ast.walk(m.node):
        if isinstance(n, ast.Assign) and len(n.targets) == 1 and _self_attr(n.targets[0]):
            return _self_attr(n.targets[0])
    return None


def _subscript_store(cls, method, key_pred=None, value_pred=None):
    m = cls.method(method)
    if m is None:
        return None
    for n in ast.walk(m.node):
        if isinstance(n, ast.Assign) and len(n.targets) == 1 and isinstance(n.targets[0], ast.Subscript):
            t = n.targets[0]
            a = _self_attr(t.value)
            if a and (key_pred is None or key_pred(t.slice)) and (value_pred is None or value_pred(n.value)):
                return a
    return None


def _method_call_receiver(cls, method, attr, arg_pred=None):
    m = cls.method(method)
    if m is None:
        return None
    for n in ast.walk(m.node):
        if isinstance(n, ast.Call) and isinstance(n.func, ast.Attribute) and n.func.attr == attr:
            a = _self_attr(n.func.value)
            if a and (arg_pred is None or arg_pred(n)):
                return a
    return None


def _is_id_of(name):
    return lambda k: isinstance(k, ast.Call) and isinstance(k.func, ast.Name) and k.func.id == "id" and \
        len(k.args) == 1 and isinstance(k.args[0], ast.Name) and k.args[0].id == name


def _arg_is(pos, text):
    return lambda c: len(c.args) > pos and ast.unparse(c.args[pos]) == text


def discover(index):
    """-> {(class site, found name): canonical name}"""
    out = {}

    def put(cls, found, canonical):
        if found is not None and found != canonical:
            out[(cls.site, found)] = canonical

    for cls in index.all_classes():
        q = cls.qual
        if q == "MemoryMap":
            put(cls, _ctor_field(cls, {"_RangeMap"}), "_ranges")
            put(cls, _ctor_field(cls, {"_Namespace"}), "_namespace")
            put(cls, _assigned_const(cls, "freeze", True), "_frozen")
            put(cls, _first_assigned(cls, "align_to"), "_next_addr")
            put(cls, _subscript_store(cls, "add_resource", _is_id_of("resource")), "_resources")
            put(cls, _subscript_store(cls, "add_window", _is_id_of("window")), "_windows")
        elif q == "_RangeMap":
            put(cls, _method_call_receiver(cls, "insert", "insert", _arg_is(1, "key.start")), "_starts")
            put(cls, _method_call_receiver(cls, "insert", "insert", _arg_is(1, "key.stop")), "_stops")
            put(cls, _method_call_receiver(cls, "insert", "insert", _arg_is(1, "key")), "_keys")
            put(cls, _subscript_store(cls, "insert", lambda k: isinstance(k, ast.Name) and k.id == "key"), "_values")
        elif q == "_Namespace":
            put(cls, _subscript_store(cls, "assign"), "_assignments")
        elif q == "EventMap":
            put(cls, _subscript_store(cls, "add"), "_sources")
            put(cls, _assigned_const(cls, "freeze", True), "_frozen")
        elif q == "Builder":
            put(cls, _subscript_store(cls, "add"), "_registers")
            put(cls, _method_call_receiver(cls, "Cluster", "append"), "_scope_stack")
            put(cls, _assigned_const(cls, "freeze", True), "_frozen")
        elif q == "Decoder":
            put(cls, _subscript_store(cls, "add", None, lambda v: isinstance(v, ast.Name) and v.id == "sub_bus"), "_subs")
        elif q == "Arbiter":
            put(cls, _method_call_receiver(cls, "add", "append", _arg_is(0, "intr_bus")), "_intrs")
    return out


def apply(index, mapping):
    """Alpha-rename discovered private attributes to their canonical names (only when the found name is private to
    that one class, so the rename cannot capture anything else)."""
    if not mapping:
        return {}
    # which classes assign self.<name> anywhere?
    owners = {}
    for cls in index.all_classes():
        for fs in cls.methods.values():
            for f in fs:
                for n in ast.walk(f.node):
                    if isinstance(n, (ast.Assign, ast.AugAssign, ast.AnnAssign)):
                        for t in (n.targets if isinstance(n, ast.Assign) else [n.target]):
                            a = _self_attr(t)
                            if a:
                                owners.setdefault(a, set()).add(cls.site)
    done = {}
    for (site, found), canonical in mapping.items():
        if owners.get(found, set()) - {site}:
            continue                                    # the name is also a field of another class: leave it alone
        if canonical in owners and site in owners[canonical]:
            continue                                    # canonical name already in use in that class
        for m in index.modules.values():
            for n in ast.walk(m.tree):
                if isinstance(n, ast.Attribute) and n.attr == found:
                    n.attr = canonical
        done[f"{site}.{found}"] = canonical
    return done


# static helper methods that the rules refer to as methods of a class; a maintainer may turn them into module-level functions
HELPER_METHODS = {"MemoryMap": ("_align_up", "_translate")}


def relocate_helpers(index):
    """A static helper method that became a module-level function of the same module (same name, or the name plus a suffix) is
    re-attached to its class for the analysis: calls `helper(...)` are rewritten to `self.<canonical>(...)` and the function is
    registered as a static method.  Returns {class.method: function site}."""
    done = {}
    for cls in index.all_classes():
        for name in HELPER_METHODS.get(cls.qual, ()):
            if cls.method(name) is not None:
                continue
            fns = [(n_, g) for n_, g in cls.module.functions.items() if n_ == name or n_.startswith(name + "_")]
            if len(fns) != 1:
                continue
            fname, fi = fns[0]
            for n in ast.walk(cls.module.tree):
                if isinstance(n, ast.Call) and isinstance(n.func, ast.Name) and n.func.id == fname:
                    n.func = ast.copy_location(ast.Attribute(value=ast.Name(id="self", ctx=ast.Load()), attr=name, ctx=ast.Load()), n.func)
                    ast.fix_missing_locations(n)
            fi.node.name = name
            fi.name = name
            fi.cls = cls
            if "staticmethod" not in fi.decorators:
                fi.decorators.append("staticmethod")
            fi.qual = cls.qual + "." + name
            cls.methods.setdefault(name, []).append(fi)
            done[f"{cls.qual}.{name}"] = fi.site
    return done
