"""E-DL: decision lists and canonical truth tables.

For one target in one domain the drivers form a priority list (later emission wins).  The list is
turned into a function  valuation -> value  over Boolean atoms and compared with a role table by
enumerating every valuation (normal-form computation on extracted syntax; no solver, no execution)."""
import itertools

from . import ir
from .report import Undecided

MAX_ATOMS = 14

T = ('T',)
F = ('F',)


def f_not(a):
    if a == T:
        return F
    if a == F:
        return T
    if a[0] == 'not':
        return a[1]
    return ('not', a)


def f_and(*xs):
    out = []
    for x in xs:
        if x == F:
            return F
        if x == T:
            continue
        if x[0] == 'and':
            out.extend(x[1])
        else:
            out.append(x)
    if not out:
        return T
    if len(out) == 1:
        return out[0]
    return ('and', tuple(out))


def f_or(*xs):
    out = []
    for x in xs:
        if x == T:
            return T
        if x == F:
            continue
        if x[0] == 'or':
            out.extend(x[1])
        else:
            out.append(x)
    if not out:
        return F
    if len(out) == 1:
        return out[0]
    return ('or', tuple(out))


def f_atoms(f, acc):
    k = f[0]
    if k == 'atom':
        acc.add(f[1])
    elif k == 'not':
        f_atoms(f[1], acc)
    elif k in ('and', 'or'):
        for x in f[1]:
            f_atoms(x, acc)
    elif k == 'xor':
        f_atoms(f[1], acc)
        f_atoms(f[2], acc)
    elif k == 'ite':
        f_atoms(f[1], acc)
        f_atoms(f[2], acc)
        f_atoms(f[3], acc)
    return acc


def f_eval(f, val):
    k = f[0]
    if k == 'T':
        return True
    if k == 'F':
        return False
    if k == 'atom':
        return val[f[1]]
    if k == 'not':
        return not f_eval(f[1], val)
    if k == 'and':
        return all(f_eval(x, val) for x in f[1])
    if k == 'or':
        return any(f_eval(x, val) for x in f[1])
    if k == 'xor':
        return f_eval(f[1], val) != f_eval(f[2], val)
    if k == 'ite':
        return f_eval(f[2], val) if f_eval(f[1], val) else f_eval(f[3], val)
    raise AssertionError(f)


def f_show(f):
    k = f[0]
    if k in ('T', 'F'):
        return k
    if k == 'atom':
        return f[1]
    if k == 'not':
        return "~" + f_show(f[1])
    if k in ('and', 'or'):
        return "(" + (" & " if k == 'and' else " | ").join(f_show(x) for x in f[1]) + ")"
    if k == 'xor':
        return f"({f_show(f[1])} ^ {f_show(f[2])})"
    return f"ite({f_show(f[1])}, {f_show(f[2])}, {f_show(f[3])})"


# one-bit signals by protocol definition (Wishbone B4 control lines; CSR / field / event strobes) -- A4
PROTOCOL_BITS = {"cyc", "stb", "we", "ack", "err", "rty", "stall", "lock", "r_stb", "w_stb", "trg"}


class Widths:
    """Best-effort knowledge of which expressions are one bit wide (declared shapes only)."""

    def __init__(self, index, cls=None, template=None, extra_bits=()):
        self.index = index
        self.cls = cls
        self.t = template
        self.extra = set(extra_bits)        # canonical texts declared one bit wide by the rule
        decl = {}
        for c in index.all_classes():
            for name, ds in index.members(c).items():
                for flow, shape, conds, ln, arr in ds:
                    decl.setdefault(name, []).append(self._shape_is_bit(shape) and not arr)
        self.global_bits = {n for n, v in decl.items() if all(v)} | (PROTOCOL_BITS - {n for n, v in decl.items() if not all(v)})
        # attributes that every class of the package which has them creates as a plain one-bit `Signal()` (the r_en / w_en strobes of
        # a shadow chunk): one bit wide whichever object they are read from
        import ast as _ast0
        made = {}
        for f_ in index.all_functions():
            for st in _ast0.walk(f_.node):
                if isinstance(st, _ast0.Assign):
                    for t_ in st.targets:
                        if isinstance(t_, _ast0.Attribute) and isinstance(t_.value, _ast0.Name) and t_.value.id == "self":
                            v_ = st.value
                            one = isinstance(v_, _ast0.Call) and isinstance(v_.func, _ast0.Name) and v_.func.id == "Signal" and \
                                not any(k_.arg in ("shape",) or k_.arg is None for k_ in v_.keywords) and \
                                (not v_.args or (isinstance(v_.args[0], _ast0.Constant) and v_.args[0].value == 1))
                            made.setdefault(t_.attr.lstrip("_"), []).append(bool(one))
        self.global_bits |= {n for n, v in made.items() if all(v) and n not in decl}
        self.own = {}
        self.own_signal = set()
        self.private_signals = set()
        if cls is not None:
            import ast as _ast
            for k in [cls] + list(index.bases_of(cls)):
                init = k.method("__init__")
                if init is None:
                    continue
                for st in _ast.walk(init.node):
                    if isinstance(st, _ast.Assign) and len(st.targets) == 1 and isinstance(st.targets[0], _ast.Attribute) and \
                            isinstance(st.targets[0].value, _ast.Name) and st.targets[0].value.id == "self" and \
                            isinstance(st.value, _ast.Call) and _ast.unparse(st.value.func) in ("Signal", "Signal.like"):
                        self.private_signals.add(st.targets[0].attr)
        if cls is not None:
            for name, ds in index.members(cls).items():
                self.own[name] = all(self._shape_is_bit(s) and not arr for _, s, _, _, arr in ds)
                if all(self._shape_is_plain(s) and not arr for _, s, _, _, arr in ds):
                    self.own_signal.add(name)

    @staticmethod
    def _shape_is_bit(shape):
        if shape == ('const', 1):
            return True
        if shape[0] == 'call' and shape[1] == ('name', 'unsigned') and shape[2] == (('const', 1),):
            return True
        return False

    @staticmethod
    def _shape_is_plain(shape):
        """A data shape (int / unsigned(..) / parameter), not a nested signature."""
        if shape[0] == 'const':
            return True
        if shape[0] == 'call':
            fn = shape[1]
            if fn[0] == 'name' and fn[1] in ('unsigned', 'signed', 'range'):
                return True
            return False
        if shape[0] == 'attr' and shape[2] in ('size', 'width', 'addr_width', 'data_width', 'shape'):
            return True
        if shape[0] == 'name' and shape[1] in ('shape', 'width'):
            return True
        return False

    DATA_ATTRS = {'w_data', 'r_data', 'dat_w', 'dat_r', 'sel', 'adr', 'addr', 'pending', 'enable', 'clear',
                  'alt_mode'}

    def is_signal(self, e):
        """Is e a plain (multi-bit) signal so that e[i] is one bit?"""
        if e[0] == 'sig':
            return True
        if e[0] == 'attr':
            if e[1] == ('name', 'self') and e[2] in self.own_signal:
                return True
            if e[2] in self.DATA_ATTRS:
                return True
            if e[1] == ('name', 'self') and (e[2].startswith('_storage') or e[2] in self.private_signals):
                return True
        return False

    def bit(self, e):
        k = e[0]
        if ir.show(e) in self.extra:
            return True
        if k == 'const':
            return e[1] in (0, 1, True, False) and not isinstance(e[1], str)
        if k == 'cmp':
            return True
        if k in ('and', 'or'):
            return True
        if k == 'un':
            if e[1] == 'not':
                return True
            return e[1] == '~' and self.bit(e[2])
        if k == 'nary' and e[1] in ('&', '|', '^'):
            return all(self.bit(x) for x in e[2])
        if k == 'bin' and e[1] in ('&', '|', '^'):
            return self.bit(e[2]) and self.bit(e[3])
        if k == 'attr':
            if e[1] == ('name', 'self') and e[2] in self.own:
                return self.own[e[2]]
            if e[2] in self.global_bits:
                return True
            return False
        if k == 'sub':
            if e[2][0] == 'slice':
                return False
            return self.is_signal(e[1])
        if k == 'sig':
            if self.t is None:
                return False
            s = self.t.sigs.get(e[1])
            if s is None:
                return False
            c = s.ctor
            if c[1] == ('name', 'Signal'):
                if not c[2] and not any(kk == 'shape' for kk, _ in c[3]):
                    return True
                if c[2] and self._shape_is_bit(c[2][0]):
                    return True
            if c[1] == ('attr', ('name', 'Signal'), 'like') and c[2]:
                return self.bit(c[2][0])
            return False
        if k == 'call':
            fn = e[1]
            if fn[0] == 'attr' and fn[2] in ('any', 'all', 'bool', 'xor') and not e[2]:
                return True
            if fn == ('name', 'Mux') and len(e[2]) == 3:
                return self.bit(e[2][1]) and self.bit(e[2][2])
            return False
        if k == 'ifexp' or k == 'phi':
            return self.bit(e[2]) and self.bit(e[3])
        if k == 'has':
            return True
        return False


def _subst_topdown(e, target, repl):
    """Replace every occurrence of the node `target` in e by `repl`, outermost first (children of a replaced node are not visited)."""
    if e == target:
        return repl
    if not isinstance(e, tuple):
        return e
    return tuple(_subst_topdown(x, target, repl) if isinstance(x, tuple) else x for x in e)


class Engine:
    py_bool_negations = None

    def __init__(self, widths, ctx):
        self.w = widths
        self.ctx = ctx
        self.atom_ir = {}
        self.py_bool_negations = []
        self._wire_cache = {}
        self._by_target = None
        self._partial = None

    def norm(self, e):
        return ir.norm(e, self.ctx)

    def atom(self, e):
        """Atom for an (already normalised) expression; handles == / != canonicalisation."""
        if e[0] == 'cmp' and e[1] == '!=':
            return f_not(self.atom(('cmp', '==', e[2], e[3])))
        if e[0] == 'cmp' and e[1] == 'not in':
            return f_not(self.atom(('cmp', 'in', e[2], e[3])))
        if e[0] == 'cmp' and e[1] == 'is not':
            return f_not(self.atom(('cmp', 'is', e[2], e[3])))
        if e[0] == 'cmp' and e[1] == '==' and any(x[0] == 'enum' and isinstance(x[3], int) and not isinstance(x[3], bool) for x in (e[2], e[3])):
            # an enum member with an integer value is that integer (amaranth enums carry a shape): one atom for both spellings
            e2 = self.norm(('cmp', '==', *[('const', x[3]) if x[0] == 'enum' and isinstance(x[3], int) else x for x in (e[2], e[3])]))
            if e2[0] == 'cmp' and e2 != e:
                return self._b(e2) if e2[1] in ('==', '!=') else self.atom(e2)
        key = ir.show(e)
        self.atom_ir[key] = e
        return ('atom', key)

    def may_be_signal(self, e):
        for x in ir.walk(e):
            if x[0] in ('sig', 'carry', 'final', 'acc'):
                return True
            if x[0] == 'attr' and (x[2] in PROTOCOL_BITS or x[2] in Widths.DATA_ATTRS or self.w.is_signal(x) or
                                   (x[2] in self.w.global_bits)):
                return True
            if x[0] == 'call' and x[1][0] == 'name' and x[1][1] in ("Cat", "Mux", "Const", "C", "Signal", "Repl"):
                return True
            if x[0] == 'call' and x[1][0] == 'attr' and x[1][2] in ("any", "all", "bool", "replicate", "as_unsigned", "as_signed"):
                return True
        return False

    def py_bool(self, e):
        """An expression that is a Python bool at generation time (not an Amaranth value)."""
        k = e[0]
        if k == 'has':
            return True
        if k == 'const':
            return isinstance(e[1], bool)
        if k == 'un' and e[1] == 'not':
            return True
        if k in ('and', 'or'):
            return all(self.py_bool(x) for x in e[1])
        if k == 'cmp':
            if e[1] in ('is', 'in'):
                return True
            return not self.may_be_signal(e[2]) and not self.may_be_signal(e[3])
        if k == 'call' and e[1] in (('name', 'isinstance'), ('name', 'callable'), ('name', 'bool')):
            return not self.may_be_signal(e)
        return False

    def cond(self, e):
        """Boolean formula of a guard expression (Amaranth truthiness: value != 0)."""
        return self._b(self.norm(e), guard=True)

    def _b(self, e, guard=False):
        k = e[0]
        if k == 'const':
            if isinstance(e[1], (bool, int)):
                return T if e[1] else F
            if e[1] is None:
                return F
        if k == 'un' and e[1] == 'not':
            return f_not(self._b(e[2], True))
        # bit i of a local combinational wire that has one unconditional whole-signal driver: bit i of what drives it
        if k == 'sub' and e[1][0] == 'sig' and e[2][0] != 'slice' and self.is_comb_wire(e[1]):
            ds_ = self._by_target.get(e[1], [])
            sg_ = self.w.t.sigs[e[1][1]]
            if len(ds_) == 1 and not ds_[0].dsl and list(ds_[0].gen) == list(sg_.gen):
                v_ = self.norm(('sub', self.norm(ds_[0].value), e[2]))
                if not (v_[0] == 'sub' and v_[1] == self.norm(ds_[0].value)):       # it reduced to something about the operands
                    return self._b(v_, guard)
        # bool(x) is the truth value of x; for a Python object with a length (a name part, a list of fields ...) so is `len(x) > 0`
        if k == 'call' and e[1] == ('name', 'bool') and len(e[2]) == 1 and not e[3] and not self.may_be_signal(e[2][0]):
            return self._b(e[2][0], True)
        if k == 'cmp' and e[1] in ('<', '!=', '>', '>=', '<=', '=='):
            for a_, b_, op_ in ((e[2], e[3], e[1]), (e[3], e[2], {'<': '>', '>': '<', '<=': '>=', '>=': '<=', '!=': '!=', '==': '=='}[e[1]])):
                # a_ op_ b_ with a_ == len(X)
                if a_[0] == 'call' and a_[1] == ('name', 'len') and len(a_[2]) == 1 and not self.may_be_signal(a_[2][0]) and \
                        b_[0] == 'const' and isinstance(b_[1], int) and not isinstance(b_[1], bool):
                    nonempty = (op_, b_[1]) in (('>', 0), ('!=', 0), ('>=', 1))
                    empty = (op_, b_[1]) in (('==', 0), ('<', 1), ('<=', 0))
                    if nonempty or empty:
                        f_ = self._b(a_[2][0], True)
                        return f_ if nonempty else f_not(f_)
        if k == 'and':
            return f_and(*[self._b(x, True) for x in e[1]])
        if k == 'or':
            return f_or(*[self._b(x, True) for x in e[1]])
        if k == 'un' and e[1] == '~' and self.py_bool(e[2]):
            # ~True == -2 and ~False == -1: bitwise negation of a *Python* boolean is always truthy
            self.py_bool_negations.append(e)
            return T
        if k == 'un' and e[1] == '~' and self.w.bit(e[2]):
            return f_not(self._b(e[2]))
        if k == 'nary' and e[1] in ('&', '|', '^') and all(self.w.bit(x) for x in e[2]):
            parts = [self._b(x) for x in e[2]]
            if e[1] == '&':
                return f_and(*parts)
            if e[1] == '|':
                return f_or(*parts)
            out = parts[0]
            for p in parts[1:]:
                out = ('xor', out, p)
            return out
        if k == 'cmp' and e[1] == 'is' and e[3] == ('const', None) and (self.w.bit(e[2]) or self.w.is_signal(e[2])):
            return F                    # a declared signal is never None
        if k == 'cmp' and e[1] == '<' and self.w.bit(e[2]) and self.w.bit(e[3]):
            return f_and(f_not(self._b(e[2])), self._b(e[3]))       # unsigned one-bit operands: a < b  is  ~a & b
        if k == 'cmp' and e[1] in ('==', '!='):
            # (a - b) == 0 between two one-bit operands -> xnor
            lhs, rhs = e[2], e[3]
            if rhs == ('const', 0) and lhs[0] == 'lin' and lhs[1] == 0 and len(lhs[2]) == 2:
                (t1, c1), (t2, c2) = lhs[2]
                if {c1, c2} == {1, -1} and self.w.bit(t1) and self.w.bit(t2):
                    x = ('xor', self._b(t1), self._b(t2))
                    return f_not(x) if e[1] == '==' else x
            if rhs[0] == 'const' and rhs[1] in (0, 1) and self.w.bit(lhs):
                b = self._b(lhs)
                pos = (rhs[1] == 1) == (e[1] == '==')
                return b if pos else f_not(b)
            # <multi-bit combinational wire> == K: decided from the wire's own drivers
            pair = None
            if rhs == ('const', 0) and lhs[0] == 'lin':
                terms = dict(lhs[2])
                sigs = [t for t, cf in lhs[2] if t[0] == 'sig' and cf in (1, -1)]
                if len(sigs) == 1:
                    s_ = sigs[0]
                    cf = terms[s_]
                    rest = {t: -v * cf for t, v in terms.items() if t != s_}
                    pair = (s_, ir.norm(ir._from_lin(-lhs[1] * cf, rest), self.ctx))
            elif lhs[0] == 'sig':
                pair = (lhs, rhs)
            elif rhs[0] == 'sig':
                pair = (rhs, lhs)
            if pair is not None:
                wf = self.wire_equals(pair[0], pair[1])
                if wf is not None:
                    return wf if e[1] == '==' else f_not(wf)
                if self.is_comb_wire(pair[0]):
                    # a comparison with an intermediate wire that cannot be resolved is opaque: never grounds for a violation
                    return self.atom(('opaque', f"{ir.show(e)[:80]} (intermediate wire not resolved)"))
            return self.atom(e)
        if k == 'call' and e[1] == ('name', 'Mux') and len(e[2]) == 3 and self.w.bit(e[2][1]) and self.w.bit(e[2][2]):
            return ('ite', self._b(e[2][0], True), self._b(e[2][1]), self._b(e[2][2]))
        if k in ('ifexp', 'phi') and (guard or (self.w.bit(e[2]) and self.w.bit(e[3]))):
            return ('ite', self._b(e[1], True), self._b(e[2], guard), self._b(e[3], guard))
        if k == 'has':
            return self.atom(e)
        if k == 'sig':
            wf = self.wire_formula(e)
            if wf is not None:
                return wf
        if guard and not self.w.bit(e) and (e[0] == 'lin' or (e[0] == 'bin' and e[1] in ('%', '//', '-', '+', '*', '**')) or
                                            (e[0] == 'nary' and e[1] in ('*', '&', '|', '^') and not self.may_be_signal(e))):
            # truthiness of an integer expression:  if x % n:  ==  if x % n != 0:
            z = self.norm(('cmp', '==', e, ('const', 0)))
            if z[0] == 'cmp':
                return f_not(self.atom(z))
        if self.w.bit(e) or guard:
            return self.atom(e)
        raise Undecided(f"not a Boolean expression: {ir.show(e)}")

    def _index_drivers(self):
        t = self.w.t
        if self._by_target is None:
            self._by_target, self._partial = {}, set()
            for d_ in t.drivers:
                tn = self.norm(d_.target)
                self._by_target.setdefault(tn, []).append(d_)
                if tn[0] != 'sig':
                    for x in ir.walk(tn):
                        if x[0] == 'sig':
                            self._partial.add(x)

    def is_comb_wire(self, s):
        t = self.w.t
        if t is None or s[0] != 'sig' or s[1] not in t.sigs:
            return False
        self._index_drivers()
        ds = self._by_target.get(s, [])
        return bool(ds) and s not in self._partial and all(d_.domain == 'comb' for d_ in ds)

    def wire_equals(self, s, K):
        """Formula of `w == K` for a local multi-bit wire w (combinational, whole-signal drivers only): by priority, the
        value of the winning driver is compared with K; with no driver active the wire holds its default.  A driver that
        sits in a generation loop which the wire itself is outside of stands for one driver per iteration: the iteration
        the comparison belongs to is kept symbolic, all *other* iterations are summarised by one atom that is exclusive
        with this iteration's Case and whose value (another loop index) differs from this iteration's index."""
        t = self.w.t
        if not self.is_comb_wire(s) or self.w.bit(s):
            return None
        sig = t.sigs[s[1]]
        ctor = sig.ctor
        if ctor[0] != 'call' or ctor[1] != ('name', 'Signal'):
            return None
        kws = dict(ctor[3])
        dflt = self.norm(kws.get('init', kws.get('reset', ('const', 0))))

        def eqf(v, k):
            v, k = self.norm(v), self.norm(k)
            if v == k:
                return T
            if v[0] == 'const' and k[0] == 'const':
                return F
            if v[0] == 'enum' and k[0] == 'enum':
                return T if v == k else F
            if ir.contains(v, lambda x: x[0] in ('sig', 'opaque', 'call')) or ir.contains(k, lambda x: x[0] in ('sig', 'opaque', 'call')):
                return None
            return self.atom(self.norm(('cmp', '==', v, k)))
        wire_loops = {fr[1] for fr in sig.gen if fr[0] == 'for'}
        f = eqf(dflt, K)
        if f is None:
            return None
        ds = sorted(self._by_target[s], key=lambda x: (tuple(c.v if hasattr(c, "v") else c for c in x.order), x.seqno))
        for d_ in ds:
            g = self.guard(d_)
            this = eqf(d_.value, K)
            if this is None:
                return None
            extra = [fr[1] for fr in d_.gen if fr[0] == 'for' and fr[1] not in wire_loops]
            if extra:
                if len(extra) != 1:
                    return None
                L = extra[0]
                v = self.norm(d_.value)
                k = self.norm(K)
                if v != ('idx', L) or not ir.contains(k, lambda x: x == ('idx', L)) or k != ('idx', L):
                    return None                     # only "assigns its own loop index, compared with this iteration's index"
                cases = [fr for fr in d_.dsl if fr[0] == 'case']
                if len(cases) != 1 or len(d_.dsl) != len([fr for fr in d_.dsl if fr[0] in ('case', 'switch')]):
                    return None
                key = f"other-iteration#{L}:{f_show(g)}"
                group = self.atom_ir.get(f_show(g))
                self.atom_ir[key] = ('caseatom', self._case_group(cases[0]), ('other', L))
                other = ('atom', key)
                f = ('ite', g, this, ('ite', other, F, f))
            else:
                f = ('ite', g, this, f)
        return f

    def _case_group(self, fr):
        """Exclusivity group of a Case frame (the same key frame_formula files its atom under)."""
        t = self.w.t
        pats = tuple(self.norm(p) for p in fr[2])
        subj = self.norm(t.switches[fr[1]]) if t is not None and fr[1] in t.switches else None
        shared = subj is not None and pats and all(
            p[0] in ('idx', 'enum') or (p[0] == 'const' and isinstance(p[1], int) and not isinstance(p[1], bool)) for p in pats)
        return ('subj', ir.show(subj)) if shared else fr[1]

    def wire_formula(self, s):
        """A local one-bit signal driven only combinationally and only as a whole is a *wire*: its value is a Boolean
        function of its drivers (later assignment wins, unassigned = its default).  Returns that function, or None."""
        t = self.w.t
        if t is None or s[1] not in t.sigs:
            return None
        if s in self._wire_cache:
            return self._wire_cache[s]
        self._wire_cache[s] = None                      # a wire that (transitively) reads itself is left alone
        self._index_drivers()
        ds = self._by_target.get(s, [])
        if not ds or s in self._partial or any(d_.domain != 'comb' for d_ in ds) or not self.w.bit(s):
            return None
        ctor = t.sigs[s[1]].ctor
        if ctor[0] != 'call' or ctor[1] != ('name', 'Signal'):
            return None
        kws = dict(ctor[3])
        init = self.norm(kws.get('init', kws.get('reset', ('const', 0))))
        if init[0] != 'const' or init[1] not in (0, 1, False, True):
            return None
        f = T if init[1] else F
        try:
            for d_ in sorted(ds, key=lambda x: (tuple(c.v if hasattr(c, "v") else c for c in x.order), x.seqno)):
                f = ('ite', self.guard(d_), self._b(self.norm(d_.value)), f)
        except Undecided:
            return None
        self._wire_cache[s] = f
        return f

    # -- guard of a driver -------------------------------------------------------------------
    def frame_formula(self, fr):
        k = fr[0]
        if k == 'if':
            return self.cond(fr[1])
        if k == 'elif':
            return f_and(self.cond(fr[1]), *[f_not(self.cond(p)) for p in fr[2]])
        if k == 'else':
            return f_and(*[f_not(self.cond(p)) for p in fr[1]])
        if k == 'case':
            pats = tuple(self.norm(p) for p in fr[2])
            pats = tuple(('const', p[3]) if p[0] == 'enum' and isinstance(p[3], int) else p for p in pats)
            bb = self._blast(fr[1], pats)
            if bb is not None:
                return bb
            # Switches on the same subject share the atoms of their value patterns (an integer, an enum member, a loop
            # index): "the subject equals the pattern" does not depend on which Switch asks.  Bit patterns with
            # don't-cares can overlap, so there "this Case is taken" depends on the other Cases: kept per Switch.
            t = self.w.t
            subj = self.norm(t.switches[fr[1]]) if t is not None and fr[1] in t.switches else None
            shared = subj is not None and pats and all(
                p[0] in ('idx', 'enum') or (p[0] == 'const' and isinstance(p[1], int) and not isinstance(p[1], bool)) for p in pats)
            if shared and all(p[0] == 'const' for p in pats):
                # Case(K1, K2) on a value subject is `subject == K1 or subject == K2`: the same atoms a comparison
                # written in an expression produces
                return f_or(*[self._b(self.norm(('cmp', '==', subj, p))) for p in pats])
            if shared:
                key = f"case[{ir.show(subj)}](" + ", ".join(ir.show(p) for p in pats) + ")"
                self.atom_ir[key] = ('caseatom', ('subj', ir.show(subj)), pats)
            else:
                key = f"case#{fr[1]}(" + ", ".join(ir.show(p) for p in pats) + ")"
                self.atom_ir[key] = ('caseatom', fr[1], pats)
            return ('atom', key)
        if k == 'default':
            t = self.w.t
            if t is not None and fr[1] in t.switch_cases:
                alls = []
                for pats in t.switch_cases[fr[1]]:
                    pn = tuple(self.norm(p) for p in pats)
                    pn = tuple(('const', p[3]) if p[0] == 'enum' and isinstance(p[3], int) else p for p in pn)
                    b = self._blast(fr[1], pn)
                    if b is None:
                        alls = None
                        break
                    alls.append(b)
                if alls is not None:
                    return f_not(f_or(*alls))
            key = f"default#{fr[1]}"
            self.atom_ir[key] = ('defaultatom', fr[1])
            return ('atom', key)
        if k == 'pyif':
            c = self.cond(fr[1])
            return c if fr[2] else f_not(c)
        if k in ('for', 'switch', 'try', 'except'):
            return T
        raise AssertionError(fr)

    def _blast(self, sid, pats):
        """Case of a Switch whose subject is a concatenation of one-bit signals (or one such signal): the match is a
        Boolean function of those bits."""
        t = self.w.t
        if t is None or sid not in t.switches:
            return None
        subj = self.norm(t.switches[sid])
        if subj[0] == 'call' and subj[1] == ('name', 'Cat') and subj[2] and all(self.w.bit(b) for b in subj[2]):
            bits = list(subj[2])
        elif self.w.bit(subj):
            bits = [subj]
        else:
            return None
        alts = []
        for p in pats:
            if p[0] == 'const' and isinstance(p[1], int) and not isinstance(p[1], bool):
                if p[1] >= (1 << len(bits)):
                    alts.append(F)
                    continue
                pat = [(p[1] >> i) & 1 for i in range(len(bits))]
            elif p[0] == 'const' and isinstance(p[1], str) and len(p[1].replace("_", "")) == len(bits) and set(p[1]) <= set("01-_"):
                s_ = p[1].replace("_", "")
                pat = [None if ch == '-' else int(ch) for ch in reversed(s_)]
            else:
                return None
            lits = []
            for b, v in zip(bits, pat):
                if v is None:
                    continue
                fb = self._b(b)
                lits.append(fb if v else f_not(fb))
            alts.append(f_and(*lits))
        return f_or(*alts)

    def guard(self, driver, include_gen=True):
        parts = [self.frame_formula(fr) for fr in driver.dsl]
        if include_gen:
            parts += [self.frame_formula(fr) for fr in driver.gen]
        return f_and(*parts)

    # -- values ------------------------------------------------------------------------------
    def value_atoms(self, e, acc):
        e = self.norm(e)
        self._value_atoms(e, acc)

    def _value_atoms(self, e, acc):
        if e[0] == 'call' and e[1] == ('name', 'Mux') and len(e[2]) == 3:
            f_atoms(self._b(e[2][0], True), acc)
            self._value_atoms(e[2][1], acc)
            self._value_atoms(e[2][2], acc)
            return
        if e[0] in ('ifexp', 'phi'):
            f_atoms(self._b(e[1], True), acc)
            self._value_atoms(e[2], acc)
            self._value_atoms(e[3], acc)
            return
        nested = [x for x in ir.walk(e) if x[0] in ('ifexp', 'phi')]
        if nested and len(nested) > 4:
            # too many generation-time choices to enumerate variants: take the atoms of every condition and of every
            # choice-free one-bit sub-expression
            for x in nested:
                f_atoms(self._b(x[1], True), acc)
            for x in ir.walk(e):
                if x[0] not in ('ifexp', 'phi') and self.w.bit(x) and not any(y[0] in ('ifexp', 'phi') for y in ir.walk(x)):
                    try:
                        f_atoms(self._b(x), acc)
                    except Undecided:
                        pass
            return
        if nested and len(nested) <= 4:
            # generation-time choices inside the expression: their conditions are atoms, and so are the bits of
            # every variant the choices can produce
            for x in nested:
                f_atoms(self._b(x[1], True), acc)
            def variants(x, budget=[32]):
                # resolve choices outermost first (an inner choice may occur inside the condition or a branch of an outer one)
                first = next((y for y in ir.walk(x) if y[0] in ('ifexp', 'phi')), None)
                if first is None:
                    yield x
                    return
                for br in (2, 3):
                    if budget[0] <= 0:
                        return
                    budget[0] -= 1
                    done = [False]

                    def rep_(y, first=first, br=br, done=done):
                        if not done[0] and y == first:
                            return y[br]
                        return None
                    yield from variants(self.norm(_subst_topdown(x, first, first[br])))
            for variant in variants(e):
                self._value_atoms(variant, acc)
            return
        if self.w.bit(e):
            f_atoms(self._b(e), acc)

    def eval_value(self, e, val):
        return self._ev(self.norm(e), val)

    def _resolve(self, e, val):
        """Pick the live branch of every generation-time choice (phi / conditional expression) nested in e under val."""
        def f(x):
            if x[0] in ('ifexp', 'phi'):
                try:
                    return x[2] if f_eval(self._b(x[1], True), val) else x[3]
                except KeyError:
                    return None
            return None
        if not any(x[0] in ('ifexp', 'phi') for x in ir.walk(e)):
            return e
        return self.norm(ir.subst(e, f))

    def _ev(self, e, val):
        if e[0] not in ('ifexp', 'phi'):
            e = self._resolve(e, val)
        if e[0] == 'call' and e[1] == ('name', 'Mux') and len(e[2]) == 3:
            return self._ev(e[2][1] if f_eval(self._b(e[2][0], True), val) else e[2][2], val)
        if e[0] in ('ifexp', 'phi'):
            return self._ev(e[2] if f_eval(self._b(e[1], True), val) else e[3], val)
        if e[0] == 'call' and e[1] in (('name', 'Const'), ('name', 'C')) and e[2] and e[2][0][0] == 'const' and \
                isinstance(e[2][0][1], int) and not e[3]:
            return ('const', int(e[2][0][1]))          # as a whole assigned value, Const(v, w) is v
        if self.w.bit(e):
            return ('const', int(f_eval(self._b(e), val)))
        if e[0] == 'const' and isinstance(e[1], bool):
            return ('const', int(e[1]))
        if e[0] == 'enum':
            return ('const', e[3])
        return e if e[0] == 'const' else ('sym', ir.show(e), e)

    # -- exclusivity ---------------------------------------------------------------------------
    def exclusive_groups(self, atoms):
        groups = {}
        for a in atoms:
            e = self.atom_ir.get(a)
            if e is None:
                continue
            if e[0] == 'caseatom':
                groups.setdefault(('sw', e[1]), []).append(a)
            elif e[0] == 'defaultatom':
                groups.setdefault(('sw', e[1]), []).append(a)
                # the Default of a Switch is also exclusive with the shared (subject-keyed) atoms of that Switch's own patterns
                t = self.w.t
                if t is not None and e[1] in t.switches:
                    sk = ('subj', ir.show(self.norm(t.switches[e[1]])))
                    own = {tuple(self.norm(p) for p in pats) for pats in t.switch_cases.get(e[1], ())}
                    subj_n = self.norm(t.switches[e[1]])
                    own_consts = {p[0] for p in own if len(p) == 1 and p[0][0] in ('const', 'enum')}
                    own_consts |= {('const', p[3]) for p in list(own_consts) if p[0] == 'enum' and isinstance(p[3], int)}
                    for b in atoms:
                        eb = self.atom_ir.get(b)
                        if eb is not None and eb[0] == 'caseatom' and eb[1] == sk and tuple(eb[2]) in own:
                            groups.setdefault(('dflt', e[1]), [a]).append(b)
                        elif eb is not None and eb[0] == 'cmp' and eb[1] == '==' and eb[2] == subj_n and eb[3] in own_consts:
                            groups.setdefault(('dflt', e[1]), [a]).append(b)
            elif e[0] == 'call' and e[1] == ('name', 'isinstance') and len(e[2]) == 2 and e[2][1][0] == 'name' and \
                    e[2][1][1] in ('str', 'int', 'list', 'dict', 'tuple', 'set', 'frozenset', 'range', 'float', 'bytes'):
                # an object is an instance of at most one of these built-in types (bool is an int and is not listed on its own)
                groups.setdefault(('isinstance', ir.show(e[2][0])), []).append(a)
            elif e[0] == 'cmp' and e[1] == '==':
                lhs, rhs = e[2], e[3]
                if rhs[0] in ('const', 'enum') and lhs[0] not in ('const', 'enum'):
                    groups.setdefault(('eq', ir.show(lhs)), []).append(a)
                elif lhs[0] in ('const', 'enum') and rhs[0] not in ('const', 'enum'):
                    groups.setdefault(('eq', ir.show(rhs)), []).append(a)
        return [g for g in groups.values() if len(g) > 1]

    def valuations(self, atoms):
        atoms = sorted(atoms)
        if len(atoms) > MAX_ATOMS:
            raise Undecided(f"{len(atoms)} atoms exceed the truth-table bound {MAX_ATOMS}")
        groups = self.exclusive_groups(atoms)
        zw = self._zero_width_links(atoms)
        for bits in itertools.product((False, True), repeat=len(atoms)):
            val = dict(zip(atoms, bits))
            if any(sum(val[a] for a in g) > 1 for g in groups):
                continue
            if any(val[la] == lv and val[a] != forced for la, lv, a, forced in zw):
                continue
            yield val

    # -- a zero-width value is 0: `len(S) == 0` fixes every test of an expression that vanishes with S --
    @staticmethod
    def _len_of(e):
        if e[0] == 'call' and e[1] == ('name', 'len') and len(e[2]) == 1:
            return e[2][0]
        return None

    def _len_zero_when(self, e):
        """(S, truth) when the generation-time comparison `e` has truth value `truth` exactly for len(S) == 0."""
        if e[0] != 'cmp' or e[1] not in ('<', '<=', '>', '>=', '=='):
            return None
        import operator
        ops = {'<': operator.lt, '<=': operator.le, '>': operator.gt, '>=': operator.ge, '==': operator.eq}
        for a, b, flip in ((e[2], e[3], False), (e[3], e[2], True)):
            s = self._len_of(a)
            if s is None and a[0] == 'lin' and a[1] == 0 and len(a[2]) == 1 and a[2][0][1] == 1:
                s = self._len_of(a[2][0][0])
            if s is None:
                # a generation-time integer that a rule has shown to be the width of some signals / the length of a loop
                a1 = a[2][0][0] if (a[0] == 'lin' and a[1] == 0 and len(a[2]) == 1 and a[2][0][1] == 1) else a
                for key, sigs, loops in getattr(self, 'size_hints', ()):
                    if a1 == key:
                        s = ('sized', key, tuple(sigs), tuple(loops))
            if s is None or b[0] != 'const' or not isinstance(b[1], int) or isinstance(b[1], bool):
                continue
            f = (lambda n: ops[e[1]](b[1], n)) if flip else (lambda n: ops[e[1]](n, b[1]))
            t0 = f(0)
            if all(f(n) != t0 for n in range(1, 66)):
                return s, t0
        return None

    def _vanishes_with(self, e, s):
        """`e` is the constant 0 whenever `s` has width 0 (operands are zero-extended; a slice of nothing is nothing)."""
        if e == s:
            return True
        if s[0] == 'sized':
            return any(self._vanishes_with(e, x) for x in s[2])
        k = e[0]
        if k == 'bin' and e[1] == '&':
            return self._vanishes_with(e[2], s) or self._vanishes_with(e[3], s)
        if k == 'bin' and e[1] in ('|', '^'):
            return self._vanishes_with(e[2], s) and self._vanishes_with(e[3], s)
        if k == 'nary' and e[1] == '&':
            return any(self._vanishes_with(x, s) for x in e[2])
        if k == 'nary' and e[1] in ('|', '^'):
            return all(self._vanishes_with(x, s) for x in e[2])
        if k == 'sub':
            return self._vanishes_with(e[1], s)
        if k == 'call' and e[1][0] == 'attr' and e[1][2] in ('any', 'bool') and not e[2]:
            return self._vanishes_with(e[1][1], s)
        return False

    def _zero_width_links(self, atoms):
        links = []
        for la in atoms:
            e = self.atom_ir.get(la)
            z = self._len_zero_when(e) if e is not None else None
            if z is None:
                continue
            s, t0 = z
            for a in atoms:
                if a == la:
                    continue
                ea = self.atom_ir.get(a)
                if ea is None:
                    continue
                if s[0] == 'sized' and s[3] and any(x[0] == 'item' and x[1] in s[3] for x in ir.walk(ea)):
                    # the atom speaks about an element of a collection that is empty in this case: there is no such element
                    links.append((la, t0, a, True))
                    links.append((la, t0, a, False))
                    continue
                if ea[0] == 'cmp' and ea[1] == '==':
                    for x, y in ((ea[2], ea[3]), (ea[3], ea[2])):
                        if y == ('const', 0) and self._vanishes_with(x, s):
                            links.append((la, t0, a, True))
                            break
                elif self._vanishes_with(ea, s) and ea != s:
                    links.append((la, t0, a, False))
        return links


class DL:
    """Decision list of one target: entries (formula, value IR) highest priority first + default."""

    def __init__(self, entries, default, label="", target=None):
        self.entries = entries
        self.default = default          # value IR, or ('hold',)
        self.label = label
        self.target = target            # normalised target IR: assigning the target to itself is "hold"

    def show(self):
        parts = [f"{f_show(g)} -> {ir.show(v)}" for g, v in self.entries]
        parts.append("else " + ("hold" if self.default == ('hold',) else ir.show(self.default)))
        return "[" + "; ".join(parts) + "]"


HOLD = ('hold',)


def build(engine, drivers, default, include_gen=True):
    """drivers: all drivers of one (domain, target).  Later emission = higher priority."""
    ds = sorted(drivers, key=lambda d: (d.order, d.seqno), reverse=True)
    entries = [(engine.guard(d, include_gen), d.value) for d in ds]
    target = engine.norm(ds[0].target) if ds else None
    return DL(entries, default, target=target)


def expected(engine, table, default):
    """table: list of (guard IR, value IR) highest priority first (already role-substituted)."""
    return DL([(g[1] if g[0] == 'formula' else engine.cond(g), v) for g, v in table], default)


def _mask_target(engine, v, target):
    """target.eq(X & s.replicate(len(target))): the assignment truncates to the target anyway, so this is Mux(s, X, 0)."""
    v = engine.norm(v)
    if target is None or v[0] != 'nary' or v[1] != '&' or len(v[2]) != 2:
        return v
    n_t = engine.norm(('call', ('name', 'len'), (target,), ()))
    for m_, x_ in ((v[2][0], v[2][1]), (v[2][1], v[2][0])):
        if m_[0] == 'call' and m_[1][0] == 'attr' and m_[1][2] == 'replicate' and len(m_[2]) == 1 and engine.w.bit(m_[1][1]) and \
                engine.norm(m_[2][0]) == n_t:
            return ('call', ('name', 'Mux'), (m_[1][1], x_, ('const', 0)), ())
    return v


def _pick(engine, dl, val):
    for g, v in dl.entries:
        if f_eval(g, val):
            if dl.target is not None:
                v = _mask_target(engine, v, dl.target)
            r = engine.eval_value(v, val)
            if dl.target is not None and dl.default == HOLD and r[0] == 'sym' and r[1] == ir.show(dl.target):
                return ('hold',)                        # x <= x
            return r
    if dl.default == HOLD:
        return ('hold',)
    return engine.eval_value(dl.default, val)


def compare(engine, got, want, assume=None):
    """Compare two decision lists on every valuation.  `assume`: formula restricting valuations.

    Returns (equal: bool, rows: int, witness: str|None)."""
    atoms = set()
    for dl in (got, want):
        for g, v in dl.entries:
            f_atoms(g, atoms)
            engine.value_atoms(v, atoms)
        if dl.default != HOLD:
            engine.value_atoms(dl.default, atoms)
    if assume is not None:
        f_atoms(assume, atoms)
    rows = 0
    for val in engine.valuations(atoms):
        if assume is not None and not f_eval(assume, val):
            continue
        rows += 1
        try:
            a = _pick(engine, got, val)
            b = _pick(engine, want, val)
        except KeyError as ke:
            raise Undecided(f"an atom of a nested generation-time choice was not enumerated ({ke}); the comparison is not decided")
        # "hold" of a one-bit register is its current value, which is an atom of the table whenever an expression mentions it
        # (q <= trg | (q & ~clr) written as one assignment instead of If/Elif)
        tgt = got.target if got.target is not None else want.target
        if tgt is not None and (a == ('hold',)) != (b == ('hold',)):
            tkey = ir.show(tgt)
            if tkey in val:
                cur = ('const', int(val[tkey]))
                a = cur if a == ('hold',) else a
                b = cur if b == ('hold',) else b
        if a != b and a[0] == 'sym' and b[0] == 'sym':
            # the row fixes generation-time quantities (`K == 0` holds here): both values are read with K replaced by that constant
            eqs = []
            for k_, v_ in val.items():
                e_ = engine.atom_ir.get(k_)
                if v_ and e_ is not None and e_[0] == 'cmp' and e_[1] == '==':
                    for x_, y_ in ((e_[2], e_[3]), (e_[3], e_[2])):
                        if y_[0] == 'const' and isinstance(y_[1], int) and not isinstance(y_[1], bool) and x_[0] != 'const':
                            eqs.append((x_, y_))
                            try:
                                r_ = engine.eval_value(x_, val)     # the same quantity with this row's choices resolved
                                if r_[0] == 'sym' and r_[2] != x_:
                                    eqs.append((r_[2], y_))
                            except Exception:
                                pass
            # ... and quantities that are a width / a length: when such a size is 0 here, everything that has no bits is the value 0
            zero = []
            for k_, v_ in val.items():
                e_ = engine.atom_ir.get(k_)
                z_ = engine._len_zero_when(e_) if e_ is not None else None
                if z_ is not None and z_[1] == v_:
                    zero.append(z_[0])
                    if z_[0][0] == 'sized':
                        eqs.append((z_[0][1], ('const', 0)))
            if eqs:
                def sp(x):
                    for _ in range(3):
                        x2 = engine.norm(ir.subst(x, lambda t: next((c_ for e_, c_ in eqs if t == e_), None)))
                        if x2 == x:
                            break
                        x = x2
                    return x
                a2, b2 = sp(a[2]), sp(b[2])
                if a2 == b2:
                    continue
                if zero:
                    def nothing(x):
                        if x == ('const', 0):
                            return True
                        if x[0] == 'sub' and x[2][0] == 'slice' and x[2][1] == x[2][2]:
                            return True                 # x[a:a]
                        return any(engine._vanishes_with(x, s_) for s_ in zero)
                    if nothing(a2) and nothing(b2):
                        continue
        if a != b and a[0] == 'const' and b[0] == 'sym' or a != b and a[0] == 'sym' and b[0] == 'const':
            zero = []
            eqs2 = []
            for k_, v_ in val.items():
                e_ = engine.atom_ir.get(k_)
                z_ = engine._len_zero_when(e_) if e_ is not None else None
                if z_ is not None and z_[1] == v_:
                    zero.append(z_[0])
                    if z_[0][0] == 'sized':
                        eqs2.append((z_[0][1], ('const', 0)))
            if zero:
                c_, s_ = (a, b) if a[0] == 'const' else (b, a)
                x = s_[2]
                for _ in range(3):
                    x2 = engine.norm(ir.subst(x, lambda t: next((cc for ee, cc in eqs2 if t == ee), None)))
                    if x2 == x:
                        break
                    x = x2
                gone = (x[0] == 'sub' and x[2][0] == 'slice' and x[2][1] == x[2][2]) or any(engine._vanishes_with(x, z) for z in zero)
                if c_[1] == 0 and gone:
                    continue
        if a != b:
            on = ", ".join(f"{k}={int(v)}" for k, v in sorted(val.items()))
            if any("<<" in k for k in val):
                raise Undecided(f"at [{on}] the two sides differ, but a condition involves a construct the analysis treats as opaque "
                                "(an intermediate wire of unverified width, an unmodelled call): equivalence is not decided (N5)")
            def cfg(x):
                # a value computed through an intermediate wire or a Python list the comparison cannot see through is opaque
                if any(y[0] == 'listacc' or (y[0] == 'sig' and engine.is_comb_wire(y)) for y in ir.walk(x)):
                    return True
                # a private attribute that the constructor creates as a Signal is a signal, not a configuration quantity
                return is_config(x) and not engine.w.is_signal(x)
            opaque_side = (a[0] == 'sym' and cfg(a[2])) or (b[0] == 'sym' and cfg(b[2]))
            both_signals = a[0] == 'sym' and b[0] == 'sym' and engine.w.is_signal(a[2]) and engine.w.is_signal(b[2]) and a[2] != b[2]
            # a generation-time quantity against a constant, and the row itself says they are unequal (`1 < n` holds here): a real difference
            def row_separates(x, y):
                if x[0] != 'sym' or y[0] != 'sym':
                    return False
                def sp_(t):
                    for _ in range(3):
                        t2 = engine.norm(ir.subst(t, lambda u: next((c_ for e_, c_ in eqs_row if u == e_), None)))
                        if t2 == t:
                            break
                        t = t2
                    return t
                eqs_row = []
                for k_, v_ in val.items():
                    e_ = engine.atom_ir.get(k_)
                    if v_ and e_ is not None and e_[0] == 'cmp' and e_[1] == '==':
                        for p_, q_ in ((e_[2], e_[3]), (e_[3], e_[2])):
                            if q_[0] == 'const' and isinstance(q_[1], int) and not isinstance(q_[1], bool) and p_[0] != 'const':
                                eqs_row.append((p_, q_))
                x2, y2 = sp_(x[2]), sp_(y[2])
                for k2, e2 in ((x2, y2), (y2, x2)):
                    if k2[0] == 'const' and isinstance(k2[1], int) and not isinstance(k2[1], bool) and is_config(e2):
                        for k_, v_ in val.items():
                            e_ = engine.atom_ir.get(k_)
                            if e_ is None or e_[0] != 'cmp':
                                continue
                            try:
                                r_ = engine.eval_value(e_[2], val), engine.eval_value(e_[3], val)
                                l_, rr_ = (r_[0][2] if r_[0][0] == 'sym' else r_[0]), (r_[1][2] if r_[1][0] == 'sym' else r_[1])
                            except Exception:
                                l_, rr_ = e_[2], e_[3]
                            for lhs, op, rhs in ((l_, e_[1], rr_), (rr_, {'<': '>', '>': '<', '<=': '>=', '>=': '<=', '==': '==', '!=': '!='}.get(e_[1]), l_)):
                                if lhs == e2 and rhs[0] == 'const' and isinstance(rhs[1], int) and op is not None:
                                    c0 = rhs[1]
                                    # values of E allowed by this atom's truth value exclude k2?
                                    ops = {'<': lambda n: n < c0, '>': lambda n: n > c0, '<=': lambda n: n <= c0, '>=': lambda n: n >= c0,
                                           '==': lambda n: n == c0, '!=': lambda n: n != c0}
                                    if op in ops and ops[op](k2[1]) != bool(v_):
                                        return True
                return False
            if a[0] == 'sym' and b[0] == 'sym' and row_separates(a, b):
                return False, rows, f"at [{on}] found {_vs(a)} expected {_vs(b)}"
            if not both_signals and (opaque_side or (a[0] == 'sym' and b[0] == 'sym' and differ(a[2], b[2]) != 'different')):
                raise Undecided(f"at [{on}] the value is {_vs(a)} where the role table has {_vs(b)}: two expressions outside the "
                                "normal forms; their equivalence is not decided (N5)")
            return False, rows, f"at [{on}] found {_vs(a)} expected {_vs(b)}"
    return True, rows, None


KNOWN_CALLS = {"Cat", "Mux", "Repl", "len", "range", "exact_log2", "ceil_log2", "Const", "C", "Signal"}
KNOWN_METHODS = {"any", "all", "bool", "replicate", "as_unsigned", "as_signed"}


def comparable(e):
    """Built only from constructs the normaliser understands: two different comparable expressions are different values."""
    for x in ir.walk(e):
        k = x[0]
        if k == 'call':
            fn = x[1]
            if fn[0] == 'name' and fn[1] in KNOWN_CALLS:
                continue
            if fn[0] == 'attr' and fn[2] in KNOWN_METHODS:
                continue
            return False
        if k in ('opaque', 'fstr', 'dict', 'localfn'):
            return False
        if k == 'bin' and x[1] in ('//', '%', '**', '/', '>>', '<<', '@'):
            # integer arithmetic outside the linear forms
            return False
    return True


DSL_CALLS = {"Cat", "Mux", "Repl", "Const", "C"}
DSL_METHODS = {"any", "all", "bool", "replicate", "as_unsigned", "as_signed", "eq"}


def is_config(e):
    """A generation-time quantity whose value the analysis does not know: a private attribute of self, the result of a
    function call (len, exact_log2, a helper), an opaque construct.  Two different configuration quantities may be equal
    by an invariant of the class (e.g. a ratio cached in __init__ and len(bus.sel))."""
    k = e[0]
    if k in ('opaque', 'fstr'):
        return True
    if k == 'call':
        fn = e[1]
        if fn[0] == 'name' and fn[1] in DSL_CALLS:
            return False
        if fn[0] == 'attr' and fn[2] in DSL_METHODS:
            return False
        return True
    if k == 'attr':
        b = e
        while b[0] == 'attr':
            if b[1] == ('name', 'self') and b[2].startswith('_'):
                # private state of the component; chains that go on to a public port of a sub-component are signals
                return e is b
            b = b[1]
        return False
    if k == 'bin' and e[1] in ('//', '%', '**', '/', '>>', '<<'):
        return True
    if k == 'ceildiv':
        return True
    return False


def _mux_mask_pair(a, b):
    if a[0] == 'call' and a[1] == ('name', 'Mux') and len(a[2]) == 3 and a[2][2] == ('const', 0) and \
            b[0] == 'nary' and b[1] == '&' and len(b[2]) == 2:
        s_, x_ = a[2][0], a[2][1]
        for m_, v_ in ((b[2][0], b[2][1]), (b[2][1], b[2][0])):
            if v_ == x_ and m_[0] == 'call' and m_[1][0] == 'attr' and m_[1][2] == 'replicate' and m_[1][1] == s_:
                return True
    return False


def differ(a, b):
    """'same' | 'different' | 'unknown' for two normalised expressions (see is_config)."""
    if a == b:
        return 'same'
    if _mux_mask_pair(a, b) or _mux_mask_pair(b, a):
        return 'unknown'                        # equal iff the replication count is the operand's width: not known here
    if is_config(a) or is_config(b):
        return 'unknown'
    if a[0] == 'const' and b[0] == 'const':
        return 'different'
    if a[0] == 'lin' or b[0] == 'lin':
        ca, da = (a[1], dict(a[2])) if a[0] == 'lin' else ((a[1], {}) if a[0] == 'const' else (0, {a: 1}))
        cb, db = (b[1], dict(b[2])) if b[0] == 'lin' else ((b[1], {}) if b[0] == 'const' else (0, {b: 1}))
        if any(is_config(t) for t in list(da) + list(db)):
            return 'unknown'
        if set(da) == set(db):
            return 'different'                  # same atoms, different coefficients / constant
        # different atom sets: compare the unmatched atoms pairwise
        return 'different' if all(not is_config(t) for t in set(da) ^ set(db)) else 'unknown'
    if a[0] != b[0]:
        return 'different'
    if a[0] == 'attr':
        # two signal paths (neither is a bare private attribute): different members / sub-components are different signals
        if a[2] != b[2]:
            return 'different'
        if a[1][0] == 'attr' and b[1][0] == 'attr' and a[1][1] == ('name', 'self') and b[1][1] == ('name', 'self'):
            return 'different' if a[1][2] != b[1][2] else 'same'
        r = differ(a[1], b[1])
        return r
    ka = list(ir.children(a))
    kb = list(ir.children(b))
    if len(ka) != len(kb) or (a[0] in ('attr',) and a[2] != b[2]) or (a[0] in ('nary', 'bin', 'un', 'cmp') and a[1] != b[1]):
        return 'different'
    res = [differ(x, y) for x, y in zip(ka, kb)]
    if 'different' in res:
        return 'different'
    if 'unknown' in res:
        return 'unknown'
    return 'different' if a != b else 'same'


def _vs(v):
    if v == ('hold',):
        return "hold"
    if v[0] == 'const':
        return repr(v[1])
    return v[1]


def equivalent(engine, f1, f2, assume=None):
    atoms = f_atoms(f1, set()) | f_atoms(f2, set())
    if assume is not None:
        f_atoms(assume, atoms)
    rows = 0
    for val in engine.valuations(atoms):
        if assume is not None and not f_eval(assume, val):
            continue
        rows += 1
        if f_eval(f1, val) != f_eval(f2, val):
            on = ", ".join(f"{k}={int(v)}" for k, v in sorted(val.items()))
            if any("<<" in k for k in val):
                raise Undecided(f"at [{on}] the formulas differ, but an atom involves an opaque construct: not decided (N5)")
            return False, rows, f"at [{on}]"
    return True, rows, None


def implies(engine, f1, f2):
    return equivalent(engine, f_or(f_not(f1), f2), T)


# ---- driver grouping ---------------------------------------------------------------------------

def loops_in(e):
    out = set()
    for x in ir.walk(e):
        if x[0] == 'idx':
            out.add(x[1])
        elif x[0] == 'item':
            out.add(x[1])
    return out


def group_drivers(template, ctx):
    """(domain, normalised target text) -> [drivers]; also returns normalised target IR per key."""
    groups = {}
    tir = {}
    for d in template.drivers:
        t = ir.norm(d.target, ctx)
        key = (d.domain, ir.show(t))
        groups.setdefault(key, []).append(d)
        tir[key] = t
    return groups, tir


def free_loops(driver, target_norm):
    have = {fr[1] for fr in driver.gen if fr[0] == 'for'}
    return have - loops_in(target_norm)
