"""Expression IR (hashable nested tuples), conversion from `ast`, normal forms (E-NORM), printer.

Node kinds
  ('const', v)                      int / str / bool / None / Ellipsis
  ('name', id)                      free name (self, parameter, module global)
  ('attr', base, name)
  ('sub', base, index)              index may be ('slice', lo, hi, step)
  ('call', f, args, kwargs)         args tuple; kwargs tuple of (key, value); ('star', x) for *x
  ('bin', op, a, b) ('un', op, a) ('cmp', op, a, b) ('and', xs) ('or', xs) ('ifexp', c, a, b)
  ('tuple', xs) ('list', xs) ('set', xs) ('dict', ((k, v), ...))
  ('gen', kind, elt, ((target, iter, ifs), ...))  comprehension; bound vars are ('bv', n)
  ('opaque', text)                  f-strings, lambdas, anything not modelled
  ('sig', n, name)                  signal created locally by Signal(...)            (walker)
  ('idx', L) ('item', L, path)      index / destructured item of generation loop L    (walker)
  ('last', x)                       loop variable used after its loop                 (walker)
  ('acc', A)                        OR-accumulator                                   (walker)
  ('phi', cond, a, b) ('undef',)    value depending on a generation-time condition   (walker)
  ('carry', F) ('final', F)         loop-carried fold                                (walker)
  ('localfn', params, body_ast)     single-return local function                     (walker)
normal forms add
  ('nary', op, xs)                  flattened, sorted commutative operator (& | ^ *)
  ('lin', const, ((term, coef), ...))   linear integer form
  ('has', obj, feature)             hasattr(obj, "x") == Feature.X in obj.features
  ('enum', cls, member, value)
"""
import ast

BINOPS = {ast.Add: '+', ast.Sub: '-', ast.Mult: '*', ast.FloorDiv: '//', ast.Mod: '%', ast.LShift: '<<',
          ast.RShift: '>>', ast.BitAnd: '&', ast.BitOr: '|', ast.BitXor: '^', ast.Pow: '**', ast.Div: '/',
          ast.MatMult: '@'}
UNOPS = {ast.Invert: '~', ast.USub: '-', ast.Not: 'not', ast.UAdd: '+'}
CMPOPS = {ast.Eq: '==', ast.NotEq: '!=', ast.Lt: '<', ast.LtE: '<=', ast.Gt: '>', ast.GtE: '>=',
          ast.In: 'in', ast.NotIn: 'not in', ast.Is: 'is', ast.IsNot: 'is not'}


def C(v):
    return ('const', v)


def N(name):
    return ('name', name)


def A(base, *names):
    for n in names:
        base = ('attr', base, n)
    return base


def parse(text, env=None):
    """Parse a Python expression string into IR; names found in env are substituted."""
    return from_ast(ast.parse(text, mode="eval").body, env or {})


def from_ast(node, env, bound=()):
    """env: name -> IR (already substituted).  bound: names bound by an enclosing comprehension."""
    f = lambda n: from_ast(n, env, bound)
    if isinstance(node, ast.Constant):
        return ('const', node.value)
    if isinstance(node, ast.Name):
        if node.id in bound:
            return ('bv', node.id)
        if node.id in env:
            return env[node.id]
        return ('name', node.id)
    if isinstance(node, ast.Attribute):
        return ('attr', f(node.value), node.attr)
    if isinstance(node, ast.Subscript):
        base = f(node.value)
        if base[0] == 'dict' and base[1] and not isinstance(node.slice, ast.Slice) and \
                all(k[0] in ('attr', 'const', 'enum') and k != ('const', '**') for k, _ in base[1]) and \
                len({k for k, _ in base[1]}) == len(base[1]):
            # {K1: v1, K2: v2}[key]  ->  v1 if key == K1 else v2 if key == K2 else <KeyError>
            key = f(node.slice)
            out = ('undef',)
            for k, v in reversed(base[1]):
                out = ('ifexp', ('cmp', '==', key, k), v, out)
            return out
        return ('sub', base, f(node.slice))
    if isinstance(node, ast.Lambda):
        a = node.args
        if not (a.vararg or a.kwarg or a.kwonlyargs or a.defaults or a.posonlyargs):
            return ('localfn', tuple(x.arg for x in a.args), node.body, EnvBox(env))
    if isinstance(node, ast.Slice):
        g = lambda n: ('const', None) if n is None else f(n)
        return ('slice', g(node.lower), g(node.upper), g(node.step))
    if isinstance(node, ast.Call):
        fn = f(node.func)
        args = tuple(('star', f(a.value)) if isinstance(a, ast.Starred) else f(a) for a in node.args)
        kwargs = tuple((k.arg if k.arg is not None else '**', f(k.value)) for k in node.keywords)
        if fn[0] == 'localfn':
            return _apply_localfn(fn, args, kwargs, env)
        if fn[0] == 'ifexp' and _all_leaves_localfn(fn):
            return _apply_over_ifexp(fn, args, kwargs, env)
        return ('call', fn, args, kwargs)
    if isinstance(node, ast.BinOp):
        return ('bin', BINOPS[type(node.op)], f(node.left), f(node.right))
    if isinstance(node, ast.UnaryOp):
        return ('un', UNOPS[type(node.op)], f(node.operand))
    if isinstance(node, ast.BoolOp):
        return ('and' if isinstance(node.op, ast.And) else 'or', tuple(f(v) for v in node.values))
    if isinstance(node, ast.Compare):
        parts = []
        left = f(node.left)
        for op, right in zip(node.ops, node.comparators):
            r = f(right)
            parts.append(('cmp', CMPOPS[type(op)], left, r))
            left = r
        return parts[0] if len(parts) == 1 else ('and', tuple(parts))
    if isinstance(node, ast.IfExp):
        return ('ifexp', f(node.test), f(node.body), f(node.orelse))
    if isinstance(node, ast.Tuple):
        return ('tuple', tuple(('star', f(e.value)) if isinstance(e, ast.Starred) else f(e) for e in node.elts))
    if isinstance(node, ast.List):
        return ('list', tuple(('star', f(e.value)) if isinstance(e, ast.Starred) else f(e) for e in node.elts))
    if isinstance(node, ast.Set):
        return ('set', tuple(f(e) for e in node.elts))
    if isinstance(node, ast.Dict):
        return ('dict', tuple((('const', '**') if k is None else f(k), f(v)) for k, v in zip(node.keys, node.values)))
    if isinstance(node, (ast.GeneratorExp, ast.ListComp, ast.SetComp)):
        kind = {ast.GeneratorExp: 'gen', ast.ListComp: 'list', ast.SetComp: 'set'}[type(node)]
        b = tuple(bound)
        gens = []
        for g in node.generators:
            it = from_ast(g.iter, env, b)
            names = tuple(n.id for n in ast.walk(g.target) if isinstance(n, ast.Name))
            b = b + names
            tgt = from_ast(g.target, env, b)
            ifs = tuple(from_ast(c, env, b) for c in g.ifs)
            gens.append((tgt, it, ifs))
        return ('gen', kind, from_ast(node.elt, env, b), tuple(gens))
    if isinstance(node, ast.Starred):
        return ('star', f(node.value))
    if isinstance(node, ast.NamedExpr):
        return f(node.value)
    if isinstance(node, ast.JoinedStr):
        parts = []
        for v in node.values:
            if isinstance(v, ast.Constant):
                parts.append(('const', v.value))
            elif isinstance(v, ast.FormattedValue):
                spec = ast.unparse(v.format_spec) if v.format_spec is not None else ""
                parts.append(('fmt', f(v.value), v.conversion, spec))
        return ('fstr', tuple(parts))
    try:
        return ('opaque', ast.unparse(node))
    except Exception:                                                   # pragma: no cover
        return ('opaque', type(node).__name__)


def _all_leaves_localfn(e):
    if e[0] == 'ifexp':
        return _all_leaves_localfn(e[2]) and _all_leaves_localfn(e[3])
    return e[0] in ('localfn', 'undef')


def _apply_over_ifexp(e, args, kwargs, env):
    if e[0] == 'ifexp':
        return ('ifexp', e[1], _apply_over_ifexp(e[2], args, kwargs, env), _apply_over_ifexp(e[3], args, kwargs, env))
    if e[0] == 'undef':
        return e
    return _apply_localfn(e, args, kwargs, env)


class EnvBox:
    """Definition-time environment of a lambda; hashed by identity so that IR tuples holding it stay hashable."""
    __slots__ = ("env",)

    def __init__(self, env):
        self.env = dict(env)

    def __repr__(self):
        return "<env>"


def _apply_localfn(fn, args, kwargs, env):
    _, params, body, fenv = fn
    e = dict(fenv.env if isinstance(fenv, EnvBox) else fenv)
    for p, a in zip(params, args):
        e[p] = a
    for k, v in kwargs:
        e[k] = v
    return from_ast(body, e)


# ----------------------------------------------------------------------------------------
# traversal helpers

def children(e):
    """Yield direct sub-expressions."""
    k = e[0]
    if k in ('const', 'name', 'opaque', 'sig', 'obj', 'listacc', 'idx', 'acc', 'carry', 'final', 'undef', 'bv', 'enum', 'localfn', 'localproc'):
        return
    if k == 'item':
        return
    if k == 'attr':
        yield e[1]
    elif k in ('sub',):
        yield e[1]
        yield e[2]
    elif k == 'slice':
        yield from e[1:4]
    elif k == 'call':
        yield e[1]
        for a in e[2]:
            yield a
        for _, v in e[3]:
            yield v
    elif k == 'bin' or k == 'cmp':
        yield e[2]
        yield e[3]
    elif k == 'un':
        yield e[2]
    elif k in ('and', 'or', 'tuple', 'list', 'set'):
        yield from e[1]
    elif k == 'nary':
        yield from e[2]
    elif k == 'ifexp' or k == 'phi':
        yield from e[1:4]
    elif k == 'dict':
        for a, b in e[1]:
            yield a
            yield b
    elif k == 'gen':
        yield e[2]
        for t, it, ifs in e[3]:
            yield t
            yield it
            yield from ifs
    elif k in ('star', 'last'):
        yield e[1]
    elif k == 'lin':
        for t, _ in e[2]:
            yield t
    elif k == 'has':
        yield e[1]
    elif k == 'ceildiv':
        yield e[1]
        yield e[2]
    elif k == 'fstr':
        for p in e[1]:
            if p[0] == 'fmt':
                yield p[1]
    elif k == 'fmt':
        yield e[1]


def walk(e):
    yield e
    for c in children(e):
        yield from walk(c)


def contains(e, pred):
    return any(pred(x) for x in walk(e))


def mentions(e, sub):
    return any(x == sub for x in walk(e))


def subst(e, fn):
    """Bottom-up rewrite: fn(node) -> replacement or None."""
    k = e[0]

    def r(x):
        return subst(x, fn)
    if k in ('const', 'name', 'opaque', 'sig', 'obj', 'listacc', 'idx', 'item', 'acc', 'carry', 'final', 'undef', 'bv', 'enum', 'localfn', 'localproc'):
        out = e
    elif k == 'attr':
        out = ('attr', r(e[1]), e[2])
    elif k == 'sub':
        out = ('sub', r(e[1]), r(e[2]))
    elif k == 'slice':
        out = ('slice', r(e[1]), r(e[2]), r(e[3]))
    elif k == 'call':
        out = ('call', r(e[1]), tuple(r(a) for a in e[2]), tuple((kk, r(v)) for kk, v in e[3]))
    elif k in ('bin', 'cmp'):
        out = (k, e[1], r(e[2]), r(e[3]))
    elif k == 'un':
        out = ('un', e[1], r(e[2]))
    elif k in ('and', 'or', 'tuple', 'list', 'set'):
        out = (k, tuple(r(x) for x in e[1]))
    elif k == 'nary':
        out = ('nary', e[1], tuple(r(x) for x in e[2]))
    elif k in ('ifexp', 'phi'):
        out = (k, r(e[1]), r(e[2]), r(e[3]))
    elif k == 'dict':
        out = ('dict', tuple((r(a), r(b)) for a, b in e[1]))
    elif k == 'gen':
        out = ('gen', e[1], r(e[2]), tuple((r(t), r(it), tuple(r(c) for c in ifs)) for t, it, ifs in e[3]))
    elif k in ('star', 'last'):
        out = (k, r(e[1]))
    elif k == 'lin':
        out = ('lin', e[1], tuple((r(t), c) for t, c in e[2]))
    elif k == 'has':
        out = ('has', r(e[1]), e[2])
    elif k == 'ceildiv':
        out = ('ceildiv', r(e[1]), r(e[2]))
    elif k == 'fstr':
        out = ('fstr', tuple(('fmt', r(p[1]), p[2], p[3]) if p[0] == 'fmt' else p for p in e[1]))
    else:
        out = e
    new = fn(out)
    return out if new is None else new


# ----------------------------------------------------------------------------------------
# normal forms

class NormCtx:
    """What the normaliser may know about the program: enum tables and local signals."""

    def __init__(self, enums=None, sigs=None, aliases=None):
        self.enums = enums or {}        # class simple name -> {member: value}
        self.sigs = sigs or {}          # sig id -> ctor IR
        self.aliases = aliases or {}    # IR -> IR (e.g. len(requests) -> len(self._intrs))


_EMPTY = NormCtx()
COMM = {'&', '|', '^', '*'}


def _has_str(e):
    return contains(e, lambda x: (x[0] == 'const' and isinstance(x[1], str)) or x[0] in ('fstr', 'opaque', 'tuple', 'list'))


def _sort_key(e):
    return show(e)


def _lin_add(d, t, c):
    d[t] = d.get(t, 0) + c
    if d[t] == 0:
        del d[t]


def _to_lin(e):
    """Return (const, {term: coef}) for an already normalised expression."""
    if e[0] == 'const' and isinstance(e[1], int) and not isinstance(e[1], bool):
        return e[1], {}
    if e[0] == 'lin':
        return e[1], dict(e[2])
    return 0, {e: 1}


def _from_lin(c, d):
    if not d:
        return ('const', c)
    items = tuple(sorted(d.items(), key=lambda kv: _sort_key(kv[0])))
    if c == 0 and len(items) == 1 and items[0][1] == 1:
        return items[0][0]
    return ('lin', c, items)


def hoist_phi(e, ctx=_EMPTY, budget=4):
    """The same expression with generation-time choices moved outward: f(phi(c, a, b)) -> phi(c, f(a), f(b)), innermost choice first,
    at most `budget` times, normalised.  Two expressions that make the same choice at different depths meet in this form."""
    e = norm(e, ctx)
    for _ in range(budget):
        inner = None
        for x in walk(e):
            if x[0] == 'phi' and x is not e:
                inner = x
                break
        if inner is None or e[0] == 'phi' and not any(y[0] == 'phi' for a_ in (e[2], e[3]) for y in walk(a_)):
            break
        c_ = inner[1]
        e = norm(('phi', c_, subst(e, lambda y: inner[2] if y == inner else None), subst(e, lambda y: inner[3] if y == inner else None)), ctx)
    return e


def _nonneg_int(e):
    """An integer expression that is never negative by what it is made of: widths, sizes, logarithms, lengths, their sums and products."""
    k = e[0]
    if k == 'const':
        return isinstance(e[1], int) and not isinstance(e[1], bool) and e[1] >= 0
    if k == 'call' and e[1] in (('name', 'exact_log2'), ('name', 'ceil_log2'), ('name', 'len')):
        return True
    if k in ('attr', 'name'):
        nm = e[2] if k == 'attr' else e[1]
        return nm.lstrip("_").endswith("width") or nm.lstrip("_") in ("size", "granularity", "alignment", "granularity_bits")
    if k == 'lin':
        return e[1] >= 0 and all(co > 0 and _nonneg_int(t) for t, co in e[2])
    if k == 'nary' and e[1] == '*':
        return all(_nonneg_int(x) for x in e[2])
    if k == 'bin' and e[1] in ('//', '**', '+', '*'):
        return _nonneg_int(e[2]) and _nonneg_int(e[3])
    return False


def _mk_nary(op, xs):
    flat = []
    for x in xs:
        if x[0] == 'nary' and x[1] == op:
            flat.extend(x[2])
        else:
            flat.append(x)
    # constant folding for ints
    consts = [x[1] for x in flat if x[0] == 'const' and isinstance(x[1], int) and not isinstance(x[1], bool)]
    rest = [x for x in flat if not (x[0] == 'const' and isinstance(x[1], int) and not isinstance(x[1], bool))]
    if consts:
        v = consts[0]
        for c in consts[1:]:
            v = {'&': v & c, '|': v | c, '^': v ^ c, '*': v * c}[op]
        ident = {'&': None, '|': 0, '^': 0, '*': 1}[op]
        if op == '*' and v == 0:
            return ('const', 0)
        if v != ident or not rest:
            rest.append(('const', v))
    if op in ('&', '|'):
        uniq = []
        for x in rest:
            if x not in uniq:
                uniq.append(x)
        rest = uniq
    rest.sort(key=_sort_key)
    if len(rest) == 1:
        return rest[0]
    if op == '&' and len(rest) == 2:
        # x & (2**k - 1)  ==  x % 2**k   (Python integers, either sign)
        for m_, x_ in ((rest[0], rest[1]), (rest[1], rest[0])):
            if m_[0] == 'lin' and m_[1] == -1 and len(m_[2]) == 1 and m_[2][0][1] == 1 and m_[2][0][0][0] == 'bin' and \
                    m_[2][0][0][1] == '**' and m_[2][0][0][2] == ('const', 2) and not _has_str(x_):
                return ('bin', '%', x_, m_[2][0][0])
    if op == '|' and len(rest) == 2:
        # (X << k) | Y[0:k]  ==  Cat(Y[0:k], X): the k low bits come from the slice (exactly k bits wide), the rest from X
        for hi_, lo_ in ((rest[0], rest[1]), (rest[1], rest[0])):
            if lo_[0] == 'sub' and lo_[2][0] == 'slice' and lo_[2][1] in (('const', 0), ('const', None)) and \
                    lo_[2][3] in (('const', 1), ('const', None)) and hi_[0] == 'nary' and hi_[1] == '*' and len(hi_[2]) == 2:
                k_ = lo_[2][2]
                for p_, x_ in ((hi_[2][0], hi_[2][1]), (hi_[2][1], hi_[2][0])):
                    if p_ == ('bin', '**', ('const', 2), k_):
                        return ('call', ('name', 'Cat'), (lo_, x_), ())
    return ('nary', op, tuple(rest))


def norm(e, ctx=_EMPTY, _depth=0):
    def fix(x):
        n = _norm1(x, ctx)
        if n is None or n == x:
            return None
        if _depth > 12:
            return n
        return norm(n, ctx, _depth + 1)         # a rewrite may expose new redexes below the node
    return subst(e, fix)


def _enum_member(ctx, cls, member):
    tab = ctx.enums.get(cls)
    if tab is not None and member in tab:
        return ('enum', cls, member, tab[member])
    return None


def _cls_name(e):
    """Simple class name of an expression like Feature / wishbone.Feature / Source.Trigger."""
    if e[0] == 'name':
        return e[1]
    if e[0] == 'attr':
        return e[2]
    return None


def _cls_key(e, ctx):
    """Key of an enum class expression in ctx.enums: the qualified name (Element.Access) if known, else the simple one."""
    if e[0] == 'attr' and e[1][0] in ('name', 'attr'):
        outer = _cls_name(e[1])
        if outer is not None and f"{outer}.{e[2]}" in ctx.enums:
            return f"{outer}.{e[2]}"
    cn = _cls_name(e)
    return cn if cn in ctx.enums else cn


def _enum_method(ctx, recv, meth):
    """<enum member or Enum(x)>.meth() for a single-return method of a repository enum: its body with self := recv."""
    key = None
    if recv[0] == 'enum':
        key = recv[1]
    elif recv[0] == 'call' and len(recv[2]) == 1 and not recv[3]:
        key = _cls_key(recv[1], ctx)
    body = ctx.enums.get('@methods', {}).get((key, meth)) if key is not None else None
    if body is None:
        return None
    SELF = ('name', '@self')
    tab = ctx.enums.get(key, {})

    out = subst(from_ast(body, {'self': SELF}), lambda x: ('enum', key, x[2], tab[x[2]])
                if x[0] == 'attr' and x[1] == SELF and x[2] in tab else None)
    return subst(out, lambda x: recv if x == SELF else None)


def _norm1(e, ctx):
    k = e[0]
    if e in ctx.aliases:
        return ctx.aliases[e]
    if k == 'cmp' and e[1] in ('==', '!=', 'is') and e[2][0] == 'enum' and e[3][0] == 'enum' and e[2][1] == e[3][1]:
        same = e[2][2] == e[3][2]
        return ('const', same if e[1] != '!=' else not same)
    if k == 'call' and e[1][0] == 'attr' and not e[2] and not e[3] and e[1][1][0] in ('enum', 'call'):
        r = _enum_method(ctx, e[1][1], e[1][2])
        if r is not None:
            return r
    if k == 'attr':
        if e[1][0] == 'slice' and e[2] in ('start', 'stop', 'step'):
            return e[1][{'start': 1, 'stop': 2, 'step': 3}[e[2]]]
        if e[2] == 'value' and e[1][0] == 'enum' and len(e[1]) >= 4 and isinstance(e[1][3], int):
            return ('const', e[1][3])                   # Member.value
        # wiring.flipped(x) is a proxy: its signature is x's flipped, every plain attribute (the memory map, the widths) is x's own
        if e[1][0] == 'call' and e[1][1] == ('name', 'flipped') and len(e[1][2]) == 1 and not e[1][3]:
            if e[2] == 'signature':
                return ('call', ('attr', ('attr', e[1][2][0], 'signature'), 'flip'), (), ())
            if e[2] in ('memory_map', 'addr_width', 'data_width', 'granularity', 'features'):
                return ('attr', e[1][2][0], e[2])
        cn = _cls_key(e[1], ctx)
        if cn is not None:
            m = _enum_member(ctx, cn, e[2])
            if m is not None:
                return m
        return None
    if k == 'call':
        for rw_ in getattr(ctx, 'rewrites', ()):
            r_ = rw_(e)
            if r_ is not None and r_ != e:
                return r_
        fn, args, kwargs = e[1], e[2], e[3]
        # Cat(Const(0, k), X) shifts X left by k places: X * 2**k
        if fn == ('name', 'Cat') and not kwargs and len(args) >= 2 and not any(a_[0] in ('star', 'gen') for a_ in args):
            # an empty slice x[a:a] contributes no bits; Cat of one part is that part
            def empty(a_):
                return a_[0] == 'sub' and a_[2][0] == 'slice' and a_[2][1][0] == 'const' and a_[2][2][0] == 'const' and \
                    isinstance(a_[2][1][1], int) and a_[2][1][1] == a_[2][2][1] and a_[2][1][1] >= 0
            keep = tuple(a_ for a_ in args if not empty(a_))
            if len(keep) != len(args) and keep:
                return keep[0] if len(keep) == 1 else ('call', fn, keep, ())
        if fn == ('name', 'Cat') and len(args) == 2 and not kwargs and args[0][0] == 'call' and args[0][1] in (('name', 'Const'), ('name', 'C')) and \
                len(args[0][2]) == 2 and args[0][2][0] == ('const', 0) and not args[0][3]:
            return ('nary', '*', (('bin', '**', ('const', 2), args[0][2][1]), args[1]))
        # a view and its underlying value are the same bits: Value.cast(x) / x.as_value() name x
        if fn == ('attr', ('name', 'Value'), 'cast') and len(args) == 1 and not kwargs:
            return args[0]
        if fn[0] == 'attr' and fn[2] == 'as_value' and not args and not kwargs:
            return fn[1]
        # logarithms of constants; a one-fold replication; the bits of a value, concatenated in order, are the value
        if fn in (('name', 'exact_log2'), ('name', 'ceil_log2')) and len(args) == 1 and not kwargs and args[0][0] == 'const' and \
                isinstance(args[0][1], int) and not isinstance(args[0][1], bool) and args[0][1] >= 1:
            v_ = args[0][1]
            if fn[1] == 'ceil_log2':
                return ('const', (v_ - 1).bit_length())
            if v_ & (v_ - 1) == 0:
                return ('const', v_.bit_length() - 1)
        if fn[0] == 'attr' and fn[2] == 'replicate' and args == (('const', 1),) and not kwargs:
            return fn[1]
        if fn == ('name', 'Cat') and len(args) == 1 and not kwargs and args[0][0] == 'gen' and len(args[0][3]) == 1 and \
                not args[0][3][0][2] and args[0][2] == args[0][3][0][0] and args[0][2][0] == 'bv' and \
                args[0][3][0][1][0] == 'attr' and args[0][3][0][1][2] in ('sel', 'adr', 'dat_w', 'dat_r', 'w_data', 'r_data', 'addr'):
            return args[0][3][0][1]
        if any(a[0] == 'star' and a[1][0] in ('tuple', 'list') for a in args):
            flat = []
            for a in args:
                if a[0] == 'star' and a[1][0] in ('tuple', 'list'):
                    flat.extend(a[1][1])
                else:
                    flat.append(a)
            return ('call', fn, tuple(flat), kwargs)
        # Enum(value) -> member
        cn = _cls_key(fn, ctx)
        if cn in ctx.enums and cn != '@methods' and len(args) == 1 and not kwargs:
            a = args[0]
            if a[0] == 'enum':
                return a if a[1] == cn else None
            if a[0] == 'const':
                for mem, val in ctx.enums[cn].items():
                    if val == a[1]:
                        return ('enum', cn, mem, val)
            return None
        if fn == ('name', 'Signal') and len(args) == 1 and args[0][0] == 'call' and args[0][1] == ('name', 'ceil_log2') and \
                len(args[0][2]) == 1 and not args[0][3] and args[0][2][0][0] != 'const':
            # an unsigned register of ceil_log2(N) bits is the register that holds 0 .. N-1: Signal(range(N))
            return ('call', fn, (('call', ('name', 'range'), (args[0][2][0],), ()),), kwargs)
        if fn in (('name', 'Signal'), ('attr', ('name', 'Signal'), 'like')) and (args or kwargs):
            # explicit defaults say nothing: Signal(unsigned(n)) == Signal(n), Signal(1) == Signal(), init=0, reset_less=False
            a2 = list(args)
            if fn == ('name', 'Signal') and a2 and a2[0][0] == 'call' and a2[0][1] == ('name', 'unsigned') and len(a2[0][2]) == 1 and not a2[0][3]:
                a2[0] = a2[0][2][0]
            if fn == ('name', 'Signal') and len(a2) == 1 and a2[0] == ('const', 1):
                a2 = []
            kw2 = tuple((k_, v_) for k_, v_ in kwargs
                        if not (k_ in ('init', 'reset') and v_ in (('const', 0), ('const', False))) and
                        not (k_ == 'reset_less' and v_ == ('const', False)) and
                        not (k_ == 'name' and fn == ('name', 'Signal')))    # the debug name of a signal is not behaviour
            if tuple(a2) != args or kw2 != kwargs:
                return ('call', fn, tuple(a2), kw2)
        if fn in (('name', 'all'), ('name', 'any')) and len(args) == 1 and not kwargs and args[0][0] == 'gen' and len(args[0]) >= 4 and \
                len(args[0][3]) == 1:
            # all(f(x) for x in (a, b, c)) over a display: the conjunction of the instances (any: the disjunction)
            tgt, it, ifs = args[0][3][0]
            if it[0] in ('tuple', 'list') and it[1] and len(it[1]) <= 8 and not any(x[0] == 'star' for x in it[1]) and tgt[0] == 'bv':
                parts = []
                for val in it[1]:
                    def inst(e_, val=val):
                        return subst(e_, lambda x: val if x == tgt else None)
                    body = inst(args[0][2])
                    conds = [inst(c_) for c_ in ifs]
                    if fn == ('name', 'all'):
                        part = body if not conds else ('or', tuple(('un', 'not', c_) for c_ in conds) + (body,))
                    else:
                        part = body if not conds else ('and', tuple(conds) + (body,))
                    parts.append(part)
                return (('and' if fn == ('name', 'all') else 'or'), tuple(parts)) if len(parts) > 1 else parts[0]
        if fn == ('name', 'int') and len(args) == 1 and not kwargs:
            a0 = args[0]
            # int() of integer arithmetic (floor division, products, sums of widths) is that integer
            if a0[0] in ('lin', 'ceildiv') or (a0[0] == 'nary' and a0[1] == '*') or \
                    (a0[0] == 'bin' and a0[1] in ('//', '%', '<<', '>>', '**', '-', '+', '*')) or \
                    (a0[0] == 'attr' and a0[2] in ('width',)) or \
                    (a0[0] == 'call' and a0[1] in (('name', 'len'), ('name', 'ceil_log2'), ('name', 'exact_log2'))):
                return a0
        if fn in (('name', 'max'), ('name', 'min')) and len(args) >= 2 and not kwargs and not any(a[0] == 'star' for a in args):
            srt = tuple(sorted(args, key=_sort_key))
            if srt != args:
                return ('call', fn, srt, kwargs)
        if fn[0] == 'attr' and fn[2] in ('any', 'bool') and not args and not kwargs:
            return ('cmp', '!=', fn[1], ('const', 0))          # x.any() == x.bool() == (x != 0)
        if fn == ('name', 'isinstance') and len(args) == 2 and args[1][0] == 'tuple' and args[1][1] and not kwargs:
            return ('or', tuple(('call', fn, (args[0], t_), ()) for t_ in args[1][1]))
        if fn == ('name', 'hasattr') and len(args) == 2 and args[1][0] == 'const':
            return ('has', args[0], args[1][1])
        if fn == ('name', 'getattr') and len(args) == 2 and args[1][0] == 'const' and isinstance(args[1][1], str) and not kwargs:
            return ('attr', args[0], args[1][1])
        if fn == ('name', 'getattr') and len(args) == 3 and args[1][0] == 'const':
            return ('phi', ('has', args[0], args[1][1]), ('attr', args[0], args[1][1]), args[2])
        if fn[0] == 'attr' and fn[2] == 'word_select' and len(args) == 2 and not kwargs:
            # x.word_select(k, w) == x[k*w : (k+1)*w]   (amaranth: constant in-range offsets; used on targets and values alike)
            k_, w_ = args
            return ('sub', fn[1], ('slice', ('bin', '*', k_, w_), ('bin', '*', ('bin', '+', k_, ('const', 1)), w_), ('const', 1)))
        if fn[0] == 'attr' and fn[2] == 'bit_select' and len(args) == 2 and not kwargs:
            o_, w_ = args
            return ('sub', fn[1], ('slice', o_, ('bin', '+', o_, w_), ('const', 1)))
        if fn == ('name', 'slice') and not kwargs and 1 <= len(args) <= 3:
            if len(args) == 1:
                return ('slice', ('const', 0), args[0], ('const', 1))
            return ('slice', args[0], args[1], args[2] if len(args) == 3 else ('const', 1))
        if fn == ('name', 'range') and len(args) == 1 and not kwargs:
            return ('call', fn, (('const', 0), args[0]), ())
        if fn == ('name', 'len') and len(args) == 1:
            a = args[0]
            if a[0] == 'sig' and a[1] in ctx.sigs:
                ctor = ctx.sigs[a[1]]
                if ctor[0] == 'call' and ctor[2]:
                    w = ctor[2][0]
                    if w[0] == 'call' and w[1] == ('name', 'unsigned') and len(w[2]) == 1 and not w[3]:
                        w = w[2][0]                     # Signal(unsigned(n)) is n bits wide
                    if w[0] == 'call' and w[1] == ('name', 'len'):
                        return w
                    if w[0] == 'const' and isinstance(w[1], int):
                        return w
            if a[0] in ('tuple', 'list') and not any(x[0] == 'star' for x in a[1]):
                return ('const', len(a[1]))
            # Cat(x.cyc for x in X): one bit per element of X (the protocol's strobes are one bit wide by their signatures)
            if a[0] == 'call' and a[1] == ('name', 'Cat') and len(a[2]) == 1 and not a[3] and a[2][0][0] == 'gen' and len(a[2][0][3]) == 1 and \
                    not a[2][0][3][0][2] and a[2][0][2][0] == 'attr' and a[2][0][2][1] == a[2][0][3][0][0] and \
                    a[2][0][2][2] in ('cyc', 'stb', 'we', 'ack', 'err', 'rty', 'stall', 'lock', 'r_stb', 'w_stb', 'trg'):
                return ('call', ('name', 'len'), (a[2][0][3][0][1],), ())
        if fn[0] == 'attr' and fn[2] == 'flip' and not args:
            inner = fn[1]
            if inner[0] == 'call' and inner[1][0] == 'attr' and inner[1][2] == 'flip' and not inner[2]:
                return inner[1][1]
        if fn == ('name', 'flipped') and len(args) == 1:
            a = args[0]
            if a[0] == 'call' and a[1] == ('name', 'flipped') and len(a[2]) == 1:
                return a[2][0]
        if fn == ('name', 'ceil') and len(args) == 1:
            a = args[0]
            if a[0] == 'bin' and a[1] == '/':
                return ('ceildiv', a[2], a[3])
        return None
    if k == 'cmp':
        op, a, b = e[1], e[2], e[3]
        # Feature.X in obj.features  ->  has(obj, x)
        if op in ('in', 'not in') and b[0] == 'attr' and b[2] == 'features' and a[0] == 'enum' \
                and isinstance(a[3], str):
            h = ('has', b[1], a[3])
            return h if op == 'in' else ('un', 'not', h)
        if op == 'is not':
            return ('un', 'not', ('cmp', 'is', a, b))
        if op == 'is' and (a[0] == 'enum' or b[0] == 'enum'):
            return ('cmp', '==', a, b)                  # enum members are singletons: identity is equality
        # two enumeration members: equal exactly when they are the same member
        if op in ('==', '!=') and a[0] == 'enum' and b[0] == 'enum':
            same = a[1:3] == b[1:3]
            return ('const', same if op == '==' else not same)
        if op in ('in', 'not in') and a[0] == 'enum' and b[0] in ('tuple', 'list', 'set') and b[1] and all(x[0] == 'enum' for x in b[1]):
            inside = any(a[1:3] == x[1:3] for x in b[1])
            return ('const', inside if op == 'in' else not inside)
        # two constants
        if op in ('==', '!=') and a[0] == 'const' and b[0] == 'const' and type(a[1]) is type(b[1]):
            return ('const', (a[1] == b[1]) if op == '==' else (a[1] != b[1]))
        # a comparison with a generation-time choice is that choice of comparisons
        if op in ('==', '!=', '<', '<=', '>', '>=', 'in', 'not in') and b[0] == 'phi' and a[0] != 'phi':
            return ('phi', b[1], ('cmp', op, a, b[2]), ('cmp', op, a, b[3]))
        if op in ('==', '!=', '<', '<=', '>', '>=') and a[0] == 'phi' and b[0] != 'phi':
            return ('phi', a[1], ('cmp', op, a[2], b), ('cmp', op, a[3], b))
        if op == 'is' and b == ('const', None):
            if a[0] == 'call' and a[1][0] == 'attr' and a[1][2] == 'get' and len(a[2]) == 1 and not a[3] and \
                    a[2][0][0] == 'call' and a[2][0][1] == ('name', 'id'):
                # D.get(id(x)) is None  ==  id(x) not in D   (identity-keyed tables never store None)
                return ('un', 'not', ('cmp', 'in', a[2][0], a[1][1]))
            if a[0] == 'phi':
                return ('phi', a[1], ('cmp', 'is', a[2], b), ('cmp', 'is', a[3], b))
            if a[0] == 'attr' and a[1] == ('name', 'self') and a[2] in getattr(ctx, 'never_none', ()):
                return ('const', False)             # an attribute the component only ever binds to a created object
            if a[0] == 'call' and (_cls_name(a[1]) or "x")[:1].isupper():
                return ('const', False)             # the result of a constructor call is never None
            if a[0] in ('tuple', 'list', 'dict', 'set', 'slice', 'fstr') or (a[0] == 'call' and a[1] == ('name', 'slice')):
                return ('const', False)
            if a[0] == 'const':
                return ('const', a[1] is None)
        if op in ('in', 'not in') and b[0] in ('set', 'list', 'tuple') and b[1] and all(x[0] == 'const' for x in b[1]):
            # membership in a display of constants does not depend on the kind of display or the order of its elements
            srt = ('tuple', tuple(sorted(set(b[1]), key=lambda x: (type(x[1]).__name__, repr(x[1])))))
            if srt != b:
                return ('cmp', op, a, srt)
        if op == 'not in' and not (b[0] == 'attr' and b[2] == 'features' and a[0] == 'enum'):
            return ('un', 'not', ('cmp', 'in', a, b))
        if op == '>':
            op, a, b = '<', b, a
        elif op == '>=':
            op, a, b = '<=', b, a
        if op == '<=':
            return ('un', 'not', ('cmp', '<', b, a))       # one order relation only: a <= b  ==  not (b < a)
        if op in ('==', '!=') and a[0] == 'tuple' and b[0] == 'tuple' and len(a[1]) == len(b[1]) and a[1] and \
                not any(x[0] == 'star' for x in a[1] + b[1]):
            conj = ('and', tuple(('cmp', '==', x, y) for x, y in zip(a[1], b[1])))
            return conj if op == '==' else ('un', 'not', conj)
        if op in ('==', '!='):
            # linear canonical form: (a - b) == 0 with positive leading coefficient
            if not _has_str(a) and not _has_str(b) and _is_arith(a) and _is_arith(b):
                ca, da = _to_lin(a)
                cb, db = _to_lin(b)
                d = dict(da)
                for t, c in db.items():
                    _lin_add(d, t, -c)
                c0 = ca - cb
                if d:
                    first = sorted(d.items(), key=lambda kv: _sort_key(kv[0]))[0]
                    if first[1] < 0:
                        d = {t: -c for t, c in d.items()}
                        c0 = -c0
                    # move the constant to the right-hand side
                    return ('cmp', op, _from_lin(0, d), ('const', -c0))
                return ('const', (c0 == 0) if op == '==' else (c0 != 0))
            if _sort_key(b) < _sort_key(a):
                a, b = b, a
        return ('cmp', op, a, b)
    if k == 'un':
        op, a = e[1], e[2]
        if op in ('~', 'not') and a[0] == 'un' and a[1] == op:
            return a[2]
        if op == 'not' and a[0] == 'const' and (isinstance(a[1], (bool, int)) or a[1] is None):
            return ('const', not a[1])
        if op == 'not' and a[0] in ('and', 'or'):
            # De Morgan (as a truth value): not (p and q) == (not p) or (not q)
            return ('or' if a[0] == 'and' else 'and', tuple(('un', 'not', x) for x in a[1]))
        if op == 'not' and a[0] == 'cmp':
            inv = {'==': '!=', '!=': '=='}
            if a[1] in inv:
                return ('cmp', inv[a[1]], a[2], a[3])
        if op == '-':
            c, d = _to_lin(a)
            if a[0] in ('const', 'lin') or True:
                return _from_lin(-c, {t: -v for t, v in d.items()})
        if op == '+':
            return a
        return None
    if k == 'nary':
        # an operand that has meanwhile become a constant (or another product) is folded in
        r_ = _mk_nary(e[1], e[2])
        return r_ if r_ != e else None
    if k == 'bin' and e[1] == '//' and e[2] == e[3] and _nonneg_int(e[2]) and e[2][0] != 'const':
        return ('const', 1)                             # w // w for a width (never zero where the division is reached)
    if k == 'bin':
        op, a, b = e[1], e[2], e[3]
        if op == '>>' and not _has_str(a):
            return ('bin', '//', a, ('bin', '**', ('const', 2), b))       # on integers
        if op == '<<':
            if a == ('const', 1):
                return ('bin', '**', ('const', 2), b)
            if a[0] == 'const' and b[0] == 'const' and isinstance(a[1], int) and isinstance(b[1], int):
                return ('const', a[1] << b[1])
            return _norm1(('bin', '*', a, ('bin', '**', ('const', 2), b)), ctx) \
                if _is_intlike(a) else None
        if op == '+':
            # tuple concatenation: (k,) + tuple(p) is (k, *p); (a,) + (b, c) is (a, b, c)
            def parts(x):
                if x[0] == 'tuple':
                    return list(x[1])
                if x[0] == 'call' and x[1] == ('name', 'tuple') and len(x[2]) == 1 and not x[3]:
                    return [('star', x[2][0])]
                return None
            pa, pb = parts(a), parts(b)
            if pa is not None and pb is not None and (a[0] == 'tuple' or b[0] == 'tuple'):
                return ('tuple', tuple(pa + pb))
        if op in ('+', '-'):
            if _has_str(a) or _has_str(b):
                return None
            ca, da = _to_lin(a)
            cb, db = _to_lin(b)
            sgn = 1 if op == '+' else -1
            d = dict(da)
            for t, c in db.items():
                _lin_add(d, t, sgn * c)
            return _from_lin(ca + sgn * cb, d)
        if op == '*':
            if _has_str(a) or _has_str(b):
                return None
            if a[0] == 'const' and isinstance(a[1], int) and not isinstance(a[1], bool):
                c, d = _to_lin(b)
                return _from_lin(a[1] * c, {t: a[1] * v for t, v in d.items()})
            if b[0] == 'const' and isinstance(b[1], int) and not isinstance(b[1], bool):
                c, d = _to_lin(a)
                return _from_lin(b[1] * c, {t: b[1] * v for t, v in d.items()})
            # (x // y) * y  ==  x - x % y
            for q, y in ((a, b), (b, a)):
                if q[0] == 'bin' and q[1] == '//' and q[3] == y:
                    return _from_lin(0, {q[2]: 1, ('bin', '%', q[2], y): -1})
            return _mk_nary('*', (a, b))
        if op in COMM:
            return _mk_nary(op, (a, b))
        if op == '**' and a[0] == 'const' and b[0] == 'const' and isinstance(a[1], int) and isinstance(b[1], int) \
                and 0 <= b[1] < 64:
            return ('const', a[1] ** b[1])
        if op == '//':
            # ceil-division idioms: (a + b - 1) // b   and  -(-a // b) handled at 'un'
            c, d = _to_lin(a)
            if c == -1 and d.get(b) == 1 and len(d) >= 2:
                d2 = dict(d)
                del d2[b]
                return ('ceildiv', _from_lin(0, d2), b)
            if b[0] == 'const' and isinstance(b[1], int) and b[1] > 0 and a[0] == 'lin':
                # (a + k - 1) // k with constant k
                if c == b[1] - 1 and d:
                    return ('ceildiv', _from_lin(0, d), b)
            if a[0] == 'const' and b[0] == 'const' and isinstance(a[1], int) and isinstance(b[1], int) and b[1]:
                return ('const', a[1] // b[1])
        return None
    if k == 'lin':
        # flatten nested linear forms / constants (they appear after substitution into a normal form)
        if any(t[0] in ('lin', 'const') for t, _ in e[2]):
            c0, d = e[1], {}
            for t, coef in e[2]:
                ct, dt = _to_lin(t)
                c0 += coef * ct
                for tt, v in dt.items():
                    _lin_add(d, tt, coef * v)
            return _from_lin(c0, d)
        # -(-a // b)  ==  ceildiv(a, b): appears as lin(0, ((bin // (lin 0 ((a,-1))) b), -1))
        if e[1] == 0 and len(e[2]) == 1 and e[2][0][1] == -1:
            t = e[2][0][0]
            if t[0] == 'bin' and t[1] == '//':
                c, d = _to_lin(t[2])
                if c == 0 and d and all(v < 0 for v in d.values()):
                    return ('ceildiv', _from_lin(0, {tt: -v for tt, v in d.items()}), t[3])
        return None
    if k == 'or' and len(e[1]) == 2 and ('const', 1) in e[1]:
        # `n or 1` for a count that cannot be negative (a sum of widths and logarithms) is max(1, n)
        x_ = e[1][0] if e[1][1] == ('const', 1) else e[1][1]
        if e[1][1] == ('const', 1) and _nonneg_int(x_):
            return ('call', ('name', 'max'), (('const', 1), x_), ())
    if k in ('and', 'or'):
        flat = []
        for x in e[1]:
            if x[0] == k:
                flat.extend(x[1])
            else:
                flat.append(x)
        absorbing = ('const', k == 'or')
        if absorbing in flat:
            return absorbing
        flat = [x for x in flat if x != ('const', k != 'or')]
        if not flat:
            return ('const', k != 'or')
        if len(flat) == 1:
            return flat[0]
        flat.sort(key=_sort_key)
        return (k, tuple(flat))
    if k == 'sub':
        b = e[1]
        # Enum["NAME"] with NAME = value.upper() for every member is Enum(value): Feature[x.upper()] == Feature(x)
        s_ = e[2]
        if s_[0] == 'call' and s_[1][0] == 'attr' and s_[1][2] == 'upper' and not s_[2] and not s_[3]:
            ck = _cls_key(b, ctx)
            tab = ctx.enums.get(ck) if ck and ck != '@methods' else None
            if tab and all(isinstance(v_, str) and m_ == v_.upper() for m_, v_ in tab.items()):
                return ('call', b, (s_[1][1],), ())
        # bit i of Mux(c, X, 0) is c & X[i] (a bit X does not have would be an error in the spelled-out form, not a value)
        if e[2][0] != 'slice' and b[0] == 'call' and b[1] == ('name', 'Mux') and len(b[2]) == 3 and not b[3] and b[2][2] == ('const', 0):
            return ('nary', '&', (b[2][0], ('sub', b[2][1], e[2])))
        # bit i of a vector masked by a strobe replicated to the vector's own length: (X & S.replicate(len(X)))[i] == X[i] & S
        if e[2][0] != 'slice' and ((b[0] == 'nary' and b[1] == '&' and len(b[2]) == 2) or (b[0] == 'bin' and b[1] == '&')):
            ops_ = b[2] if b[0] == 'nary' else (b[2], b[3])
            def plain_(x):
                while x[0] == 'call' and x[1][0] == 'attr' and x[1][2] in ('as_unsigned', 'as_value') and not x[2] and not x[3]:
                    x = x[1][1]
                return x
            for x_, r_ in ((ops_[0], ops_[1]), (ops_[1], ops_[0])):
                if r_[0] == 'call' and r_[1][0] == 'attr' and r_[1][2] == 'replicate' and len(r_[2]) == 1 and not r_[3] and \
                        r_[2][0] == ('call', ('name', 'len'), (plain_(x_),), ()):
                    return ('nary', '&', (('sub', plain_(x_), e[2]), r_[1][1]))
        if b[0] in ('tuple', 'list') and e[2][0] == 'const' and isinstance(e[2][1], int) and not any(x[0] == 'star' for x in b[1]) \
                and -len(b[1]) <= e[2][1] < len(b[1]):
            return b[1][e[2][1]]                        # (a, b, c)[1] == b
        if b[0] == 'call' and b[1][0] == 'attr' and b[1][2] == 'get' and len(b[2]) == 1 and not b[3]:
            return ('sub', ('sub', b[1][1], b[2][0]), e[2])     # D.get(k)[i] == D[k][i] (subscripting implies presence)
        if b[0] == 'item' and e[2][0] == 'const' and isinstance(e[2][1], int) and not isinstance(e[2][1], bool) and e[2][1] >= 0:
            return ('item', b[1], tuple(b[2]) + (e[2][1],))      # component k of a loop item: the path of a tuple-unpacking target
        # element K of a list comprehension over range(n): [f(v) for v in range(n)][K] is f(K) (f(n - 1) for K == -1)
        if b[0] == 'gen' and b[1] == 'list' and len(b[3]) == 1 and not b[3][0][2] and e[2][0] != 'slice':
            tgt_, it_, _ = b[3][0]
            if tgt_[0] == 'bv' and it_[0] == 'call' and it_[1] == ('name', 'range') and not it_[3] and \
                    (len(it_[2]) == 1 or (len(it_[2]) == 2 and it_[2][0] == ('const', 0))):
                K = e[2]
                if K == ('const', -1) or K == ('un', '-', ('const', 1)):
                    K = ('bin', '-', it_[2][-1], ('const', 1))
                if K[0] in ('idx', 'lin', 'name', 'bin') or (K[0] == 'const' and isinstance(K[1], int) and not isinstance(K[1], bool) and K[1] >= 0):
                    return subst(b[2], lambda x: K if x == tgt_ else None)
        # a slice bound chosen at generation time is a choice between two slices; the full slice of a value is the value
        if e[2][0] == 'slice':
            lo_, hi_, st_ = e[2][1], e[2][2], e[2][3]
            if hi_[0] == 'phi':
                return ('phi', hi_[1], ('sub', b, ('slice', lo_, hi_[2], st_)), ('sub', b, ('slice', lo_, hi_[3], st_)))
            if lo_[0] == 'phi':
                return ('phi', lo_[1], ('sub', b, ('slice', lo_[2], hi_, st_)), ('sub', b, ('slice', lo_[3], hi_, st_)))
            if lo_ in (('const', 0), ('const', None)) and hi_ == ('const', None) and st_ in (('const', 1), ('const', None)):
                return b
        # bit k of a word-wide choice against zero: Mux(c, a, 0)[k] is Mux(c, a[k], 0)  (the result is as wide as a; its bits are
        # a's bits or zeros)
        if b[0] == 'call' and b[1] == ('name', 'Mux') and len(b[2]) == 3 and b[2][2] == ('const', 0) and e[2][0] != 'slice':
            return ('call', ('name', 'Mux'), (b[2][0], ('sub', b[2][1], e[2]), ('const', 0)), ())
        return None
    if k == 'slice':
        lo, hi, st = e[1], e[2], e[3]
        if lo == ('const', None):
            lo = ('const', 0)
        if st == ('const', None):
            st = ('const', 1)
        return ('slice', lo, hi, st)
    if k == 'ifexp':
        return ('phi', e[1], e[2], e[3])
    if k == 'phi':
        if e[1][0] == 'const' and isinstance(e[1][1], bool):
            return e[2] if e[1][1] else e[3]
        if e[1][0] == 'un' and e[1][1] == 'not':
            return ('phi', e[1][2], e[3], e[2])
        if e[2] == ('const', False) and e[1] == ('un', 'not', e[3]):
            return e[3]
        if e[3] == ('const', False) and e[1] == e[2]:
            return e[2]
        if e[3] == ('undef',):
            return e[2]
        if e[2] == ('undef',):
            return e[3]
        if e[2] == e[3]:
            return e[2]
        if e[2] == ('const', True) and e[3] == ('const', False):
            return e[1]                                 # True if c else False
        if e[2] == ('const', False) and e[3] == ('const', True):
            return ('un', 'not', e[1])
        # A if X == K else B, with B at X = K being A: the special case says nothing (`adr if r == 1 else adr << log2(r)`)
        c_ = e[1]
        if c_[0] == 'cmp' and c_[1] in ('==', '!=') and (c_[2][0] == 'const') != (c_[3][0] == 'const'):
            X, K = (c_[2], c_[3]) if c_[3][0] == 'const' else (c_[3], c_[2])
            spec, gen_ = (e[2], e[3]) if c_[1] == '==' else (e[3], e[2])
            if isinstance(K[1], int) and not isinstance(K[1], bool) and X[0] not in ('const', 'phi') and mentions(gen_, X):
                at_k = norm(subst(gen_, lambda x: K if x == X else None), ctx)
                if at_k == spec:
                    return gen_
        # a if a > b else b  /  b if a < b else a  ==  max(a, b);  a if a < b else b == min(a, b)
        if c_[0] == 'cmp' and c_[1] == '<' and {c_[2], c_[3]} == {e[2], e[3]} and e[2] != e[3]:
            fn = 'min' if e[2] == c_[2] else 'max'
            args = tuple(sorted((e[2], e[3]), key=_sort_key))
            return ('call', ('name', fn), args, ())
        return None
    if k == 'gen':
        # alpha-rename bound variables
        names = []
        for t, _, _ in e[3]:
            for x in walk(t):
                if x[0] == 'bv' and x[1] not in names and not str(x[1]).startswith('%'):
                    names.append(x[1])
        if names:
            ren = {n: f"%{i}" for i, n in enumerate(names)}
            return subst(e, lambda x: ('bv', ren[x[1]]) if x[0] == 'bv' and x[1] in ren else None)
        return None
    if k == 'call' or k == 'ifexp':
        return None
    return None


def _is_intlike(e):
    return not _has_str(e)


def _is_arith(e):
    """Operands we are willing to move across == : anything that is not obviously a non-number."""
    return e[0] not in ('tuple', 'list', 'set', 'dict', 'fstr', 'opaque', 'enum') and \
        not (e[0] == 'const' and not isinstance(e[1], int)) and \
        not (e[0] == 'const' and isinstance(e[1], bool))


# ----------------------------------------------------------------------------------------
def resort(e):
    """Re-establish the canonical operand order after a substitution (linear forms, commutative n-ary operators, and / or)."""
    def f(x):
        if x[0] == 'lin':
            return ('lin', x[1], tuple(sorted(x[2], key=lambda t: _sort_key(t[0]))))
        if x[0] == 'nary' and x[1] in ('&', '|', '^', '*'):
            return ('nary', x[1], tuple(sorted(x[2], key=_sort_key)))
        if x[0] in ('and', 'or'):
            return (x[0], tuple(sorted(x[1], key=_sort_key)))
        return None
    return subst(e, f)


# printer

def show(e):
    if e is None:
        return "<absent>"
    k = e[0]
    if k == 'const':
        return repr(e[1])
    if k == 'name':
        return e[1]
    if k == 'bv':
        return str(e[1])
    if k == 'attr':
        return f"{show(e[1])}.{e[2]}"
    if k == 'sub':
        return f"{show(e[1])}[{show(e[2])}]"
    if k == 'slice':
        return f"{show(e[1])}:{show(e[2])}:{show(e[3])}"
    if k == 'call':
        parts = [show(a) for a in e[2]] + [f"{kk}={show(v)}" for kk, v in e[3]]
        return f"{show(e[1])}({', '.join(parts)})"
    if k == 'bin':
        return f"({show(e[2])} {e[1]} {show(e[3])})"
    if k == 'cmp':
        return f"({show(e[2])} {e[1]} {show(e[3])})"
    if k == 'un':
        return f"{e[1]}{' ' if e[1] == 'not' else ''}{show(e[2])}"
    if k in ('and', 'or'):
        return "(" + f" {k} ".join(show(x) for x in e[1]) + ")"
    if k == 'nary':
        return "(" + f" {e[1]} ".join(show(x) for x in e[2]) + ")"
    if k == 'lin':
        parts = []
        for t, c in e[2]:
            parts.append(show(t) if c == 1 else f"{c}*{show(t)}")
        if e[1] != 0:
            parts.append(str(e[1]))
        return "(" + " + ".join(parts) + ")"
    if k == 'ifexp':
        return f"({show(e[2])} if {show(e[1])} else {show(e[3])})"
    if k == 'phi':
        return f"phi({show(e[1])} ? {show(e[2])} : {show(e[3])})"
    if k == 'undef':
        return "<undef>"
    if k == 'tuple':
        return "(" + ", ".join(show(x) for x in e[1]) + ("," if len(e[1]) == 1 else "") + ")"
    if k == 'list':
        return "[" + ", ".join(show(x) for x in e[1]) + "]"
    if k == 'set':
        return "{" + ", ".join(show(x) for x in e[1]) + "}"
    if k == 'dict':
        return "{" + ", ".join(f"{show(a)}: {show(b)}" for a, b in e[1]) + "}"
    if k == 'gen':
        s = show(e[2])
        for t, it, ifs in e[3]:
            s += f" for {show(t)} in {show(it)}"
            for c in ifs:
                s += f" if {show(c)}"
        return f"<{e[1]} {s}>"
    if k == 'star':
        return "*" + show(e[1])
    if k == 'last':
        return f"last({show(e[1])})"
    if k == 'opaque':
        return f"<<{e[1]}>>"
    if k == 'fstr':
        return "f'" + "".join(p[1] if p[0] == 'const' else "{" + show(p[1]) + "}" for p in e[1]) + "'"
    if k == 'fmt':
        return show(e[1])
    if k == 'sig':
        return f"${e[2]}#{e[1]}"
    if k == 'obj':
        return f"@{e[2]}#{e[1]}"
    if k == 'listacc':
        return f"list#{e[1]}"
    if k == 'idx':
        return f"idx<{e[1]}>"
    if k == 'item':
        return f"item<{e[1]}>" + "".join(f"[{p}]" for p in e[2])
    if k == 'acc':
        return f"OR<{e[1]}>"
    if k == 'carry':
        return f"carry<{e[1]}>"
    if k == 'final':
        return f"final<{e[1]}>"
    if k == 'has':
        return f"has({show(e[1])}, {e[2]!r})"
    if k == 'enum':
        return f"{e[1]}.{e[2]}"
    if k == 'ceildiv':
        return f"ceildiv({show(e[1])}, {show(e[2])})"
    if k == 'localfn':
        return "<localfn>"
    return repr(e)


def split_neg(e):
    """(positive expression, polarity) of a normalised Boolean expression."""
    pol = True
    while e[0] == 'un' and e[1] == 'not':
        e = e[2]
        pol = not pol
    return e, pol
