"""E-CG: call resolution and bottom-up effect summaries (may-raise with types, writes with roots).

Roots of a written location:  ('self', path) | ('param', name, path) | ('global', name) ; writes to objects
allocated in the same activation (fresh locals) are not effects of the function."""
import ast

from . import ir

MUTATORS = {"append", "insert", "add", "update", "pop", "extend", "remove", "clear", "setdefault", "discard",
            "popitem", "sort", "reverse", "__setitem__", "__delitem__", "appendleft"}
# external (Amaranth) methods that both mutate and depend on the state of their receiver
# (amaranth/lib/memory.py: Memory.read_port/write_port append to the port lists and raise AlreadyElaborated
#  once the memory is frozen by elaboration)
EXTERNAL_STATEFUL = {"read_port", "write_port"}
# attribute name -> class simple name, where a setter in the repository enforces the type with isinstance
WELL_KNOWN_ATTRS = {"memory_map": "MemoryMap", "event_map": "EventMap", "_memory_map": "MemoryMap",
                    "_event_map": "EventMap"}
# validating constructors that cannot raise when given an instance of their own class
#   MemoryMap.Name: a Name is a non-empty tuple of already validated parts, so Name(Name(x)) revalidates and succeeds
IDEMPOTENT_VALIDATORS = {"MemoryMap.Name"}

PURE_BUILTINS = {"isinstance", "issubclass", "len", "id", "max", "min", "range", "enumerate", "sorted", "tuple",
                 "list", "dict", "set", "frozenset", "str", "repr", "int", "bool", "filter", "map", "zip", "hasattr",
                 "getattr", "reversed", "sum", "any", "all", "type", "super", "print", "iter", "next", "abs", "format"}


class RaiseSite:
    __slots__ = ("exc", "cond", "site", "lineno")

    def __init__(self, exc, cond, site, lineno):
        self.exc = exc          # exception class name (text)
        self.cond = cond        # None | ('unless_typed', param, cls)
        self.site = site
        self.lineno = lineno

    def __repr__(self):
        return f"<raise {self.exc} @{self.site}:{self.lineno} {self.cond or ''}>"


class Summary:
    def __init__(self):
        self.raises = []
        self.writes = set()         # (rootkind, rootname, path tuple)
        self.reads = set()
        self.calls = []             # (FuncInfo, lineno)
        self.external_stateful = []  # (root, method, lineno)
        self.in_progress = False
        self.wsites = {}            # location -> set of statement ids that write it
        self.rsites = {}            # location -> set of statement ids that read it

    def w(self, loc, sid):
        self.writes.add(loc)
        self.wsites.setdefault(loc, set()).add(sid)

    def r(self, loc, sid):
        self.reads.add(loc)
        self.rsites.setdefault(loc, set()).add(sid)


class Effects:
    def __init__(self, index):
        self.idx = index
        self.cache = {}

    # ---- typing ------------------------------------------------------------------------------
    def class_by_name(self, name):
        cands = [c for c in self.idx.all_classes() if c.qual == name or c.name == name]
        return cands[0] if len(cands) == 1 else None

    def guard_types(self, fi):
        """Parameters (and locals) whose class is fixed by `if not isinstance(p, C): raise`, or by ctor assignment."""
        types = {}
        for st in ast.walk(fi.node):
            if isinstance(st, ast.If):
                t = st.test
                neg = isinstance(t, ast.UnaryOp) and isinstance(t.op, ast.Not)
                call = t.operand if neg else t
                if isinstance(call, ast.Call) and isinstance(call.func, ast.Name) and call.func.id == "isinstance" \
                        and len(call.args) == 2 and isinstance(call.args[0], ast.Name):
                    raises = any(isinstance(s, ast.Raise) for s in (st.body if neg else st.orelse))
                    if raises and not isinstance(call.args[1], ast.Tuple):
                        c = self.idx.resolve_class(ir.from_ast(call.args[1], {}), fi.module, fi.cls)
                        if c is not None:
                            types[call.args[0].id] = c
            elif isinstance(st, ast.Assert):
                t = st.test
                if isinstance(t, ast.Call) and isinstance(t.func, ast.Name) and t.func.id == "isinstance" \
                        and len(t.args) == 2 and isinstance(t.args[0], ast.Name) and not isinstance(t.args[1], ast.Tuple):
                    c = self.idx.resolve_class(ir.from_ast(t.args[1], {}), fi.module, fi.cls)
                    if c is not None:
                        types.setdefault(t.args[0].id, c)
            elif isinstance(st, ast.Assign) and len(st.targets) == 1 and isinstance(st.targets[0], ast.Name) \
                    and isinstance(st.value, ast.Call):
                c = self.idx.resolve_class(ir.from_ast(st.value.func, {}), fi.module, fi.cls)
                if c is not None:
                    types.setdefault(st.targets[0].id, c)
        return types

    def type_of(self, node, fi, types):
        """Static class of an expression, or None."""
        if isinstance(node, ast.Name):
            if node.id == "self" and fi.cls is not None and not fi.is_static:
                return fi.cls
            if node.id not in types:
                # a local that is just another name for an attribute chain (x = sub_bus.memory_map) has that attribute's type
                al = self.local_alias(fi, node.id)
                if al is not None:
                    return self.type_of(al, fi, types)
            return types.get(node.id)
        if isinstance(node, ast.Attribute):
            if node.attr in WELL_KNOWN_ATTRS:
                return self.class_by_name(WELL_KNOWN_ATTRS[node.attr])
            base = self.type_of(node.value, fi, types)
            if base is not None:
                ft = self.idx.field_types(base)
                if node.attr in ft:
                    return ft[node.attr]
            return None
        if isinstance(node, ast.Call):
            c = self.idx.resolve_class(ir.from_ast(node.func, {}), fi.module, fi.cls)
            return c
        return None

    def resolve_call(self, call, fi, types):
        """-> ('func', FuncInfo, receiver_node|None) | ('class', ClassInfo, FuncInfo|None) | ('ext', name, receiver_node|None)"""
        f = call.func
        if isinstance(f, ast.Attribute):
            # super().__init__(...)
            if isinstance(f.value, ast.Call) and isinstance(f.value.func, ast.Name) and f.value.func.id == "super":
                if fi.cls is not None:
                    for b in self.idx.bases_of(fi.cls):
                        m = b.method(f.attr)
                        if m is not None:
                            return ('func', m, ast.Name(id="self", ctx=ast.Load()))
                return ('ext', "super." + f.attr, None)
            t = self.type_of(f.value, fi, types)
            if t is not None:
                m = self.idx.lookup_method(t, f.attr)
                if m is not None:
                    return ('func', m, f.value)
            # ClassName.method / nested class constructor
            c = self.idx.resolve_class(ir.from_ast(f, {}), fi.module, fi.cls)
            if c is not None:
                return ('class', c, c.method("__new__") or c.method("__init__"))
            cb = self.idx.resolve_class(ir.from_ast(f.value, {}), fi.module, fi.cls)
            if cb is not None:
                m = self.idx.lookup_method(cb, f.attr)
                if m is not None:
                    return ('func', m, None)
            return ('ext', f.attr, f.value)
        if isinstance(f, ast.Name):
            c = self.idx.resolve_class(('name', f.id), fi.module, fi.cls)
            if c is not None:
                return ('class', c, c.method("__new__") or c.method("__init__"))
            if f.id in fi.module.functions:
                return ('func', fi.module.functions[f.id], None)
            return ('ext', f.id, None)
        return ('ext', "?", None)

    # ---- roots -------------------------------------------------------------------------------
    def local_alias(self, fi, name):
        """`x = self.a.b` (the only binding of x, no call, no copy): x is another name for that object."""
        cache = fi.__dict__.setdefault("_alias_cache", {}) if hasattr(fi, "__dict__") else {}
        if name in cache:
            return cache[name]
        binds = []
        for n in ast.walk(fi.node):
            if isinstance(n, (ast.Assign, ast.AugAssign, ast.AnnAssign, ast.For, ast.With, ast.NamedExpr, ast.comprehension)):
                tg = []
                if isinstance(n, ast.Assign):
                    tg = n.targets
                elif isinstance(n, (ast.AugAssign, ast.AnnAssign, ast.NamedExpr)):
                    tg = [n.target]
                elif isinstance(n, (ast.For, ast.comprehension)):
                    tg = [n.target]
                elif isinstance(n, ast.With):
                    tg = [i.optional_vars for i in n.items if i.optional_vars is not None]
                for t in tg:
                    if any(isinstance(x, ast.Name) and x.id == name and isinstance(x.ctx, (ast.Store, ast.Del)) for x in ast.walk(t)):
                        binds.append(n)
        out = None
        if len(binds) == 1 and isinstance(binds[0], ast.Assign) and len(binds[0].targets) == 1 and \
                isinstance(binds[0].targets[0], ast.Name):
            v = binds[0].value
            e = v
            while isinstance(e, ast.Attribute):
                e = e.value
            if isinstance(v, ast.Attribute) and isinstance(e, ast.Name) and e.id != name:
                out = v
        cache[name] = out
        return out

    def root_of(self, node, fi, fresh, depth=0):
        """('self'|'param'|'global'|'fresh', name, path) of an lvalue/receiver expression."""
        path = []
        e = node
        while True:
            if isinstance(e, ast.Attribute):
                path.append(e.attr)
                e = e.value
            elif isinstance(e, ast.Subscript):
                path.append("[]")
                e = e.value
            else:
                break
        path.reverse()
        if isinstance(e, ast.Name):
            if e.id == "self" and not fi.is_static:
                return ('self', 'self', tuple(path))
            if e.id in fresh:
                return ('fresh', e.id, tuple(path))
            if e.id in fi.params:
                return ('param', e.id, tuple(path))
            if e.id in self.local_names(fi):
                tgt = self.local_alias(fi, e.id)
                if tgt is not None and depth < 4:
                    r = self.root_of(tgt, fi, fresh, depth + 1)
                    if r is not None and r[0] in ('self', 'param', 'global'):
                        return (r[0], r[1], r[2] + tuple(path))
                return ('fresh', e.id, tuple(path))     # local alias of something: treated via alias map by callers
            return ('global', e.id, tuple(path))
        if isinstance(e, ast.Call):
            return ('fresh', '<call>', tuple(path))
        return None

    def local_names(self, fi):
        if not hasattr(fi, "_locals"):
            names = set()
            for n in ast.walk(fi.node):
                if isinstance(n, ast.Name) and isinstance(n.ctx, ast.Store):
                    names.add(n.id)
            fi._locals = names - set(fi.params)
        return fi._locals

    def fresh_locals(self, fi):
        """Locals bound only to freshly allocated objects (literals, constructor calls, comprehensions)."""
        if hasattr(fi, "_fresh"):
            return fi._fresh
        cand = {}
        for n in ast.walk(fi.node):
            if isinstance(n, ast.Assign):
                for t in n.targets:
                    if isinstance(t, ast.Name):
                        v = n.value
                        is_fresh = isinstance(v, (ast.List, ast.Dict, ast.Set, ast.ListComp, ast.DictComp, ast.SetComp,
                                                  ast.Tuple, ast.Constant, ast.JoinedStr, ast.BinOp, ast.Compare))
                        if isinstance(v, ast.Call):
                            fn = v.func
                            nm = fn.id if isinstance(fn, ast.Name) else (fn.attr if isinstance(fn, ast.Attribute) else "")
                            if nm in ("list", "dict", "set", "defaultdict", "OrderedDict", "sorted", "tuple", "Module",
                                      "Signal", "range", "frozenset"):
                                is_fresh = True
                            elif self.idx.resolve_class(ir.from_ast(fn, {}), fi.module, fi.cls) is not None:
                                is_fresh = True
                        cand.setdefault(t.id, []).append(is_fresh)
        fi._fresh = {k for k, v in cand.items() if all(v)}
        return fi._fresh

    # ---- summaries -----------------------------------------------------------------------------
    def summary(self, fi):
        key = fi.site + ("#setter" if fi.is_setter else "")
        s = self.cache.get(key)
        if s is not None:
            return s
        s = Summary()
        s.in_progress = True
        self.cache[key] = s
        types = self.guard_types(fi)
        fresh = self.fresh_locals(fi)
        self._scan(fi, fi.node.body, s, types, fresh, caught=())
        s.in_progress = False
        return s

    def _scan(self, fi, stmts, s, types, fresh, caught):
        for st in stmts:
            if isinstance(st, ast.Assert):
                continue                                    # A1
            if isinstance(st, ast.Try):
                names = []
                for h in st.handlers:
                    if h.type is None:
                        names.append("*")
                    elif isinstance(h.type, ast.Tuple):
                        names += [ast.unparse(t) for t in h.type.elts]
                    else:
                        names.append(ast.unparse(h.type))
                self._scan(fi, st.body, s, types, fresh, caught + tuple(names))
                for h in st.handlers:
                    self._scan(fi, h.body, s, types, fresh, caught)
                self._scan(fi, st.orelse, s, types, fresh, caught)
                self._scan(fi, st.finalbody, s, types, fresh, caught)
                continue
            if isinstance(st, (ast.FunctionDef, ast.ClassDef)):
                if isinstance(st, ast.FunctionDef):
                    # local helper: effects happen when called; approximate by scanning now
                    self._scan(fi, st.body, s, types, fresh, caught)
                continue
            # compound statements: scan header expressions, then bodies
            if isinstance(st, (ast.If, ast.While)):
                if isinstance(st.test, ast.Constant):       # dead branch
                    self._scan(fi, st.body if st.test.value else st.orelse, s, types, fresh, caught)
                    continue
                self._exprs(fi, [st.test], s, types, fresh, caught, st)
                self._scan(fi, st.body, s, types, fresh, caught)
                self._scan(fi, st.orelse, s, types, fresh, caught)
                continue
            if isinstance(st, ast.For):
                self._exprs(fi, [st.iter], s, types, fresh, caught, st)
                self._scan(fi, st.body, s, types, fresh, caught)
                self._scan(fi, st.orelse, s, types, fresh, caught)
                continue
            if isinstance(st, ast.With):
                self._exprs(fi, [i.context_expr for i in st.items], s, types, fresh, caught, st)
                self._scan(fi, st.body, s, types, fresh, caught)
                continue
            self._simple(fi, st, s, types, fresh, caught)

    def _catches(self, caught, exc):
        return "*" in caught or exc in caught or "Exception" in caught or "BaseException" in caught

    def _simple(self, fi, st, s, types, fresh, caught):
        if isinstance(st, ast.Raise):
            exc = "?"
            if st.exc is not None:
                e = st.exc.func if isinstance(st.exc, ast.Call) else st.exc
                exc = ast.unparse(e)
            if not self._catches(caught, exc):
                s.raises.append(RaiseSite(exc, None, fi.site, st.lineno))
            if st.exc is not None:
                self._exprs(fi, [st.exc], s, types, fresh, caught, st, in_raise=True)
            return
        # stores
        targets = []
        if isinstance(st, ast.Assign):
            targets = st.targets
        elif isinstance(st, (ast.AugAssign, ast.AnnAssign)):
            targets = [st.target]
        elif isinstance(st, ast.Delete):
            targets = st.targets
        for t in targets:
            for x in ([t] if not isinstance(t, (ast.Tuple, ast.List)) else t.elts):
                if isinstance(x, (ast.Attribute, ast.Subscript)):
                    r = self.root_of(x, fi, fresh)
                    sid = f"{fi.site}:{st.lineno}"
                    if r is not None and r[0] != 'fresh':
                        s.w((r[0], r[1], self._trim(r[2])), sid)
                    if isinstance(st, ast.AugAssign) and r is not None and r[0] != 'fresh':
                        s.r((r[0], r[1], self._trim(r[2])), sid)
        exprs = []
        for fld in ("value", "test", "msg"):
            v = getattr(st, fld, None)
            if isinstance(v, ast.AST):
                exprs.append(v)
        if isinstance(st, (ast.Assign, ast.AugAssign, ast.AnnAssign, ast.Delete)):
            for t in targets:
                exprs.append(t)
        self._exprs(fi, exprs, s, types, fresh, caught, st)

    @staticmethod
    def _trim(path):
        # container element stores are writes of the container attribute
        p = tuple(x for x in path if x != "[]")
        return p

    @staticmethod
    def _live_walk(e):
        """ast.walk that skips branches killed by a constant test (`x if False else y`)."""
        stack = [e]
        while stack:
            n = stack.pop()
            yield n
            if isinstance(n, ast.IfExp) and isinstance(n.test, ast.Constant):
                stack.append(n.body if n.test.value else n.orelse)
                continue
            stack.extend(ast.iter_child_nodes(n))

    def _exprs(self, fi, exprs, s, types, fresh, caught, st, in_raise=False):
        for e in exprs:
            for n in self._live_walk(e):
                if isinstance(n, ast.Attribute) and isinstance(n.ctx, ast.Load):
                    r = self.root_of(n, fi, fresh)
                    if r is not None and r[0] in ('self', 'param', 'global') and r[2]:
                        s.r((r[0], r[1], self._trim(r[2])), f"{fi.site}:{getattr(st, 'lineno', getattr(n, 'lineno', 0))}")
                if isinstance(n, ast.Call):
                    # getattr(self, "x"[, default]) reads self.x
                    if isinstance(n.func, ast.Name) and n.func.id == "getattr" and len(n.args) >= 2 and \
                            isinstance(n.args[1], ast.Constant) and isinstance(n.args[1].value, str):
                        r = self.root_of(n.args[0], fi, fresh)
                        if r is not None and r[0] in ('self', 'param', 'global'):
                            s.r((r[0], r[1], self._trim(r[2]) + (n.args[1].value,)),
                                f"{fi.site}:{getattr(st, 'lineno', getattr(n, 'lineno', 0))}")
                    self._call(fi, n, s, types, fresh, caught, st)

    def arg_binding(self, call, callee):
        """param name -> arg ast (positional/keyword); receiver excluded."""
        params = list(callee.params)
        if params and params[0] in ("self", "cls") and not callee.is_static:
            params = params[1:]
        b = {}
        pos = [a for a in call.args]
        for p, a in zip(params, pos):
            if isinstance(a, ast.Starred):
                break
            b[p] = a
        va = callee.node.args.vararg.arg if callee.node.args.vararg else None
        if va is not None:
            npos = len(callee.node.args.posonlyargs) + len(callee.node.args.args)
            if params and callee.params[0] in ("self", "cls") and not callee.is_static:
                npos -= 1
            b[va] = ('varargs', pos[npos:])
        for k in call.keywords:
            if k.arg is not None:
                b[k.arg] = k.value
        return b

    def _call(self, fi, call, s, types, fresh, caught, st):
        kind = self.resolve_call(call, fi, types)
        if kind[0] == 'ext':
            name, recv = kind[1], kind[2]
            sid = f"{fi.site}:{call.lineno}"
            if recv is not None and name in MUTATORS:
                r = self.root_of(recv, fi, fresh)
                if r is not None and r[0] != 'fresh':
                    s.w((r[0], r[1], self._trim(r[2])), sid)
                    if name in ("pop", "remove", "popitem", "setdefault"):
                        # what these do (and whether they fail) depends on what the container holds: a read of its own
                        s.r((r[0], r[1], self._trim(r[2])), sid + "#rmw")
            if recv is not None and name in EXTERNAL_STATEFUL:
                r = self.root_of(recv, fi, fresh)
                if r is not None and r[0] != 'fresh':
                    s.w((r[0], r[1], self._trim(r[2])), sid)
                    s.r((r[0], r[1], self._trim(r[2])), sid + "#ext")
                    s.external_stateful.append((r, name, call.lineno))
            return
        callee = kind[2] if kind[0] == 'class' else kind[1]
        if kind[0] == 'class' and callee is None and len(call.args) == 1 and not call.keywords and \
                (kind[1].qual in self.idx.enums or kind[1].name in self.idx.enums):
            # Enum(value): a lookup by value, ValueError when no member has it -- unless the argument already is a member
            a = call.args[0]
            member = isinstance(a, ast.Attribute) and a.attr.isupper()
            if not member and not self._catches(caught, "ValueError"):
                cond = ('unless_typed', a.id, kind[1].qual) if isinstance(a, ast.Name) else None
                s.raises.append(RaiseSite("ValueError", cond, f"{kind[1].site} (lookup by value)", call.lineno))
            return
        if callee is None:
            return
        s.calls.append((callee, call.lineno))
        cs = self.summary(callee)
        if cs.in_progress:
            return                                  # recursion: fixed point not needed for our facts
        recv = kind[2] if kind[0] == 'func' else None
        binding = self.arg_binding(call, callee)
        # raises
        if kind[0] == 'class' and kind[1].qual in IDEMPOTENT_VALIDATORS and len(call.args) == 1:
            # Name(x) cannot raise when x is already a Name: record the condition on the argument variable
            a = call.args[0]
            cond = ('unless_typed', a.id, kind[1].qual) if isinstance(a, ast.Name) else None
            for rs in cs.raises:
                if not self._catches(caught, rs.exc):
                    s.raises.append(RaiseSite(rs.exc, cond, rs.site, call.lineno))
        else:
            for rs in cs.raises:
                if self._catches(caught, rs.exc):
                    continue
                cond = rs.cond
                if cond is not None:
                    cond = self._forward_cond(callee, binding, cond)
                    if cond == 'never':
                        continue
                s.raises.append(RaiseSite(rs.exc, cond, rs.site, call.lineno))
        # writes
        for (rk, rn, path) in cs.writes:
            mapped = self._map_root(fi, rk, rn, path, recv, binding, fresh)
            if mapped is not None:
                for sid in cs.wsites.get((rk, rn, path), {f"{callee.site}:?"}):
                    s.w(mapped, sid)
        for (rk, rn, path) in cs.reads:
            mapped = self._map_root(fi, rk, rn, path, recv, binding, fresh)
            if mapped is not None:
                for sid in cs.rsites.get((rk, rn, path), {f"{callee.site}:?"}):
                    s.r(mapped, sid)
        for (r, name, ln) in cs.external_stateful:
            mapped = self._map_root(fi, r[0], r[1], r[2], recv, binding, fresh)
            if mapped is not None:
                s.external_stateful.append(((mapped[0], mapped[1], mapped[2]), name, call.lineno))

    def _forward_cond(self, callee, binding, cond):
        """Translate a callee's conditional raise ('unless_typed', var, cls) into the caller's frame."""
        var = cond[1]
        if var not in callee.params:
            return None                             # condition on a callee local: keep the raise (may)
        arg = binding.get(var)
        if arg is None or isinstance(arg, tuple):
            return None
        if isinstance(arg, ast.Name):
            return ('unless_typed', arg.id, cond[2])
        if isinstance(arg, ast.Call):
            c = self.idx.resolve_class(ir.from_ast(arg.func, {}), callee.module, callee.cls)
            if c is not None and c.qual == cond[2]:
                return 'never'
        return None

    def node_effects(self, fi, node):
        """Effects of one CFG node (a simple statement or a test/iter expression) of function fi."""
        s = Summary()
        types = self.guard_types(fi)
        fresh = self.fresh_locals(fi)
        if isinstance(node, ast.Assert):
            return s
        if isinstance(node, ast.With):
            self._exprs(fi, [i.context_expr for i in node.items], s, types, fresh, (), node)
        elif isinstance(node, ast.stmt):
            self._simple(fi, node, s, types, fresh, ())
        elif isinstance(node, ast.expr):
            self._exprs(fi, [node], s, types, fresh, (), node)
        return s

    def _map_root(self, fi, rk, rn, path, recv, binding, fresh):
        if rk == 'global':
            return ('global', rn, path)
        if rk == 'self':
            if recv is None:
                return None                         # constructor of a fresh object
            r = self.root_of(recv, fi, fresh)
            if r is None or r[0] == 'fresh':
                return None
            return (r[0], r[1], self._trim(r[2]) + path)
        if rk == 'param':
            arg = binding.get(rn)
            if arg is None or isinstance(arg, tuple):
                return None
            r = self.root_of(arg, fi, fresh)
            if r is None or r[0] == 'fresh':
                return None
            return (r[0], r[1], self._trim(r[2]) + path)
        return None


_EFF = {}


def get_effects(index):
    if id(index) not in _EFF:
        _EFF[id(index)] = Effects(index)
    return _EFF[id(index)]
