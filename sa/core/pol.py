"""E-POL: two-point port polarity typing.

`SigClass(...)` has polarity + (as written in the signature's member table, i.e. initiator-oriented for the bus
signatures); `.flip()` / `flipped(x)` negate; a member declared `In(s)` gives the port polarity -pol(s),
`Out(s)` gives pol(s); `port.signature` has the port's polarity; `sig.create()` keeps it."""
from . import ir


class Pol:
    def __init__(self, index):
        self.idx = index
        self._sigclasses = None

    def signature_classes(self):
        if self._sigclasses is None:
            out = {}
            for c in self.idx.all_classes():
                if any(b.endswith("Signature") for b in c.bases):
                    out[c.site] = c
            self._sigclasses = out
        return self._sigclasses

    def sig_class_of_call(self, fn_ir, module, cls):
        c = self.idx.resolve_class(fn_ir, module, cls)
        if c is not None and c.site in self.signature_classes():
            return c
        return None

    def of(self, e, cls, depth=0):
        """Polarity of expression e evaluated inside a method of `cls`: (sign, signature ClassInfo) or None."""
        if depth > 8:
            return None
        k = e[0]
        if k == 'phi':
            a = self.of(e[2], cls, depth + 1)
            b = self.of(e[3], cls, depth + 1)
            return a if a == b or b is None else (b if a is None else None)
        if k == 'call':
            fn = e[1]
            if fn == ('name', 'flipped') and len(e[2]) == 1:
                r = self.of(e[2][0], cls, depth + 1)
                return None if r is None else (-r[0], r[1])
            if fn[0] == 'attr' and fn[2] == 'flip' and not e[2]:
                r = self.of(fn[1], cls, depth + 1)
                return None if r is None else (-r[0], r[1])
            if fn[0] == 'attr' and fn[2] == 'create':
                return self.of(fn[1], cls, depth + 1)
            if fn[0] == 'attr' and fn[2] == 'array':
                return self.of(fn[1], cls, depth + 1)
            if fn in (('name', 'In'), ('name', 'Out')) and e[2]:
                r = self.of(e[2][0], cls, depth + 1)
                if r is None:
                    return None
                return (-r[0], r[1]) if fn[1] == 'In' else r
            sc = self.sig_class_of_call(fn, cls.module, cls)
            if sc is not None:
                return (+1, sc)
            # an interface constructor: Interface(...) has the polarity of the signature it builds
            ic = self.idx.resolve_class(fn, cls.module, cls)
            if ic is not None:
                s = self.interface_signature(ic)
                if s is not None:
                    return (+1, s)
            return None
        if k == 'attr':
            base, name = e[1], e[2]
            if name == 'signature':
                return self.of(base, cls, depth + 1)
            owner = self.owner_class(base, cls, depth)
            if owner is not None and not self.idx.members(owner).get(name):
                # a read-only property whose body is one `return <expression over self>`: the expression, seen from `base`
                pf = self.idx.lookup_method(owner, name)
                if pf is not None and pf.is_property:
                    import ast
                    body = [s for s in pf.node.body if not (isinstance(s, ast.Expr) and isinstance(s.value, ast.Constant))]
                    if len(body) == 1 and isinstance(body[0], ast.Return) and body[0].value is not None:
                        inner = ir.subst(ir.from_ast(body[0].value, {}), lambda x: base if x == ('name', 'self') else None)
                        if depth < 6:
                            return self.of(inner, cls, depth + 1)
            if owner is not None:
                mem = self.idx.members(owner).get(name)
                if mem:
                    flow, shape, conds, ln, arr = mem[0]
                    ctor_env = self.ctor_env(owner)
                    shape = ir.subst(shape, lambda x: ctor_env.get(x[1]) if x[0] == 'name' and x[1] in ctor_env else None)
                    r = self.of(shape, owner, depth + 1)
                    if r is None:
                        return None
                    return (-r[0], r[1]) if flow == 'In' else r
            return None
        if k == 'sub':
            return self.of(e[1], cls, depth + 1)
        return None

    def ctor_env(self, cls):
        """Local aliases of cls.__init__ (name -> IR), for shapes such as `wb_sig`."""
        if not hasattr(cls, "_ctor_env"):
            env = {}
            init = cls.method("__init__")
            if init is not None:
                import ast
                for st in init.node.body:
                    if isinstance(st, ast.Assign) and len(st.targets) == 1 and isinstance(st.targets[0], ast.Name):
                        env[st.targets[0].id] = ir.from_ast(st.value, env)
            cls._ctor_env = env
        return cls._ctor_env

    def owner_class(self, base, cls, depth):
        """Class of the object `base` (self, self._field, ...)."""
        if base == ('name', 'self'):
            return cls
        if base[0] == 'attr':
            o = self.owner_class(base[1], cls, depth + 1)
            if o is not None:
                ft = self.idx.field_types(o)
                if base[2] in ft:
                    return ft[base[2]]
        return None

    def interface_signature(self, icls):
        """The signature class an interface class builds in its __init__ (super().__init__(Signature(...)))."""
        import ast
        init = icls.method("__init__")
        if init is None:
            return None
        for n in ast.walk(init.node):
            if isinstance(n, ast.Call):
                sc = self.sig_class_of_call(ir.from_ast(n.func, {}), icls.module, icls)
                if sc is not None:
                    return sc
        return None
