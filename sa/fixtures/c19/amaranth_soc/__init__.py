"""Positive fixture for C19.1 / C19.4 / C19.2 / C19.3 / C19.6: every rule must flag this on every run.

Never imported or executed; parsed by the checker only."""
from amaranth import *
from amaranth.lib import wiring
from amaranth.lib.wiring import In
from functools import reduce
from operator import or_


class _Helper:
    def __init__(self):
        self._seen = set()
        self._depth = 1

    def note(self, x):
        self._seen.add(x)

    def grow(self):
        self._depth *= 2
        self.grow()


class StatefulThing(wiring.Component):
    _registry = []                  # a mutable class attribute: shared by all instances

    def connect_all(self, targets, seen={}):        # a mutable default argument
        actions = []
        for t in targets:
            actions.append(lambda m: m.submodules.__setattr__(str(t), t))    # late binding of `t`
        return actions

    def __init__(self, memory_map):
        self._helper = _Helper()
        self._log = []
        self._names = {("a", 0), ("b", 1)}
        super().__init__({"bus": In(1)})
        self.bus.memory_map = memory_map

    def elaborate(self, platform):
        m = Module()
        # state carried from one elaboration into the next: written here, read here
        if len(self._log) > 0:
            m.d.comb += self.bus.eq(1)
        self._log.append(platform)
        # metadata mutated during elaboration
        self.bus.memory_map.add_resource(self, name=("x",), size=1)
        # iteration over a set
        for name in self._names:
            m.submodules[str(name)] = Module()
        # a path (may contain integers) joined without str()
        for res, res_name, res_range in self.bus.memory_map.resources():
            m.submodules["__".join(res_name)] = res
        self._helper.grow()
        # a reducer without an identity over a list that is empty for a component without entries
        terms = []
        for res, res_name, res_range in self.bus.memory_map.resources():
            last = res_range[1] - 1
            if res_range[0] is last:            # identity comparison between integers
                continue
            terms.append(res)
        m.d.comb += self.bus.eq(reduce(or_, terms))
        return m


# a memo keyed by the text of the object it describes: two classes of the same name share the entry
_widths = {}


def _width_of(shape):
    key = repr(shape)
    if key not in _widths:
        _widths[key] = Shape.cast(shape).width
    return _widths[key]


class ReboundPort(wiring.Component):
    def __init__(self):
        super().__init__({"bus": In(1)})
        self.bus = flipped(self.bus)            # the port attribute replaced after construction

    def elaborate(self, platform):
        return Module()


class Guarded:
    def __init__(self):
        self._limit = None

    @property
    def limit(self):
        return self._limit

    @limit.setter
    def limit(self, limit):
        if not isinstance(limit, int):
            raise TypeError("limit must be an integer")
        self._limit = limit


class Bypasser(wiring.Component):
    def __init__(self, guarded, limit):
        super().__init__({"bus": In(1)})
        guarded._limit = limit                  # the setter's check is skipped

    def elaborate(self, platform):
        return Module()
