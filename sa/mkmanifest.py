#!/venv/bin/python
"""Regenerate /verif/MANIFEST.json from the table below (only properties whose rule pack exists are claimed)."""
import json
import os
import sys

HERE = os.path.dirname(os.path.abspath(__file__))
VERIF = os.path.dirname(HERE)

TB = ("Trusted: Python `ast` parser; the Amaranth DSL ordering semantics A2 (read from amaranth 0.5.10, not "
      "re-derived); role tables transcribed from the property text (A4); Amaranth library itself (N4). ")

# id -> (technique, level text, what is NOT decided, design ref)
TABLE = {
    "C01": ("provenance / cross-site agreement dataflow over E-DSL templates and constructors",
            "Decides the composition glue only: every decoding component decodes with the map it publishes, registries are keyed by the window's map, wrappers republish the map of the component they connect, adjacent layers agree on forwarded / constant / dropped address bits. Each is a necessary condition of the end-to-end property.",
            "numeric agreement of map and netlist over all hierarchies and addresses (N1, N3)", "6/C01"),
    "C02": ("CFG effect-ordering (validate-before-mutate), dominance of the frozen guard, must-call on all normal exits, endpoint-kind typing of half-open intervals, modular reduction of the rounding helper, effect summaries of query methods (memo coherence)",
            "Failure atomicity and frozen-refusal are decided on every CFG path of add_resource / add_window / align_to with interprocedural may-raise / writes summaries; freeze-on-hand-over by post-dominance; interval discipline by a small type system over bisect / comparison sites; _align_up by modular reduction; every query method writes no field of the map or its memo is written by every mutator.",
            "numeric correctness of the bisect indices beyond the endpoint kinds (N1)", "6/C02"),
    "C03": ("construction-site ownership, affine address-unit typing with a dependency clause, guard tables (Boolean function of table membership per result), flattened view when _translate is split",
            "Decides that all three traversals share one translation authority (_translate) fed with the window's own stored range, that scale and base are applied on the right side (unit typing), and that the dispatch over resources / windows is a partition in address order; the queries refuse nothing (closed refusal set: an address outside every range decodes to None). The look-ups never read the placement cursor. No method of MemoryMap stores per-parent facts on an object it is handed (a map may be a window of several parents).",
            "numeric equality of the traversals over all trees (N1)", "6/C03"),
    "C04": ("template conformance of Multiplexer.elaborate (read half) on the E-DSL model; decision lists by truth table",
            "One-step facts F1-F4 of Appendix C decided for every layout (loop indices symbolic): read strobe only on the first chunk address, delayed select, capture on the register's strobe, bus data gated by the chunk's select. The give-up threshold of _Shadow.prepare() is not below 2**ceil_log2(max stop) (a legal layout is not refused for want of one more doubling); the chunk offset keeps every start-address bit below the shadow size (mask size - 1) and the size stays a power of two -- the facts that threshold rests on.",
            "shadow address hash arithmetic (N1); the multi-cycle induction is written, not mechanised (N2)", "6/C04"),
    "C05": ("template conformance of Multiplexer.elaborate (write half); taint of shadow_overlaps",
            "One-step facts decided for every layout: chunk write enables, registered write strobe exactly on the last address with the clear at lower priority (effective order incl. Switch hoisting), data concatenation, no cross-talk between read and write halves, sharing limit flows only into the balance test. The give-up threshold of _Shadow.prepare() is not below 2**ceil_log2(max stop).",
            "as C04", "6/C05"),
    "C06": ("template conformance of csr.Decoder.add / elaborate",
            "Strobes gated by the subordinate's own window pattern, address low bits and write data forwarded unmodified and unconditionally, read data OR-reduced over all subordinates, add() validation before registration. A refused add() leaves the subordinate table untouched (D15, fixed); the address handed on is not cut with an unguarded [:-n].",
            "equivalence of a decoder tree with a flat multiplexer (N3)", "6/C06"),
    "C07": ("template conformance of wishbone.Decoder.add / elaborate, name-triple agreement, protocol default table, exhaustive feature split",
            "Request fan-out, selection by own pattern, optional-signal triples and defaults, response fan-in per signal name, add() validation order; D7 (dense window onto finer granularity) is reported as a known finding. Constructor parameters reach the port signature as given (granularity=None resolved as the signature resolves it). A refused add() leaves the subordinate table untouched (D15, fixed).",
            "response isolation only under the property's own proviso; pattern numbers (N1)", "6/C07"),
    "C08": ("template conformance of Arbiter.add / elaborate; truth table of the busy term",
            "Every shared-bus request driver under the owner's Case, responses only to the owner from the same-named signal, stall default 1 for non-owners, grant written only when not busy, add() validation. Constructor parameters reach the shared-bus signature as given (granularity=None resolved as the signature resolves it).",
            "reachability of out-of-range grant values for non-power-of-two N (N2)", "6/C08"),
    "C09": ("loop-segment priority analysis parametric in N; index agreement",
            "The exact next-owner function is derived symbolically from the emission order of the grant writes and compared with cyclic successor order for every N; value/index agreement; no self-grant/default write.",
            "liveness proper follows by the written argument of Appendix C (N2)", "6/C09"),
    "C10": ("decision lists parametric in the sequencer index; lane / index agreement",
            "Strobes only inside cyc&stb and the matching sequencer state, per-granule select and direction, lane slices, sequencer increment, acknowledge set in Default and cleared with priority, address formation, constructor geometry and window name forwarding.",
            "latency / once-only acknowledge as temporal facts follow by the written induction (N2)", "6/C10"),
    "C11": ("loop-carried fold typestate of the running bit offset; sibling agreement __init__ / elaborate; generation-condition guards; part-count and width rule for concatenated read data",
            "Slice = [acc, acc+w), acc advanced unconditionally once per field to the slice stop, same slice for read and write (or: element.r_data = Cat(parts) with exactly one part per field, each as wide as its field), strobes and data wired under readable()/writable(), width summed from the same expression, access rejection dominates construction, flatten order. A loop-carried width updated after a conditional `continue` is summed only over the iterations that reach it; the annotation filter keeps or drops entries by value, never by name.",
            "Amaranth slicing of zero-width / signed shapes (N4)", "6/C11"),
    "C12": ("decision-list equality by canonical truth table; member-direction agreement",
            "The five elaborate() bodies are their own one-step semantics; each storage bit's next-state list is compared with the documented table for a symbolic bit index (every width), read-back and pass-through wiring, storage constructor; plain members that elaborate() drives are declared Out, those it only reads In. The action constructors add no refusal of their own. Signals created from the shape-like `shape` are only assigned, compared or converted, so enumeration and layout shapes elaborate (D16, fixed).",
            "nothing beyond A2/N4", "6/C12"),
    "C13": ("decision-list equality with exhaustive split over trigger modes; typestate of EventMap",
            "Trigger formulas per mode, pending next-state (trigger wins over clear), index agreement from one sources() tuple (no regrouped partitions), outgoing line (also as an OR over the sources), EventMap.add dense/stable numbering with frozen guard dominating the store, setter freezes. A refused Monitor() leaves the event map it was given untouched (constructor failure atomicity over the arguments); the source stored under id(X) is X.",
            "nothing beyond A2/N4", "6/C13"),
    "C14": ("decision-list equality, role agreement, sizing idioms, port polarity",
            "Enable latch and read-back, write-one-to-clear gated by the write strobe, role agreement enable/pending, register sizing by ceil-division, map publication, bus port polarity and connect polarity. The event map's numbering rules (one number per source object) are re-checked under this property.",
            "cycle-level interplay of clear and trigger beyond the decision lists (N2); atomic multi-chunk read inherited from C04", "6/C14"),
    "C15": ("decision-list equality; generation-condition `writable`; geometry expressions",
            "ack' = !ack & cyc & stb, write enable only under writable and inside the request branch with [we -> sel; 0], address/data wiring by port origin call, geometry expressions and frozen map. Assigning `init` replaces the whole image and the getter hands out the current object.",
            "read-your-writes relies on amaranth.lib.memory (N4)", "6/C15"),
    "C16": ("fold idiom of the synchroniser chain or the verified shift-register shape; per-case value table; decision-list equality; index agreement",
            "Synchroniser depth = iteration count of a sync-domain carrier chain, mode table per PinMode member with comb defaults filled in, set/clr decode and output priority list, every per-pin subscript is the loop index, register order and field shapes. pin_count and input_stages are stored as given. The four registers are placed by the builder (explicit offsets are undecided).",
            "nothing beyond A2/N4", "6/C16"),
    "C17": ("CFG dominance / effect order, push-pop pairing, argument provenance",
            "Builder.add validates before storing and refuses when frozen; Cluster/Index push is matched by a pop in finally, by a statement that survives python -O (asserts only look: D11, fixed); as_memory_map freezes, iterates in insertion order and passes name/addr/size/alignment computed as promised, with errors propagating.",
            "allocation arithmetic inherited from C02 (N1)", "6/C17"),
    "C18": ("must-pass-through, must-call, taint, monotone flag, idiom conformance",
            "Every namespace mutation is preceded on all paths by an availability query over the same names with a raising failure edge; names are canonicalised first; str() never reaches the deciding comparison; verdict flag is monotone; the prefix test is one of two hand-verified idioms; every assigned name is a candidate of the conflict search (no positional narrowing in a str()-ordered list). No namespace adopts another namespace's container. Every method that adds names maintains all the state the search reads (index coherence); the iterated candidate collection holds the stored names unconditionally (a narrowed or fast-path search is undecided).",
            "soundness/completeness of the prefix loop beyond idiom recognition (N1)", "6/C18"),
    "C19": ("cross-invocation effect analysis, recursion / while-loop variant classification, set-iteration lint, who-may-call, raise-type discipline, path-typed join, optional-member guards, non-emptiness proofs for reducers / transpositions without an identity, member-direction agreement, pattern-width agreement across a clamp, uniqueness of computed submodule names",
            "No state carried from one elaboration to the next, every recursion structural or bounded, no set iteration without sorted(), metadata mutators unreachable from elaborate(), explicit raises are ValueError/TypeError (frozen exception table), path-typed values are str-mapped before join, optional bus members are accessed under their feature test, reduce/max/min/next/zip(*x) without identity only on provably non-empty collections, driven plain members are Out and read-only ones In (D8), Case patterns of the Wishbone decoder are as wide as its address port for every accepted parameter (D9: known finding), submodule names computed from paths are guarded by a uniqueness test over all names of the module (D10, fixed), bus setters accept exactly the maps of the bus geometry. The shadow give-up threshold refuses no layout a further doubling would balance. Port members of every component are checked for direction without exemption (D14: csr.Register.element, known finding); divisions by parameters follow their validation; x[:-n] is guarded against n == 0; signals of shape-like shape are used as views only (D16, fixed); what a private helper asserts about a public parameter the constructor refuses, value for value (D17, fixed); memo tables are not keyed by the text of the object they describe; a submodule name is not transformed after its uniqueness test.",
            "absence of every internal exception inside Amaranth calls (N4)", "6/C19"),
    "C20": ("two-point port polarity type system; driver/polarity agreement (interface and plain members); signature parameter-set agreement; member presence as a Boolean function",
            "Target ports type as In(initiator signature), every driver of a port member is an output under the port's polarity, connect() arguments have opposite polarity, signature parameters agree across __init__/__eq__/create()/interface constructor, optional members follow features. Every wiring.Signature subclass of the package has value equality (D12, fixed); an iterable parameter is traversed once (D13, fixed); features are stored converted on every path; like-named parameters reach Signature(...) as given; stored parameters are the parameters; no memo keyed by repr()/str()/__name__ of a shape.",
            "behaviour of wiring.connect itself (N4)", "6/C20"),
}


def main():
    checks = []
    na = []
    built = []
    for pid in sorted(TABLE):
        tech, text, notdec, ref = TABLE[pid]
        if os.path.exists(os.path.join(HERE, "rules", pid.lower() + ".py")):
            built.append(pid)
            checks.append({
                "property_id": pid,
                "quick_cmd": f"/venv/bin/python /verif/sa/check.py {pid} --tier quick",
                "thorough_cmd": f"/venv/bin/python /verif/sa/check.py {pid} --tier thorough",
                "evidence_file": f"/verif/evidence/{pid}.json",
                "replay_cmd_template": f"/venv/bin/python /verif/sa/check.py {pid} --replay {{path}}",
                "engine": "sa",
                "level_claimed": {
                    "category": "other",
                    "text": "Static analysis of the current source (no execution): " + text +
                            " This decides the named structural clauses for every configuration / input at once; it does not decide: " + notdec + ".",
                    "design_ref": f"DESIGN.md section {ref}",
                },
                "level_note": TB + "Not decided: " + notdec + ".",
                "technique": "static analysis: " + tech,
            })
        else:
            na.append({"property_id": pid, "reason": "static check not built yet (DESIGN.md section 9 build order); "
                       "no other technique is substituted"})
    man = {
        "version": 1,
        "setup_cmd": "/venv/bin/python -c \"import ast, sys; sys.path.insert(0, '/verif'); import sa.check\"",
        "hooks": {
            "guard": "AMARANTH_SOC_VERIF",
            "enable": "none needed: the checks read /repo's source with the ast module and never import or run it",
            "baseline_off_cmd": "cd /repo && /venv/bin/python -m pytest -ra -q -p no:cacheprovider --timeout=900 --continue-on-collection-errors",
            "source_commits": [],
            "add_only": True,
        },
        "engines": [{
            "name": "sa", "path": "/verif/sa",
            "serves_properties": built,
            "kind_free_text": "stdlib-only Python static analyser: package index, expression normaliser, Amaranth DSL template "
                              "extractor, decision-list/truth-table engine, statement CFG with effect summaries, port polarity typing",
        }],
        "checks": checks,
        "not_applicable": na,
        "notes": "Technique family: static analysis only. Exit 2 / ANALYSIS-ERROR = undecided (never a violation). "
                 "See DESIGN.md; known findings in /verif/known_findings.json.",
    }
    # an empty list is kept: every property is claimed; the clauses of each property that static analysis does not decide are stated in
    # the check's level_claimed / level_note and in DESIGN.md section 7
    with open(os.path.join(VERIF, "MANIFEST.json"), "w") as f:
        json.dump(man, f, indent=1)
    print(f"MANIFEST.json: {len(checks)} checks, {len(na)} not yet built")


if __name__ == "__main__":
    sys.exit(main())
