#!/venv/bin/python
"""Static-analysis checks of amaranth-soc against /verif/properties.jsonl.

usage: check.py <ID> [--tier quick|thorough] [--replay <finding.json>]
exit 0: every obligation discharged (or listed as a known finding)
exit 1: VIOLATION property=<id> replay=<path>
exit 2: ANALYSIS-ERROR (anchor missing, unsupported construct, undecidable comparison, internal error)
"""
import argparse
import importlib
import json
import os
import sys
import traceback

HERE = os.path.dirname(os.path.abspath(__file__))
sys.path.insert(0, os.path.dirname(HERE))

from sa.core import report                      # noqa: E402
from sa.core.index import get_index             # noqa: E402
from sa.core.report import AnchorMissing, Undecided   # noqa: E402

PROPS = [f"C{i:02d}" for i in range(1, 21)]


def run_property(pid, tier, repo=None, write=True):
    rep = report.Report(pid, tier)
    try:
        idx = get_index(repo)
        # what the canonical view changed in the parsed trees (core/canon.py); empty lists on the pinned tree
        view = {"renamed_private_attributes": dict(sorted(getattr(idx, "renamed", {}).items())),
                "helpers_opened": {k: sorted(set(v)) for k, v in sorted(getattr(idx, "inlined", {}).items())},
                "constant_tables": sorted(getattr(idx, "propagated", {})),
                "expression_helpers": {k: sorted(set(v)) for k, v in sorted(getattr(idx, "opened", {}).items())},
                "cursor_lists": {k: v for k, v in sorted(getattr(idx, "scalarised", {}).items())},
                "yield_from_comprehensions": dict(sorted(getattr(idx, "yieldfroms", {}).items())),
                "pinned_parameter_names": dict(sorted(getattr(idx, "param_names", {}).items())),
                "functional_idioms": dict(sorted(getattr(idx, "functional", {}).items())),
                "replicated_unpacking": dict(sorted(getattr(idx, "replicated", {}).items())),
                "enumerate_idioms": dict(sorted(getattr(idx, "enumerates", {}).items())),
                "sum_loops": {k: v for k, v in sorted(getattr(idx, "sums", {}).items())},
                "extend_loops": {k: v for k, v in sorted(getattr(idx, "extends", {}).items())}}
        rep.notes.append({"canonical_view": {k: v for k, v in view.items() if v}})
        mod = importlib.import_module(f"sa.rules.{pid.lower()}")
        mod.run(rep, idx, tier)
    except AnchorMissing as e:
        rep.unk(f"{pid}.anchor", "-", "anchor resolution", str(e))
    except Undecided as e:
        rep.unk(f"{pid}.engine", "-", "engine", str(e))
    except Exception as e:                      # internal error: never exit 1
        tb = traceback.format_exc()
        rep.unk(f"{pid}.internal", "-", "internal error", f"{type(e).__name__}: {e}")
        sys.stderr.write(tb)
    return rep


def main(argv=None):
    ap = argparse.ArgumentParser()
    ap.add_argument("prop")
    ap.add_argument("--tier", default=os.environ.get("VERIF_TIER", "quick"), choices=["quick", "thorough"])
    ap.add_argument("--replay")
    ap.add_argument("--repo", default=None)
    ap.add_argument("--no-selftest", action="store_true")
    args = ap.parse_args(argv)
    pid = args.prop.upper()
    if pid not in PROPS:
        print(f"ANALYSIS-ERROR unknown property {pid}")
        return 2
    seed = int(os.environ.get("VERIF_SEED", "0") or 0)
    if args.repo is not None and os.path.realpath(args.repo) != os.path.realpath("/repo"):
        os.environ["VERIF_SKIP_EVIDENCE"] = "1"         # a development run on a scratch copy: /verif/evidence keeps describing /repo
    rep = run_property(pid, args.tier, args.repo)
    extra = None
    if args.tier == "thorough" and not args.no_selftest and not args.replay:
        try:
            from sa import selftest
            extra = selftest.run_for(pid, seed)
        except Exception as e:                  # self-validation never changes the verdict
            sys.stderr.write(traceback.format_exc())
            extra = {"selftest_error": f"{type(e).__name__}: {e}"}
    if args.replay:
        with open(args.replay) as f:
            want = json.load(f)
        hits = [o for o in rep.obls if o.key() == want.get("key")]
        still = [o for o in hits if o.status == "violated"]
        if still:
            for o in still:
                print(f"VIOLATION property={pid} replay={args.replay}")
                print(f"  {o.rule} {o.site}: {o.construct} -- {o.detail}")
            return 1
        und = [o for o in hits if o.status == "undecided"]
        if und:
            print(f"ANALYSIS-ERROR property={pid} replayed obligation is undecided: {und[0].detail}")
            return 2
        print(f"replay: obligation {want.get('key')!r} " + ("is discharged" if hits else "no longer exists") + " on the current tree")
        return 0
    code, lines = report.finalize(rep, seed, extra)
    for ln in lines:
        print(ln)
    if extra:
        for k in ("selftest_summary",):
            if k in extra:
                print(extra[k])
        for w in extra.get("selftest_weak", []):
            print(f"SELFTEST-WEAK property={pid} {w}")
    n = len(rep.obls)
    print(f"{pid} [{args.tier}] obligations={n} discharged={len(rep.by_status('discharged'))} "
          f"violated={len(rep.by_status('violated'))} undecided={len(rep.by_status('undecided'))} exit={code}")
    return code


if __name__ == "__main__":
    try:
        rc = main()
    except SystemExit:
        raise
    except Exception:
        traceback.print_exc()
        print("ANALYSIS-ERROR internal error in the runner")
        rc = 2
    sys.exit(rc)
