"""C03 — resource lookup through windows is coherent in every direction."""
import ast

from ..core import ir
from .common import get_fn, kwarg

EXPLANATION = ("MemoryMap lookup: one translation authority (_translate) fed by all_resources() and find_resource() with the "
               "window object, its name and its own stored range; the two direct construction sites use the map's own "
               "geometry; address-unit typing of _translate / decode_address / the window size (scale and base on the right "
               "side); the dispatch over resources and windows is a partition walked in address order; find_resource tries "
               "every window and swallows only KeyError")

# ---- address-unit type system --------------------------------------------------------------------
#   aw: addresses of the window's map    am: addresses of this map    r: ratio (aw per am)
#   bw: data bits per window address     bm: data bits per map address     n: plain number


def _is_err(u):
    return u is not None and str(u).startswith("err")


def _add(units):
    """units: list of (unit, coefficient).  Affine typing: absolute map addresses (amP) must sum to weight 1 or 0."""
    us = [(u, c) for u, c in units if u != 'n']
    if not us:
        return 'n'
    for u, c in us:
        if u is None:
            return None
        if _is_err(u):
            return u
    kinds = {u for u, c in us}
    am = kinds & {'amP', 'amO'}
    if am and kinds - {'amP', 'amO'}:
        return f"err:adding {sorted(kinds)}"
    if am:
        w = sum(c for u, c in us if u == 'amP')
        if w == 1:
            return 'amP'
        if w == 0:
            return 'amO'
        return f"err:absolute addresses combined with weight {w}"
    if len(kinds) > 1:
        return f"err:adding {sorted(kinds)}"
    return next(iter(kinds))


def unit_of(e, leaves):
    """Unit of an arithmetic expression, 'err:<why>' on a unit error, None if unknown.

    amP absolute address of this map, amO offset/size in this map, aw address (= offset from 0) in the window's map,
    r ratio, bw / bm data bits per address of the window / this map, n plain number."""
    key = ir.show(e)
    if key in leaves:
        return leaves[key]
    k = e[0]
    if k == 'const' and isinstance(e[1], int):
        return 'n'
    if k == 'lin':
        return _add([(unit_of(t, leaves), c) for t, c in e[2]])
    if k == 'bin' and e[1] in ('+', '-'):
        return _add([(unit_of(e[2], leaves), 1), (unit_of(e[3], leaves), 1 if e[1] == '+' else -1)])
    if k == 'bin' and e[1] == '//':
        a, b = unit_of(e[2], leaves), unit_of(e[3], leaves)
        if a is None or b is None:
            return None
        if _is_err(a):
            return a
        if b == 'n':
            return a
        if b == 'r':
            return {'aw': 'amO', 'bm': 'bw', 'n': 'n'}.get(a, f"err:{a} divided by the ratio")
        return f"err:division by {b}"
    if k == 'nary' and e[1] == '*' or k == 'bin' and e[1] == '*':
        xs = e[2] if k == 'nary' else (e[2], e[3])
        us = [unit_of(x, leaves) for x in xs]
        if any(u is None for u in us):
            return None
        for u in us:
            if _is_err(u):
                return u
        non = sorted(u for u in us if u != 'n')
        if not non:
            return 'n'
        if len(non) == 1:
            return non[0]
        if non == ['amO', 'r']:
            return 'aw'
        if non == ['amP', 'r']:
            return "err:an absolute address is scaled by the ratio without removing the window base"
        if non == ['bw', 'r']:
            return 'bm'
        return f"err:product of {non}"
    return None


def run(rep, idx, tier):
    rep.explanation = EXPLANATION
    rep.assume("A1", "A3", "A4")
    rep.require("C03.1", 5)
    rep.require("C03.2", 5)
    rep.require("C03.3", 3)
    rep.require("C03.4", 3)
    rep.require("C03.5", 1)
    rep.require("C03.6", 2)
    translate(rep, idx)
    all_resources(rep, idx)
    find_resource(rep, idx)
    decode_address(rep, idx)
    window_size(rep, idx)
    authority(rep, idx)
    # C03.8 the look-ups answer from the tables, never from the placement cursor: the cursor is where the *next implicit* item goes
    # (the end of the most recently added one), not a bound of what is assigned -- items placed explicitly may lie above it
    import ast as _ast
    rep.require("C03.8", 6)
    for q in ("resources", "windows", "window_patterns", "all_resources", "find_resource", "decode_address"):
        try:
            f = idx.find_func("memory:MemoryMap." + q)
        except Exception:
            rep.unk("C03.8", "memory.py", f"{q}() does not consult the placement cursor", "function not found")
            continue
        reads = [n for n in _ast.walk(f.node) if isinstance(n, _ast.Attribute) and n.attr in ("_next_addr", "_cursor") and isinstance(n.ctx, _ast.Load)]
        rep.check(not reads, "C03.8", f.site, f"{q}() does not consult the placement cursor",
                  f"reads self.{reads[0].attr if reads else ''} at line {reads[0].lineno if reads else ''}: the cursor is the end of the most "
                  "recently added item, and an item added at an explicit address before it lies above the cursor -- a look-up bounded by "
                  "the cursor does not see it, although the tables (and the hardware built from them) do", nontrivial=False)
    per_parent_records(rep, idx)
    # the queries refuse nothing: "every other address decodes to nothing", an object never added is a KeyError and nothing else
    from .common import closed_refusals, check_refusal
    rep.require("C03.7", 2)
    for spec, what in (("MemoryMap.decode_address", "decode_address() refuses no address (an address outside every range decodes to None)"),
                       ("MemoryMap.all_resources", "all_resources() refuses nothing")):
        try:
            closed_refusals(rep, "C03.7", get_fn(idx, spec), what)
        except Exception as e:
            rep.unk("C03.7", "-", what, f"cannot decide: {e}")


def typed(rep, rule, site, what, expr, want_expr, want_unit, leaves, depends=()):
    """Expression equals the hand-verified normal form; otherwise a unit error is a violation, a result that cannot
    depend on an input the documented value varies with is a violation, anything else undecided."""
    if expr == want_expr:
        rep.ok(rule, site, what, f"{ir.show(expr)[:100]} : {want_unit}")
        return True
    for root, why in depends:
        if callable(root):
            if any(root(x) for x in ir.walk(expr)):
                continue
            rep.bad(rule, site, what, f"{ir.show(expr)[:100]}: {why}")
            return False
        alts = root if isinstance(root, list) else [root]
        alts = [('name', a) if isinstance(a, str) else a for a in alts]
        leaf = alts[0]
        if not any(x in alts for x in ir.walk(expr)):
            rep.bad(rule, site, what, f"{ir.show(expr)[:100]} does not depend on `{ir.show(leaf)[:60]}` at all: {why}")
            return False
    u = unit_of(expr, leaves)
    if u is not None and str(u).startswith("err"):
        rep.bad(rule, site, what, f"unit error in {ir.show(expr)[:100]}: {u[4:]} (expected a value in unit {want_unit})")
    elif u is not None and u != want_unit:
        rep.bad(rule, site, what, f"{ir.show(expr)[:100]} has unit {u}; the sink needs {want_unit} "
                "(scale or base applied on the wrong side of the window)")
    else:
        rep.unk(rule, site, what, f"{ir.show(expr)[:100]} is not the verified form {ir.show(want_expr)[:100]}")
    return False


def _ev(e, assign):
    """Value of a Boolean IR expression under an assignment of atoms; None when an unknown atom decides it."""
    if e in assign:
        return assign[e]
    if e[0] == 'const':
        return bool(e[1])
    if e[0] == 'un' and e[1] == 'not':
        v = _ev(e[2], assign)
        return None if v is None else not v
    if e[0] in ('and', 'or'):
        vs = [_ev(x, assign) for x in e[1]]
        dom = e[0] == 'or'
        if any(v is dom for v in vs):
            return dom
        return None if any(v is None for v in vs) else (not dom)
    return None


def guard_table(c, gen, ln, atoms, consistent=lambda a: True):
    """The Boolean function of `atoms` under which the result at line `ln` (path frames `gen`) is produced: its path
    conditions, strengthened by every assert that is executed before it on the same path (frames a prefix of `gen`).
    Returns {assignment tuple: True/False/None}; None = decided by something outside the atoms."""
    frames = [(c.norm(fr[1]), fr[2]) for fr in gen if fr[0] == 'pyif']

    def input_validation(cond):
        """a test of the address argument alone against the bounds of the map's own address space / its type: it narrows the
        inputs, not the choice between the tables"""
        names = {x for x in ir.walk(cond) if x[0] in ('name', 'attr')}
        allowed = {('name', 'address'), ('name', 'int'), ('name', 'isinstance'), ('name', 'self'), c.parse("self.addr_width"), c.parse("self._addr_width")}
        return bool(names) and names <= allowed and not any(x in atoms for x in ir.walk(cond))
    frames = [(cd, pol) for cd, pol in frames if not input_validation(cd)]
    pre = []                                            # (extra frames of the assert beyond the common prefix, test)
    my_loops = [fr[1] for fr in gen if fr[0] == 'for']
    for t, g_, l_ in c.t.asserts:
        af = [(c.norm(fr[1]), fr[2]) for fr in g_ if fr[0] == 'pyif']
        a_loops = [fr[1] for fr in g_ if fr[0] == 'for']
        if l_ >= ln or a_loops != my_loops[:len(a_loops)]:
            continue
        k = 0
        while k < len(af) and k < len(frames) and af[k] == frames[k]:
            k += 1
        # executed before the result on this path whenever its remaining frames hold: then its test must hold.  An assert
        # that says nothing about the atoms (an arithmetic sanity check) does not bear on the guard
        tn = c.norm(t)
        if not any(x in atoms for x in ir.walk(tn)) and tn != ('const', False):
            continue
        pre.append((af[k:], tn))
    out = {}
    import itertools
    for vals in itertools.product((False, True), repeat=len(atoms)):
        a = dict(zip(atoms, vals))
        if not consistent(a):
            continue
        r = True
        for cond, pol in frames:
            v = _ev(cond, a)
            v = None if v is None else (v == pol)
            if v is False:
                r = False
                break
            if v is None:
                r = None
        if r is not False:
            for extra, t in pre:
                reach = True
                for cond, pol in extra:
                    v = _ev(cond, a)
                    v = None if v is None else (v == pol)
                    if v is False:
                        reach = False
                        break
                    if v is None:
                        reach = None
                if reach is False:
                    continue
                v = _ev(t, a)
                if v is False and reach is True:
                    r = False
                    break
                if v is not True:
                    r = None
        out[vals] = r
    return out


def assert_fails_somewhere(c, atoms, vals):
    """Under the assignment, some assert is reached (its path conditions hold) and its test is false."""
    a = dict(zip(atoms, vals))
    for t, g_, l_ in c.t.asserts:
        if all(_ev(c.norm(fr[1]), a) is fr[2] for fr in g_ if fr[0] == 'pyif') and _ev(c.norm(t), a) is False:
            return True
    return False


def translate_owned(idx):
    """MemoryMap._translate still exists with its pinned interface; otherwise the callers are read with it opened in place."""
    try:
        fi = idx.find_func("MemoryMap._translate")
    except Exception:
        return False
    return {"resource_info", "window_range"} <= set(fi.params)


def translate(rep, idx):
    if not translate_owned(idx):
        return                                          # checked per caller (all_resources / find_resource)
    c = get_fn(idx, "MemoryMap._translate")
    site = c.fi.site
    rep.analysed(site)
    rets = [c.norm(v) for v, gen, ln in c.t.returns]
    if len(rets) != 1 or rets[0][0] != 'call' or not ir.show(rets[0][1]).endswith("ResourceInfo") or len(rets[0][2]) != 5:
        rep.unk("C03.2", site, "_translate() result", f"returns {[ir.show(r)[:80] for r in rets]}")
        return
    translate_checks(rep, c, site, rets[0][2], {})


def translate_checks(rep, c, site, tup, env, where=""):
    """The five fields of a translated ResourceInfo.  `env` maps the role names (resource_info, window, window_name,
    window_range) to the expressions that play them at this site (identity inside _translate itself)."""
    res, path, start, end, width = tup

    def P(text):
        return c.norm(ir.parse(text, env))
    RI, WR = P("resource_info"), P("window_range")
    leaves = {ir.show(P("resource_info.start")): 'aw', ir.show(P("resource_info.end")): 'aw', ir.show(P("window_range.start")): 'amP',
              ir.show(P("window_range.stop")): 'amP', ir.show(P("window_range.step")): 'r', ir.show(P("resource_info.width")): 'bw',
              ir.show(P("window._data_width")): 'bw', ir.show(P("window.data_width")): 'bw'}
    typed(rep, "C03.2", site, "translated start = resource start / ratio + window base" + where, start,
          P("(resource_info.start // window_range.step) + window_range.start"), 'amP', leaves,
          depends=[(RI, "different resources of the window's map start at different addresses"),
                   (WR, "the same map seen through windows at different bases must report different addresses")])
    size = P("(resource_info.end - resource_info.start) // window_range.step")
    typed(rep, "C03.2", site, "translated end = translated start + resource size / ratio" + where, end,
          c.norm(('bin', '+', P("(resource_info.start // window_range.step) + window_range.start"), size)), 'amP', leaves)
    typed(rep, "C03.2", site, "translated width = resource width * ratio" + where, width, P("resource_info.width * window_range.step"), 'bm', leaves,
          depends=[(RI, "resources behind one window can have different widths (a sparse window further down narrows them), "
                    "so a width computed from the window alone is wrong for every resource narrower than the window's map"),
                   (WR, "the width is scaled by the ratio of the window")])
    rep.check(res == P("resource_info.resource") or (where.strip() == "(find_resource)" and res == ('name', 'resource')), "C03.1", site, "the translated info describes the same resource" + where, f"resource is {ir.show(res)}",
              nontrivial=False)
    want_path = P("resource_info.path if window_name is None else (window_name, *resource_info.path)")
    alt_path = P("(window_name, *resource_info.path) if window_name is not None else resource_info.path")
    rep.check(path in (want_path, alt_path), "C03.5", site, "path = child's path, with the window's name prefixed unless the window is anonymous" + where,
              f"path is {ir.show(path)[:120]}")


def deref_tables(c, e):
    """self._windows[id(X)][0] / self._resources[id(X)][0] is X: the identity-keyed tables record the object itself first (C02.4)."""
    tabs = (c.parse("self._windows"), c.parse("self._resources"))

    def f(x):
        if x[0] == 'sub' and x[2] == ('const', 0) and x[1][0] == 'sub' and x[1][1] in tabs and x[1][2][0] == 'call' and \
                x[1][2][1] == ('name', 'id') and len(x[1][2][2]) == 1:
            return x[1][2][2][0]
        return None
    return c.norm(ir.subst(e, f))


def all_resources(rep, idx):
    c = get_fn(idx, "MemoryMap.all_resources", no_inline=("_translate",))
    site = c.fi.site
    rep.analysed(site)
    loops = [L for L in c.t.loops.values() if c.norm(L.iter) == c.parse("self._ranges.items()")]
    if len(loops) != 1 or loops[0].reversed:
        rep.bad("C03.3", site, "one pass over self._ranges.items() in store (address) order", f"found {len(loops)} such loops")
        return
    L = loops[0]
    rng, obj = ('item', L.id, (0,)), ('item', L.id, (1,))
    env = {"rng": rng, "obj": obj}
    is_res = c.parse("id(obj) in self._resources", env)
    is_win = c.parse("id(obj) in self._windows", env)
    direct, through = [], []
    atoms = (is_res, is_win)
    other = []
    for v, frm, gen, ln in c.t.yields:
        v = deref_tables(c, c.norm(v))
        tab = guard_table(c, gen, ln, atoms)
        replay = [fr for fr in gen if fr[0] == 'for' and fr[1] != L.id and fr[1] in c.t.loops and
                  c.norm(c.t.loops[fr[1]].iter)[0] == 'attr' and c.norm(c.t.loops[fr[1]].iter)[1] == ('name', 'self') and
                  not any(fr2[0] == 'for' and fr2[1] == L.id for fr2 in gen)]
        if replay:
            # results replayed from something stored on the map (a memo of an earlier traversal), outside the pass over the tables
            other.append(v)
            rep.unk("C03.1", site, f"yield {ir.show(v)[:60]}", f"results are replayed from {ir.show(c.norm(c.t.loops[replay[0][1]].iter))}, a record of an "
                    "earlier traversal: whether it still agrees with the tables is not decided")
        elif v[0] == 'call' and ir.show(v[1]).endswith("ResourceInfo") and not translate_owned(idx) and \
                any(fr[0] == 'for' and fr[1] != L.id for fr in gen):
            through.append((v, tab, gen))               # built in place, inside the loop over the window's own resources
        elif v[0] == 'call' and ir.show(v[1]).endswith("ResourceInfo"):
            direct.append((v, tab, gen))
        elif v[0] == 'call' and v[1] == c.parse("self._translate"):
            through.append((v, tab, gen))
        elif v[0] == 'call' and v[1][0] == 'attr' and v[1][1] == ('name', 'self'):
            other.append(v)
            rep.unk("C03.1", site, f"yield {ir.show(v)[:60]}", "the result is built by a helper the walker could not open")
        else:
            rep.bad("C03.1", site, f"yield {ir.show(v)[:60]}", "a result that is neither a local resource nor a translated child resource")

    def shows(tab):
        return sorted(("res" if k[0] else "-") + "/" + ("win" if k[1] else "-") for k, v_ in tab.items() if v_ is not False)
    want_d = {(False, False): False, (False, True): False, (True, False): True, (True, True): True}
    want_t = {(False, False): False, (False, True): True, (True, False): False, (True, True): False}
    # an entry in neither table does not exist (add_resource / add_window record the object in the same call that inserts its range,
    # C02.4): that row is a don't-care -- whichever arm it falls into looks the object up in a table and fails there
    def same(tab, want):
        return all(tab.get(k) == v for k, v in want.items() if k != (False, False))
    ok = len(direct) == 1 and same(direct[0][1], want_d)
    und = other or any(None in t[1].values() for t in direct + through)
    rep.form(ok, "C03.3", site, "local resources are reported exactly when the entry is in the resource table",
             f"direct yields under {[shows(d_[1]) for d_ in direct]}", wrong=None if und else "the guard of the local-resource result is not `entry is in the resource table`")
    ok2 = len(through) == 1 and same(through[0][1], want_t)
    rep.form(ok2, "C03.3", site, "window contents are reported exactly when the entry is in the window table and not in the resource table (a partition)",
             f"translated yields under {[shows(d_[1]) for d_ in through]}",
             wrong=None if und else "the guard of the window-contents result is not `entry is in the window table` (and not a resource)")
    # an entry in neither table is an internal error
    if und and not assert_fails_somewhere(c, atoms, (False, False)):
        rep.unk("C03.3", site, "an entry in neither table is an internal error (a failing assert)", "not decided for this form of the traversal")
    elif ok and ok2 and not assert_fails_somewhere(c, atoms, (False, False)):
        rep.ok("C03.3", site, "an entry in neither table is an internal error (a failing assert)",
               "no assert, but such an entry falls into an arm that looks it up in a table it is not in (KeyError): an internal error "
               "all the same, for an entry that cannot exist", nontrivial=False)
    else:
        rep.check(assert_fails_somewhere(c, atoms, (False, False)), "C03.3", site, "an entry in neither table is an internal error (a failing assert)",
                  "no assert fails for an entry that is in neither table", nontrivial=False)
    if ok:
        v = direct[0][0]
        want = c.parse("ResourceInfo(obj, (self._resources[id(obj)][1],), rng.start, rng.stop, self.data_width)", env)
        rep.form(v == want, "C03.1", site, "a local resource is reported with its own name, its stored range and the map's data width",
                 f"yields {ir.show(v)[:140]}", wrong=direct_wrong(c, v, obj, rng))
    if ok2:
        v, tab_, gen = through[0]
        inner = [fr[1] for fr in gen if fr[0] == 'for' and fr[1] != L.id]
        child_ok = len(inner) == 1 and deref_tables(c, c.norm(c.t.loops[inner[0]].iter)) == c.parse("obj.all_resources()", env)
        rep.check(child_ok, "C03.3", site, "children are taken from the window's own all_resources(), in its order",
                  f"inner loop iterates {[ir.show(c.norm(c.t.loops[i].iter)) for i in inner]}")
        if child_ok and not translate_owned(idx) and ir.show(v[1]).endswith("ResourceInfo") and len(v[2]) == 5:
            ri = ('item', inner[0], ())
            translate_checks(rep, c, site, v[2], {"resource_info": ri, "window": obj, "window_name": c.parse("self._windows[id(obj)][1]", env),
                                                  "window_range": rng}, where=" (all_resources)")
        elif child_ok:
            ri = ('item', inner[0], ())
            want = c.norm(('call', c.parse("self._translate"), (ri, obj, c.parse("self._windows[id(obj)][1]", env), rng), ()))
            rep.form(v == want, "C03.1", site, "children are translated with the window object, its own name and its own stored range",
                     f"yields {ir.show(v)[:140]}", wrong=translate_wrong(v, ri, obj, rng))


def direct_wrong(c, v, obj, rng):
    """Named discrepancies of a directly constructed ResourceInfo."""
    if v[0] != 'call' or len(v[2]) != 5:
        return None
    res, path, start, end, width = v[2]
    if res != obj:
        return "another object is reported"
    if path[0] == 'call' and path[1] in (('name', 'tuple'), ('name', 'list')) and len(path[2]) == 1 and path[2][0][0] != 'gen':
        return ("the path is tuple(<name>): a name is itself a tuple of parts, so this explodes it into one path element per part "
                "instead of the one-element path (<name>,)")
    stored_name = ('sub', ('sub', c.parse("self._resources"), ('call', ('name', 'id'), (obj,), ())), ('const', 1))
    if path == stored_name or (obj == ('name', 'resource') and path == c.parse("self._resources[id(resource)][1]")):
        return ("the path is the stored name itself: a name is a tuple of parts, so ResourceInfo takes each part for a path element "
                "instead of the one-element path (<name>,)")
    if width != c.parse("self.data_width"):
        return None
    if rng is not None and (start, end) == (('attr', rng, 'stop'), ('attr', rng, 'start')):
        return "start and end are swapped"
    return None


def translate_wrong(v, child, window, rng):
    """Named discrepancies of a _translate(...) call: the window object / range of another entry is passed."""
    if v[0] != 'call' or len(v[2]) != 4:
        return None
    a_child, a_win, a_name, a_rng = v[2]
    if a_win != window and a_win[0] in ('item', 'name', 'sub'):
        return "the window object passed is not the window being traversed"
    if a_rng != rng and a_rng[0] in ('item', 'name') and rng[0] in ('item', 'name'):
        return "the range passed is not the range stored for that window"
    return None


def table_arity(cls, table):
    """Length of the tuples stored in self.<table>[...] (None unless every store is a tuple display of one length)."""
    ns = set()
    for fs in cls.methods.values():
        for f in fs:
            for n in ast.walk(f.node):
                if isinstance(n, ast.Assign) and len(n.targets) == 1 and isinstance(n.targets[0], ast.Subscript) and \
                        ast.unparse(n.targets[0].value) == f"self.{table}":
                    ns.add(len(n.value.elts) if isinstance(n.value, ast.Tuple) else None)
    return ns.pop() if len(ns) == 1 else None

def find_resource(rep, idx):
    c = get_fn(idx, "MemoryMap.find_resource", no_inline=("_translate",))
    site = c.fi.site
    rep.analysed(site)
    rets = [(c.norm(v), gen, ln) for v, gen, ln in c.t.returns]
    direct = [r for r in rets if r[0][0] == 'call' and ir.show(r[0][1]).endswith("ResourceInfo")]
    through = [r for r in rets if r[0][0] == 'call' and r[0][1] == c.parse("self._translate")]
    if not translate_owned(idx):
        # built in place: the result produced inside the loop over the windows plays the part of the _translate() call
        through = [r for r in direct if any(fr[0] == 'for' for fr in r[1])]
        direct = [r for r in direct if r not in through]
    own = c.parse("id(resource) in self._resources")
    ok = len(direct) == 1 and [(c.norm(fr[1]), fr[2]) for fr in direct[0][1] if fr[0] == 'pyif'] == [(own, True)]
    order_ok = True
    helper_rets = [r for r in rets if r not in direct and r not in through and r[0][0] == 'call' and r[0][1][0] == 'attr' and
                   r[0][1][1] == ('name', 'self') and [(c.norm(fr[1]), fr[2]) for fr in r[1] if fr[0] == 'pyif'] == [(own, True)]]
    if not direct and len(helper_rets) == 1:
        rep.ok("C03.4", site, "the map's own table is consulted first", f"returns {ir.show(helper_rets[0][0])[:80]} under `id(resource) in self._resources`")
        rep.unk("C03.1", site, "an own resource is reported with its own name, its stored range and the map's data width",
                f"the result is built by {ir.show(helper_rets[0][0])[:80]}, which the walker could not open (starred argument)")
    else:
        rep.check(ok, "C03.4", site, "the map's own table is consulted first", f"{len(direct)} direct result(s)")
    if ok:
        want = c.parse("ResourceInfo(resource, (self._resources[id(resource)][1],), self._resources[id(resource)][2].start, "
                       "self._resources[id(resource)][2].stop, self.data_width)")
        rep.form(direct[0][0] == want, "C03.1", site, "an own resource is reported with its own name, its stored range and the map's data width",
                 f"returns {ir.show(direct[0][0])[:160]}", wrong=direct_wrong(c, direct[0][0], ('name', 'resource'), None))
    if len(through) != 1:
        via_helper = any(isinstance(n, ast.Call) and (isinstance(n.func, ast.Name) and n.func.id == "next" or
                                                       isinstance(n.func, ast.Attribute) and isinstance(n.func.value, ast.Name) and
                                                       n.func.value.id == "self" and n.func.attr.startswith("_") and n.func.attr != "_translate")
                         for n in ast.walk(c.fi.node))
        if not through and via_helper:
            rep.unk("C03.4", site, "windows are searched next", "the window search goes through next(...) / a private helper that the rule does not follow")
        else:
            rep.bad("C03.4", site, "windows are searched next", f"{len(through)} translated result(s)")
        return
    v, gen, ln = through[0]
    loops = [fr[1] for fr in gen if fr[0] == 'for']
    # the early `return` of the own-table branch puts the window search under `not own`: that is the order we want
    conds = [fr for fr in gen if fr[0] == 'pyif' and not (c.norm(fr[1]) == own and fr[2] is False)]
    lok = len(loops) == 1 and c.norm(c.t.loops[loops[0]].iter) == c.parse("self._windows.values()")
    rep.check(lok and not conds, "C03.4", site, "every window is searched, unconditionally",
              f"loop over {[ir.show(c.norm(c.t.loops[i].iter)) for i in loops]} with extra condition(s) {[ir.show(c.norm(f[1])) for f in conds]}: "
              "a window that is skipped makes find_resource() disagree with all_resources()")
    if lok:
        Lw = loops[0]
        w, wn, wr = ('item', Lw, (0,)), ('item', Lw, (1,)), ('item', Lw, (2,))
        # _translate(info, *record): the records of the window table are (window, name, range) triples wherever they are stored
        if v[0] == 'call' and len(v[2]) == 2 and v[2][1] == ('star', ('item', Lw, ())) and table_arity(c.fi.cls, "_windows") == 3:
            v = (v[0], v[1], (v[2][0], w, wn, wr), v[3])
        child = ('call', ('attr', w, 'find_resource'), (('name', 'resource'),), ())
        want = c.norm(('call', c.parse("self._translate"), (child, w, wn, wr), ()))
        if not translate_owned(idx) and v[0] == 'call' and ir.show(v[1]).endswith("ResourceInfo") and len(v[2]) == 5:
            translate_checks(rep, c, site, v[2], {"resource_info": c.norm(child), "window": w, "window_name": wn, "window_range": wr},
                             where=" (find_resource)")
        else:
          rep.form(v == want, "C03.1", site, "a resource found behind a window is translated with that window, its name and its stored range",
                 f"returns {ir.show(v)[:160]}",
                 wrong=translate_wrong(v, ('call', ('attr', w, 'find_resource'), (('name', 'resource'),), ()), w, wr))
    # a miss in one window moves on to the next one
    handlers = [h for n in ast.walk(c.fi.node) if isinstance(n, ast.Try) for h in n.handlers]
    moves_on = bool(handlers) and all(all(isinstance(s, (ast.Pass, ast.Continue)) for s in h.body) for h in handlers)
    c.t.unsupported[:] = [(l_, w_) for l_, w_ in c.t.unsupported if not ("Continue" in w_ and any(
        isinstance(s, ast.Continue) and s.lineno == l_ for h in handlers for s in h.body))]
    rep.check(moves_on, "C03.4", site, "a miss in one window moves on to the next window",
              f"handler bodies: {[ast.unparse(s) for h in handlers for s in h.body]}: the search must not stop at the first window that does "
              "not hold the resource")
    for ln, why in c.t.unsupported:
        if "Break" in why or "While" in why:
            rep.unk("C03.4", site, "control flow of the window search", why)
    # only KeyError is swallowed; the search ends with KeyError
    types = [t for tys, g_, l_ in c.t.trys for t in tys]
    rep.check(types == ["KeyError"], "C03.4", site, "only KeyError (not found in that window) is swallowed", f"handlers catch {types}")
    fi = c.fi
    last = [s for s in fi.node.body if not isinstance(s, ast.Expr)][-1]
    ok = isinstance(last, ast.Raise) and last.exc is not None and ast.unparse(last.exc).startswith("KeyError")
    rep.check(ok, "C03.4", site, "an object that was never added ends in KeyError", f"last statement: {ast.unparse(last)[:60]}")


def decode_address(rep, idx):
    c = get_fn(idx, "MemoryMap.decode_address")
    site = c.fi.site
    rep.analysed(site)
    A = c.parse("self._ranges.get(address)")
    env = {"A": A}
    is_res = c.parse("id(A) in self._resources", env)
    is_win = c.parse("id(A) in self._windows", env)
    is_none = c.norm(c.parse("A is None", env))
    atoms = (is_none, is_res, is_win)

    # "nothing assigned here" is `is None`; the truth value of the looked-up object is another question (a resource may be any object:
    # an empty container, something with __bool__ or __len__)
    looked = {st.targets[0].id for st in ast.walk(c.fi.node) if isinstance(st, ast.Assign) and len(st.targets) == 1 and
              isinstance(st.targets[0], ast.Name) and isinstance(st.value, ast.Call) and isinstance(st.value.func, ast.Attribute) and
              st.value.func.attr == "get" and ast.unparse(st.value.func.value).endswith("_ranges")}
    for n in ast.walk(c.fi.node):
        if isinstance(n, (ast.If, ast.While, ast.IfExp)):
            t = n.test
            while isinstance(t, ast.UnaryOp) and isinstance(t.op, ast.Not):
                t = t.operand
            parts = t.values if isinstance(t, ast.BoolOp) else [t]
            for p_ in parts:
                while isinstance(p_, ast.UnaryOp) and isinstance(p_.op, ast.Not):
                    p_ = p_.operand
                if isinstance(p_, ast.Name) and p_.id in looked:
                    rep.bad("C03.6", site, "an address inside a resource decodes to that resource",
                            f"`{ast.unparse(n.test)[:50]}` tests the *truth value* of the looked-up object where `is None` is meant: a resource "
                            "that is falsy (an empty container, an object with __bool__ / __len__) is reported by all_resources() and "
                            "find_resource() and decodes to nothing", line=n.lineno)
                    return

    def consistent(a):
        return not (a[is_none] and (a[is_res] or a[is_win]))            # None is in neither table
    rets = [(c.norm(v), guard_table(c, gen, ln, atoms, consistent)) for v, gen, ln in c.t.returns] + \
        [(('const', None), guard_table(c, gen, ln, atoms, consistent)) for gen, ln in c.t.bare_returns]
    looped = any(isinstance(n, ast.While) for n in ast.walk(c.fi.node))
    und = looped or any(None in t.values() for v, t in rets)
    if looped:
        # an iterative descent keeps a cursor map (M = self, then M = <window>); once it has moved, the tables of `self` are
        # the wrong ones to consult
        cursors = set()
        for n in ast.walk(c.fi.node):
            if isinstance(n, ast.Assign) and len(n.targets) == 1 and isinstance(n.targets[0], ast.Name) and \
                    isinstance(n.value, ast.Name) and n.value.id == "self":
                cursors.add(n.targets[0].id)
        moved = {n.targets[0].id for w in ast.walk(c.fi.node) if isinstance(w, ast.While) for n in ast.walk(w)
                 if isinstance(n, ast.Assign) and len(n.targets) == 1 and isinstance(n.targets[0], ast.Name) and n.targets[0].id in cursors}
        for w in ast.walk(c.fi.node):
            if isinstance(w, ast.While) and moved:
                stale = [n for n in ast.walk(w) if isinstance(n, ast.Attribute) and isinstance(n.value, ast.Name) and n.value.id == "self" and
                         n.attr in ("_windows", "_resources", "_ranges")]
                for n in stale:
                    rep.bad("C03.6", site, f"self.{n.attr} inside the descent loop", f"the loop walks down with the cursor `{sorted(moved)[0]}`, but this "
                            f"table is the outer map's: after the first step an assignment of the inner map is looked up in the wrong table "
                            "(a window nested in a window is not recognised as one)", line=n.lineno)

    def covers(pred):
        """assignments under which a result satisfying pred is returned"""
        out = set()
        for v, t in rets:
            if pred(v):
                out |= {k for k, x in t.items() if x}
        return out
    gives_A = covers(lambda v: v == A)
    gives_none = covers(lambda v: v == ('const', None)) | {k for k in gives_A if k[0]}
    r2 = [r for r in rets if r[0][0] == 'call' and r[0][1] == ('attr', A, 'decode_address')]
    gives_rec = covers(lambda v: v[0] == 'call' and v[1] == ('attr', A, 'decode_address'))
    want_res = {(False, True, False), (False, True, True)}
    rep.form(gives_A - {k for k in gives_A if k[0]} == want_res, "C03.6", site, "an address inside a resource decodes to that resource",
             f"the looked-up assignment is returned under {sorted(gives_A)} (none, resource, window)",
             wrong=None if und or gives_A else "no path returns the looked-up assignment itself")
    # an assignment that was found and is in neither table cannot exist (C02.4): a recursive decode that also covers that row looks the
    # object up in the window table and fails there -- a don't-care
    rec_ok = len(r2) == 1 and gives_rec - {(False, False, False)} == {(False, False, True)}
    if not rec_ok and und:
        rep.unk("C03.6", site, "an address inside a window is decoded by the window's map",
                "the descent into windows is written as a loop, or is guarded by a condition outside the rule's atoms; the verified form is the recursive one")
    elif not rec_ok:
        rep.bad("C03.6", site, "an address inside a window is decoded by the window's map", "no recursive decode exactly when the assignment is a "
                f"window and not a resource (found under {sorted(gives_rec)})")
    else:
        arg = r2[0][0][2][0] if r2[0][0][2] else None
        R = c.parse("self._windows[id(A)][2]", env)
        want = c.norm(ir.parse("(address - R.start) * R.step", {"R": R}))
        leaves = {"address": 'amP', ir.show(('attr', R, 'start')): 'amP', ir.show(('attr', R, 'stop')): 'amP', ir.show(('attr', R, 'step')): 'r'}
        if arg is not None and arg != want and arg[0] == 'bin' and arg[1] == '%' and arg[2] == want:
            rep.bad("C03.2", site, "address handed to the window's map = (address - window base) * ratio, with the window's stored range",
                    f"the window-relative address is reduced modulo {ir.show(arg[3])[:60]}: the range of a window is its span rounded up to the "
                    "map's alignment, so an address in that padding wraps onto the window's resources instead of decoding to nothing "
                    "(all_resources() / find_resource() report no resource there)")
        else:
          typed(rep, "C03.2", site, "address handed to the window's map = (address - window base) * ratio, with the window's stored range", arg, want, 'aw', leaves,
              depends=[("address", "different addresses inside the window decode to different addresses of its map"),
                       (lambda x: x[0] == 'attr' and x[2] == 'start' or x[0] == 'sub' and x[2] == ('const', 0) and x[1][0] != 'tuple',
                        "no range start occurs in it; the offset inside a window is counted from where the window was placed; a mask of the address "
                        "equals that only when the start is a multiple of the mask size, which add_window() does not enforce for dense windows "
                        "(they are aligned to their span 2**addr_width / ratio)")])
    rep.form((True, False, False) in gives_none, "C03.6", site, "an unassigned address decodes to nothing (None)",
             f"None is returned under {sorted(gives_none)}", wrong=None if und else "no path returns None for an address that is not assigned")


def window_size(rep, idx):
    c = get_fn(idx, "MemoryMap.add_window")
    site = c.fi.site
    calls = [x for x, gen, ln in c.calls_named("_compute_addr_range")]
    if not calls or len(calls[0][2]) < 3:
        # the placement helper is gone (opened in place): read the span and the step off the inserted range
        ins = [c.norm(e) for e, gen, dsl_, ln in c.t.calls if e[0] == 'call' and c.norm(e)[1] == c.parse("self._ranges.insert")]
        R = ins[0][2][0] if len(ins) == 1 and len(ins[0][2]) == 2 else None
        size = None
        if R is not None and R[0] == 'call' and R[1] == ('name', 'range') and len(R[2]) == 3:
            for x in ir.walk(R[2][1]):
                if x[0] == 'call' and x[1] == c.parse("self._align_up") and len(x[2]) == 2 and x[2][0][0] == 'call' and x[2][0][1] == ('name', 'max'):
                    size = x
        if size is None:
            rep.unk("C03.2", site, "window size", "cannot find the size passed to _compute_addr_range")
            return
        calls = [('call', None, (None, size, R[2][2]), ())]
    size, step = calls[0][2][1], calls[0][2][2]
    # the rounding of the placement helper (max(size, 1) aligned up) applied before the call instead of inside it
    if size[0] == 'call' and size[1] == c.parse("self._align_up") and len(size[2]) == 2 and size[2][0][0] == 'call' and \
            size[2][0][1] == ('name', 'max') and ('const', 1) in size[2][0][2] and len(size[2][0][2]) == 2:
        size = next(a for a in size[2][0][2] if a != ('const', 1))
    ratio = ('phi', c.parse("not sparse"), c.parse("self.data_width // window.data_width"), ('const', 1))
    alt = ('phi', c.parse("sparse"), ('const', 1), c.parse("self.data_width // window.data_width"))
    rep.check(step in (c.norm(ratio), c.norm(alt)), "C03.2", site, "ratio = data_width // window.data_width for dense windows, 1 for sparse ones",
              f"ratio is {ir.show(step)[:100]}")
    want = c.norm(('bin', '//', c.parse("1 << window.addr_width"), step))
    leaves = {"(2 ** window.addr_width)": 'aw', ir.show(step): 'r'}
    typed(rep, "C03.2", site, "window size in this map = 2**window.addr_width / ratio", size, want, 'amO', leaves)


def authority(rep, idx):
    """ResourceInfo is constructed only by _translate and the two direct sites."""
    sites = []
    for f in idx.all_functions():
        if f.module.rel != "memory.py":
            continue
        for n in ast.walk(f.node):
            if isinstance(n, ast.Call) and ast.unparse(n.func).endswith("ResourceInfo"):
                sites.append(f.qual)
    want = {"MemoryMap._translate", "MemoryMap.all_resources", "MemoryMap.find_resource"}
    # a private helper that only these three call is part of them
    for q in sorted(set(sites) - want):
        cn, _, fn = q.rpartition(".")
        if cn != "MemoryMap" or not fn.startswith("_"):
            continue
        callers = {f.qual for f in idx.all_functions() if f.module.rel == "memory.py" for n in ast.walk(f.node)
                   if isinstance(n, ast.Attribute) and n.attr == fn and f.qual != q}
        if callers and callers <= want:
            sites = [s for s in sites if s != q] + sorted(callers)
    rep.check(set(sites) <= want and ("MemoryMap._translate" in sites or not translate_owned(idx)) and len(set(sites)) >= 2, "C03.1", "memory.py", "ResourceInfo is built only by _translate and the two local-resource sites",
              f"construction sites: {sorted(set(sites))}")


def per_parent_records(rep, idx):
    """A frozen map may be a window of several parents (two decoders, a bridge and a decoder): where it sits in *this* map -- its
    range, its name, its ratio -- is a fact about the pair and belongs to the parent's tables.  A method of MemoryMap that
    stores a value computed from the parent's state on an object it was handed (``window._base = ...``) keeps one record for all
    parents: the second add_window() overwrites the first parent's, and every look-up of the first parent that reads it translates
    through the wrong base.  Values that depend on the child alone (freezing it, caching its own size) are not per-parent."""
    cls = idx.find_class("MemoryMap")
    n = 0
    import builtins
    for fs in cls.methods.values():
        for f in fs:
            a = f.node.args
            params = [x.arg for x in a.posonlyargs + a.args + a.kwonlyargs][0 if "staticmethod" in f.decorators else 1:]
            if not params:
                continue
            n += 1
            hits = []
            for st in ast.walk(f.node):
                tgts, val = [], None
                if isinstance(st, ast.Assign):
                    tgts, val = st.targets, st.value
                elif isinstance(st, (ast.AugAssign, ast.AnnAssign)) and st.value is not None:
                    tgts, val = [st.target], st.value
                elif isinstance(st, ast.Call) and isinstance(st.func, ast.Name) and st.func.id == "setattr" and len(st.args) == 3:
                    tgts, val = [ast.Attribute(value=st.args[0], attr="?", ctx=ast.Store())], st.args[2]
                for t in tgts:
                    e = t
                    while isinstance(e, ast.Subscript):
                        e = e.value
                    if isinstance(e, ast.Attribute) and isinstance(e.value, ast.Name) and e.value.id in params:
                        own = e.value.id
                        others = {x.id for x in ast.walk(val) if isinstance(x, ast.Name) and x.id != own and not hasattr(builtins, x.id)}
                        if others:
                            hits.append((st, own, e.attr, sorted(others)))
            for st, own, attr, others in hits:
                rep.bad("C03.9", f.site, f"{f.qual}() keeps what it knows about `{own}` in its own tables",
                        f"`{ast.unparse(st)[:80]}` stores a value computed from {others} on the object handed in: a map may be a window of "
                        "several parents, the record is shared by all of them and the last add overwrites it, so the look-ups of an earlier "
                        "parent that read it translate through another parent's placement", line=st.lineno)
    rep.ok("C03.9", "memory.py::MemoryMap", "no method of MemoryMap stores per-parent facts on an object it is handed",
           f"{n} method(s) with parameters examined", nontrivial=False)
