"""C09 — Wishbone arbiter is round-robin fair.

The exact next-owner function is derived from the emission order of the grant writes, symbolically in the
owner index i and the number of initiators N, and compared with the cyclic successor order."""
from ..core import dl, ir
from .common import get_ctx
from .c08 import arbiter_roles, BUSY

EXPLANATION = ("grant-update template of Arbiter.elaborate: each loop of `If(requests[v]): grant.eq(v)` is abstracted to a "
               "segment (lo, hi, direction) with bounds in linear normal form over the owner index i and N; the priority "
               "sequence (reverse emission order) must be i+1..N-1 ascending then 0..i-1 ascending for every i and N; "
               "request bit k is initiator k's cyc; grant is written nowhere else")


def run(rep, idx, tier):
    rep.explanation = EXPLANATION
    rep.assume("A2", "A3", "A4", "A6")
    rep.require("C09.1", 2)
    rep.require("C09.2", 3)
    rep.require("C09.3", 1)
    rep.require("C09.4", 1)
    rep.require("C09.5", 1)
    from . import glue as _g5
    _g5.late_sized_signals(rep, "C09.5", idx, "wishbone/bus:Arbiter", ("_intrs",))
    from . import glue as _g
    # the grant register starts at initiator 0 and takes part in the reset (fairness is stated from reset)
    _g.reset_discipline(rep, "C09.4", idx, ["wishbone/bus:Arbiter"], allowed_init=[(("Arbiter", "intr_bus_stall"), "1")])
    r = arbiter_roles(rep, idx, "C09.1")
    if r is None:
        return
    c, site = r.c, r.c.fi.site
    N = c.parse("len(INTRS)", {"INTRS": r.INTRS})
    gd = c.drivers_of(r.GRANT)
    # a generation-time lower bound on the number of initiators around the encoder excludes only sizes for which the loops emit
    # nothing anyway: such a guard is read away (common.vacuous_size_guards)
    from .common import vacuous_size_guards
    from ..core.dsl import Driver
    gd2 = []
    for d in gd:
        vac = vacuous_size_guards(c, d, N)
        if vac:
            rep.count("vacuous_size_guards", len(vac))
            d = Driver(d.domain, d.target, d.value, d.dsl, tuple(fr for fr in d.gen if fr not in vac), d.order, d.lineno, d.seqno)
        gd2.append(d)
    gd = gd2
    rep.count("grant_drivers", len(gd))
    busy = c.eng.cond(c.parse(BUSY))

    # ---- the requests vector -------------------------------------------------------------------
    REQ = None
    for s in c.t.sigs.values():
        S = ('sig', s.id, s.name)
        ds = c.drivers_of(S)
        elem = c.norm(('sub', r.INTRS, r.k))
        want_elt = ir.subst(c.norm(('attr', r.intr, 'cyc')), lambda x: ('bv', '%0') if x == elem else None)
        want_vec = ('call', ('name', 'Cat'), (('gen', 'gen', want_elt, ((('bv', '%0'), r.INTRS, ()),)),), ())
        if ds and all(c.norm(d.value) in (c.parse("Cat(x.cyc for x in INTRS)", {"INTRS": r.INTRS}), want_vec) for d in ds):
            REQ = S
            ok = len(ds) == 1 and ds[0].domain == "comb" and not ds[0].dsl and not ds[0].gen
            rep.check(ok, "C09.2", site, "request bit k == cyc of initiator k (Cat over the list in order), always",
                      "the request vector must be an unconditional combinational copy of the cyc lines")
            rep.check(c.norm(s.ctor) == c.parse("Signal(N)", {"N": N}), "C09.2", site, "one request bit per initiator",
                      f"created as {ir.show(c.norm(s.ctor))}")
    if REQ is None:
        # the same vector filled bit by bit: for k, intr in enumerate(INTRS): requests[k].eq(intr.cyc)
        for s in c.t.sigs.values():
            S = ('sig', s.id, s.name)
            fam = [(dom, t, ds) for dom, t, ds in c.targets_matching(lambda t: t[0] == 'sub' and t[1] == S and t[2][0] == 'idx')]
            if len(fam) != 1 or c.drivers_of(S):
                continue
            dom, t, ds = fam[0]
            L = c.t.loops.get(t[2][1])
            if L is None or len(ds) != 1:
                continue
            over = (L.seq is not None and c.norm(L.seq) == r.INTRS and not L.reversed) or \
                (L.kind == 'range' and c.norm(L.bounds[0]) == ('const', 0) and c.norm(L.bounds[1]) == N and not L.reversed)
            want = ir.subst(c.norm(('attr', r.intr, 'cyc')), lambda x: ('idx', L.id) if x == r.k else None)
            if over and c.norm(ds[0].value) == c.norm(want):
                REQ = S
                ok = dom == "comb" and not ds[0].dsl and [fr for fr in ds[0].gen if fr[0] != 'for'] == []
                rep.check(ok, "C09.2", site, "request bit k == cyc of initiator k (one assignment per list position), always",
                          "the request vector must be an unconditional combinational copy of the cyc lines")
                rep.check(c.norm(s.ctor) == c.parse("Signal(N)", {"N": N}), "C09.2", site, "one request bit per initiator",
                          f"created as {ir.show(c.norm(s.ctor))}")
                break
    if REQ is None:
        rep.unk("C09.2", site, "request vector", "no local signal was recognised as the list-ordered collection of the initiators' cyc lines")
        return

    # ---- segments -----------------------------------------------------------------------------
    segs = {}
    outer = None
    other_shape = False
    for d in gd:
        what = f"grant <= {c.show(d.value)}"
        v = c.norm(d.value)
        loops = [fr[1] for fr in d.gen if fr[0] == 'for']
        if v[0] != 'idx' or v[1] not in loops or len(loops) != 2 or any(fr[0] == 'pyif' for fr in d.gen):
            if v[0] in ('idx', 'const', 'sig', 'attr', 'name'):
                rep.bad("C09.3", site, what, "grant is written outside the round-robin encoder (value is not the index of a "
                        "requesting initiator found by an inner loop)", line=d.lineno)
            else:
                # a computed successor (a chain of Mux over the candidates, modular arithmetic on the owner index ...): another
                # encoder shape, which the segment abstraction does not cover
                other_shape = True
                rep.unk("C09.3", site, what, "the granted value is computed by an expression (not the candidate index of an inner loop): "
                        "an encoder of another shape, whose priority order is not derived")
            continue
        Li, Lj = loops[0], loops[1]
        if v[1] != Lj:
            rep.bad("C09.2", site, what, "granted value is not the inner loop's candidate index", line=d.lineno)
            continue
        outer = outer or Li
        i, j = ('idx', Li), ('idx', Lj)
        # guard must be exactly ~busy & Case(i) & requests[j]
        case_i = c.eng.frame_formula(('case', _switch_of(d), (i,), 0)) if _switch_of(d) is not None else None
        if case_i is None:
            rep.bad("C09.1", site, what, "grant write is not under a Case of the current owner", line=d.lineno)
            continue
        sw = c.norm(c.t.switches[_switch_of(d)])
        rep.check(sw == r.GRANT, "C09.2", site, f"{what}: owner Case decodes the grant register itself",
                  f"Switch subject is {ir.show(sw)}")
        want = dl.f_and(dl.f_not(busy), case_i, c.eng.cond(c.norm(('sub', REQ, j))))
        try:
            eq, rows, wit = dl.equivalent(c.eng, c.eng.guard(d), want)
        except Exception as e:
            rep.unk("C09.2", site, what, str(e))
            continue
        rep.count("truth_table_rows", rows)
        if not eq:
            rep.bad("C09.2", site, what, f"guard is not (~busy & owner == i & requests[v]) {wit}: the index tested must be the value granted",
                    line=d.lineno)
            continue
        rep.ok("C09.2", site, what + " iff ~busy & owner == i & requests[v]", f"{rows} valuation(s)", rows=rows)
        segs.setdefault((Li, Lj), []).append(d)

    if not segs:
        if other_shape:
            rep.unk("C09.1", site, "round-robin encoder", "no grant update of the two-loop shape; the encoder that is there is not derived")
        else:
            rep.bad("C09.1", site, "round-robin encoder", "no grant update of the expected shape")
        return
    if len({k[0] for k in segs}) != 1:
        rep.unk("C09.1", site, "round-robin encoder", "grant updates are spread over several owner loops")
        return
    Li = outer
    i = ('idx', Li)
    LO = c.t.loops[Li]
    ok_outer = LO.kind == 'range' and c.norm(LO.bounds[0]) == ('const', 0) and c.norm(LO.bounds[1]) == N and not LO.reversed
    ok_outer = ok_outer or (LO.kind in ('enum', 'seq') and c.norm(LO.seq) == r.INTRS)
    rep.check(ok_outer, "C09.1", site, "one owner Case per initiator (i ranges over 0..N-1)",
              f"owner loop iterates {ir.show(c.norm(LO.iter))}; N = {ir.show(N)}")
    # emission order of the segments
    order = sorted(segs.items(), key=lambda kv: min(d.order for d in kv[1]))
    prio = []
    for (li, lj), ds in reversed(order):
        Lp = c.t.loops[lj]
        if Lp.kind != 'range':
            rep.unk("C09.1", site, "candidate loop", f"{ir.show(Lp.iter)} is not a range")
            return
        lo, hi = c.norm(Lp.bounds[0]), c.norm(Lp.bounds[1])
        # emitted ascending (not reversed) -> later (higher index) wins -> priority descending
        prio.append((lo, hi, "asc" if Lp.reversed else "desc"))
    want = [(c.norm(c.parse("i + 1", {"i": i})), N, "asc"), (('const', 0), i, "asc")]

    def fmt(p):
        return ", ".join(f"[{ir.show(a)}, {ir.show(b)}) {d}" for a, b, d in p)
    if prio == want:
        rep.ok("C09.1", site, "next owner = first requester in cyclic order i+1, ..., N-1, 0, ..., i-1 (for every i, N)",
               f"priority sequence derived from emission order: {fmt(prio)}", segments=fmt(prio))
    else:
        # empty or single-element differences cannot be excused: any deviation changes the next-owner function for some N
        rep.bad("C09.1", site, "next owner = first requester in cyclic order i+1, ..., N-1, 0, ..., i-1",
                f"derived priority sequence is {fmt(prio)}; round-robin needs {fmt(want)}")
    # C09.3: own index never granted, no default write -- by the segment bounds and by the absence of other drivers
    rep.check(all(d.domain == "sync" for d in gd), "C09.3", site, "grant holds when nobody else requests",
              "grant must be a sync register whose only writes are the encoder's", nontrivial=False)


def _switch_of(d):
    for fr in d.dsl:
        if fr[0] == 'case':
            return fr[1]
    return None
