"""C19 — every accepted component elaborates, terminates, and does so repeatably."""
import ast
import os

from ..core import ir
from ..core.effects import get_effects
from ..core.index import Index
from .common import get_ctx
from . import apirules

EXPLANATION = ("all elaborate() bodies and what they call: cross-invocation dependence (a self/global location written during "
               "elaboration and read there by another statement), external stateful calls, recursion classification "
               "(structural / bounded-variant), iteration over set-typed values, who-may-call for metadata mutators, raise-type "
               "discipline against a frozen exception table, accesses to optional bus members guarded by their feature test, and "
               "str-mapping of path-typed values before join, reducers without an identity (reduce / max / min / next) only over "
               "provably non-empty collections; each rule also runs on a committed positive fixture")

METADATA_MUTATORS = {"add_resource", "add_window", "align_to", "freeze", "add"}
METADATA_RECEIVERS = ("memory_map", "event_map", "_memory_map", "_event_map")

# exceptions other than ValueError / TypeError that the API deliberately raises (pinned by the existing tests)
EXC_TABLE = {
    ("csr/bus.py::Multiplexer._check_memory_map", "AttributeError"): "register without a csr.Element.Signature member 'element' (test_wrong_memory_map_resource)",
    ("csr/bus.py::Interface.memory_map", "AttributeError"): "reading a memory map that was never set (test_get_map_none)",
    ("wishbone/bus.py::Interface.memory_map", "AttributeError"): "reading a memory map that was never set (test_get_map_none)",
    ("event.py::Source.event_map", "AttributeError"): "reading an event map that was never set (test_get_map_none)",
    ("csr/reg.py::FieldActionMap.__getattr__", "AttributeError"): "attribute protocol: unknown / reserved field names (test_getattr_missing, test_getattr_reserved)",
    ("memory.py::MemoryMap.find_resource", "KeyError"): "documented result for an object that was never added (test_find_resource_wrong)",
    ("periph.py::PeripheralInfo.irq", "NotImplementedError"): "documented result when the peripheral has no IRQ line (test_irq_none)",
}
# join() arguments that are strings by construction, one line of reason each
JOIN_TABLE = {
    ("memory.py::MemoryMap._compute_addr_range", "overlap_descrs"): "list filled with f-strings only",
    ("csr/reg.py::Register.__init__", "annot_fields"): "keys of __annotations__ (identifiers, always str)",
}
# generators that yield path-typed values (tuples that may contain integers) and the position of the path
PATH_PRODUCERS = {"resources": 1, "windows": 1, "window_patterns": 1, "flatten": 0}
OPTIONAL_MEMBERS = ("err", "rty", "stall", "lock", "cti", "bte")


def run(rep, idx, tier):
    rep.explanation = EXPLANATION
    rep.assume("A1", "A3", "A5")
    rep.require("C19.1", 18)
    rep.require("C19.2", 7)
    rep.require("C19.3", 1)
    rep.require("C19.4", 18)
    rep.require("C19.5", 60)
    rep.require("C19.6", 8)
    rep.require("C19.7", 10)
    rep.require("C19.8", 1)
    rep.require("C19.9", 1)
    rep.require("C19.12", 25)
    rep.require("C19.15", 2)
    rep.require("C19.16", 15)
    rep.require("C19.17", 1)
    rep.require("C19.18", 1)
    rep.require("C19.19", 3)
    rules(rep, idx, fixture=False)
    # positive fixture: the same rules must flag the committed bad example on every run
    fx = Index(os.path.join(os.path.dirname(os.path.dirname(os.path.abspath(__file__))), "fixtures", "c19"))
    from ..core.report import Report
    frep = Report("C19", tier)
    rules(frep, fx, fixture=True)
    fired = {o.rule for o in frep.by_status("violated")}
    for r in ("C19.1", "C19.2", "C19.3", "C19.4", "C19.6", "C19.8", "C19.9", "C19.10", "C19.11", "C19.22", "C19.23", "C19.24"):
        if r in fired:
            rep.ok(r, "sa/fixtures/c19", "positive fixture is flagged", "the rule fires on the committed bad example", nontrivial=False)
        else:
            rep.unk(r, "sa/fixtures/c19", "positive fixture is flagged", "the rule no longer fires on the committed bad example: it has gone blind")


def elaborates(idx):
    return [f for f in idx.all_functions() if f.name == "elaborate" and f.cls is not None]


def reachable_from(idx, ef, roots):
    seen = {}
    work = list(roots)
    while work:
        f = work.pop()
        if f.site in seen:
            continue
        seen[f.site] = f
        for callee, ln in ef.summary(f).calls:
            work.append(callee)
    return list(seen.values())


def rules(rep, idx, fixture):
    ef = get_effects(idx)
    els = elaborates(idx)
    reach = reachable_from(idx, ef, els)
    carried_state(rep, idx, ef, els)
    termination(rep, idx, ef)
    set_iteration(rep, idx, reach)
    metadata(rep, idx, ef, els, reach)
    if not fixture:
        raise_types(rep, idx)
        optional_members(rep, idx, els)
    joins(rep, idx)
    partial_reducers(rep, idx)
    shared_state(rep, idx)
    late_binding(rep, idx)
    identity_comparisons(rep, idx)
    if not fixture:
        from .c20 import plain_member_directions
        plain_member_directions(rep, idx, "C19.13")
        # ... and the same for the members of interface-typed ports, with no port exempted: a member that is an *input* of the
        # component under the port's declared orientation and that elaborate() drives has two drivers when the component is
        # converted on its own (DriverConflict, an internal error)
        from .c20 import drivers as _port_drivers
        from ..core.pol import Pol as _Pol
        _port_drivers(rep, idx, _Pol(idx), rule="C19.13", exempt=())
        clamped_pattern_width(rep, idx)
        computed_submodule_names(rep, idx)
        # A1 (asserts are invariants that may be ignored -- python -O removes them) is only sound when no assert changes state
        from . import glue as _glue16
        _glue16.pure_asserts(rep, "C19.16", idx, ("",))
        # an accepted layout is never refused at elaboration for want of one more doubling of the shadow
        _glue16.shadow_give_up_bound(rep, idx, "C19.17")
        negative_slice_bounds(rep, idx)
        rep.require("C19.21", 1)
        asserted_parameters(rep, idx)
        rep.require("C19.20", 1)
        _glue16.view_safe_operations(rep, "C19.20", idx)
        division_after_validation(rep, idx)
    rep.require("C19.22", 1) if not fixture else None
    from . import glue as _glue22
    _glue22.textual_memo_keys(rep, "C19.22", idx)
    rep.require("C19.23", 1) if not fixture else None
    _glue22.ports_not_rebound(rep, "C19.23", idx)
    rep.require("C19.24", 1) if not fixture else None
    _glue22.setter_bypass(rep, "C19.24", idx)
    if not fixture:
        from . import glue as _glue
        _glue.param_refusals(rep, "C19.12", idx)
        # a bus accepts exactly the maps of its own geometry: a legal component can always publish its map
        from .c01 import setters
        setters(rep, idx, rule="C19.12")


# ---- C19.9 no object shared between calls / instances by accident ------------------------------------------
MUTABLE_CTORS = {"list", "dict", "set", "defaultdict", "OrderedDict", "bytearray", "deque", "Signal", "Module", "Memory", "MemoryData"}
IMMUTABLE_CTORS = {"frozenset", "tuple", "range", "int", "str", "bool", "float", "bytes", "object", "property", "staticmethod",
                   "classmethod", "namedtuple", "TypeVar", "unsigned", "signed"}


def _mutability(idx, node, f_or_cls):
    """'mutable' | 'immutable' | 'unknown' for the value of a default argument / class attribute."""
    if isinstance(node, (ast.Constant, ast.Name, ast.Attribute, ast.Lambda)):
        return "immutable"                      # names / attributes: enum members, constants, functions
    if isinstance(node, ast.UnaryOp):
        return _mutability(idx, node.operand, f_or_cls)
    if isinstance(node, ast.Tuple):
        kinds = {_mutability(idx, e, f_or_cls) for e in node.elts}
        return "mutable" if "mutable" in kinds else ("unknown" if "unknown" in kinds else "immutable")
    if isinstance(node, (ast.List, ast.Dict, ast.Set, ast.ListComp, ast.DictComp, ast.SetComp)):
        return "mutable"
    if isinstance(node, (ast.BinOp, ast.JoinedStr, ast.Compare, ast.BoolOp)):
        return "immutable"
    if isinstance(node, ast.Call):
        fn = node.func
        nm = fn.id if isinstance(fn, ast.Name) else (fn.attr if isinstance(fn, ast.Attribute) else None)
        if nm in MUTABLE_CTORS:
            return "mutable"
        if nm in IMMUTABLE_CTORS or (isinstance(fn, ast.Attribute) and nm in ("format", "join", "strip", "lower", "upper")):
            return "immutable"
        fir = ir.from_ast(fn, {})
        mod = getattr(f_or_cls, "module", None)
        cls = f_or_cls if not hasattr(f_or_cls, "cls") else f_or_cls.cls
        try:
            if mod is not None and fir[0] in ('name', 'attr') and idx.resolve_class(fir, mod, cls) is not None:
                rc = idx.resolve_class(fir, mod, cls)
                return "immutable" if rc.is_enum() else "mutable"   # an instance of a repository class carries state
        except Exception:
            pass
        return "unknown"
    return "unknown"


def _class_table_escapes(idx, cls, name):
    """How a class-level mutable object can be changed or handed on: None when every use in the package only reads it."""
    READ_METHODS = ("items", "keys", "values", "get", "index", "count", "copy")
    READ_CALLS = ("len", "list", "tuple", "dict", "set", "frozenset", "sorted", "iter", "enumerate", "zip", "reversed", "any", "all", "sum", "min", "max", "isinstance")
    for m_ in idx.modules.values():
        par = {}
        for n in ast.walk(m_.tree):
            for ch in ast.iter_child_nodes(n):
                par[ch] = n
        for n in ast.walk(m_.tree):
            hit = isinstance(n, ast.Attribute) and n.attr == name and isinstance(n.value, ast.Name) and n.value.id in ("self", "cls", cls.name)
            if not hit:
                continue
            p = par.get(n)
            where = f"line {n.lineno} of {m_.rel}"
            if isinstance(n.ctx, (ast.Store, ast.Del)):
                return f"it is rebound at {where}"
            if isinstance(p, ast.Subscript) and p.value is n:
                if isinstance(p.ctx, (ast.Store, ast.Del)):
                    return f"an entry is written at {where}"
                continue
            if isinstance(p, ast.Attribute) and p.value is n:
                pp = par.get(p)
                if isinstance(pp, ast.Call) and pp.func is p and p.attr in READ_METHODS:
                    continue
                return f"`.{p.attr}` is applied to it at {where}"
            if isinstance(p, (ast.For, ast.comprehension)) and p.iter is n:
                continue
            if isinstance(p, ast.Compare) and n in p.comparators and all(isinstance(o, (ast.In, ast.NotIn)) for o in p.ops):
                continue
            if isinstance(p, ast.Call) and n in p.args and isinstance(p.func, ast.Name) and p.func.id in READ_CALLS:
                continue
            if isinstance(p, ast.AugAssign) and p.target is n:
                return f"it is updated in place at {where}"
            if isinstance(p, ast.Starred):
                continue
            return f"the object itself is handed on at {where} (assigned, passed or returned), so a later in-place update reaches every instance"
    return None


def shared_state(rep, idx, rule="C19.9", classes=None):
    """A mutable object created once -- as a default argument (at definition time) or as a class attribute (at class
    creation) -- is shared by every call / every instance: state then leaks between components that must be independent."""
    n = 0
    wanted = None if classes is None else set(classes)

    def in_scope(cls):
        return wanted is None or (cls is not None and (cls.qual in wanted or cls.name in wanted or
                                                        any(cls.qual.startswith(w + ".") for w in wanted)))
    for f in idx.all_functions():
        if not in_scope(f.cls):
            continue
        a = f.node.args
        names = [x.arg for x in a.args][len(a.args) - len(a.defaults):] + [x.arg for x, dv in zip(a.kwonlyargs, a.kw_defaults) if dv is not None]
        dflts = list(a.defaults) + [dv for dv in a.kw_defaults if dv is not None]
        for pname, dv in zip(names, dflts):
            n += 1
            m = _mutability(idx, dv, f)
            what = f"default of `{pname}` = {ast.unparse(dv)[:40]}"
            if m == "mutable":
                rep.bad(rule, f.site, what, "a mutable object evaluated once at definition time: every call that omits the argument shares it, "
                        "so state leaks from one component / call into the next", line=dv.lineno)
            elif m == "unknown":
                rep.unk(rule, f.site, what, "cannot tell whether the default value is mutable")
    for cls in idx.all_classes():
        if cls.is_enum() or not in_scope(cls):
            continue
        for st in cls.node.body:
            targets = []
            if isinstance(st, ast.Assign):
                targets, val = [t for t in st.targets if isinstance(t, ast.Name)], st.value
            elif isinstance(st, ast.AnnAssign) and st.value is not None and isinstance(st.target, ast.Name):
                targets, val = [st.target], st.value
            for t in targets:
                if t.id.startswith("__") and t.id.endswith("__"):
                    continue
                n += 1
                m = _mutability(idx, val, cls)
                what = f"class attribute {cls.qual}.{t.id} = {ast.unparse(val)[:40]}"
                if m == "mutable":
                    esc = _class_table_escapes(idx, cls, t.id)
                    if esc is None:
                        rep.ok(rule, cls.site, what, "a table that is only ever read (indexed, iterated, tested for membership): sharing it "
                               "between instances cannot be observed", nontrivial=False)
                    else:
                        rep.bad(rule, cls.site, what, f"a mutable object created once with the class: all instances share it, and {esc}",
                                line=st.lineno)
                elif m == "unknown":
                    rep.unk(rule, cls.site, what, "cannot tell whether the value is mutable")
    # [obj] * n: n references to one object
    for f in idx.all_functions():
        if not in_scope(f.cls):
            continue
        for x in ast.walk(f.node):
            if isinstance(x, ast.BinOp) and isinstance(x.op, ast.Mult):
                for lst in (x.left, x.right):
                    if isinstance(lst, (ast.List, ast.Tuple)) and lst.elts:
                        n += 1
                        kinds = [_mutability(idx, e, f) for e in lst.elts]
                        if "mutable" in kinds:
                            rep.bad(rule, f.site, f"{ast.unparse(x)[:50]}", "sequence repetition copies references: every position holds the "
                                    "same mutable object", line=x.lineno)
    rep.ok(rule, "-", "default arguments and class attributes hold no mutable object", f"{n} default(s) / class attribute(s) classified",
           nontrivial=n > 0)
    # (c) an instance does not take over another object's private container: `self._x = other._x` makes the two objects share one
    #     dict / list / set, and a later change of either shows in both
    m_ = 0
    for f in idx.all_functions():
        if not in_scope(f.cls) or f.cls is None or not f.params or f.params[0] != "self":
            continue
        containers = set()
        init = f.cls.method("__init__")
        if init is not None:
            for st in ast.walk(init.node):
                if isinstance(st, ast.Assign) and len(st.targets) == 1 and isinstance(st.targets[0], ast.Attribute) and \
                        isinstance(st.targets[0].value, ast.Name) and st.targets[0].value.id == "self" and \
                        _mutability(idx, st.value, init) == "mutable":
                    containers.add(st.targets[0].attr)
        for st in ast.walk(f.node):
            if not (isinstance(st, ast.Assign) and len(st.targets) == 1 and isinstance(st.targets[0], ast.Attribute) and
                    isinstance(st.targets[0].value, ast.Name) and st.targets[0].value.id == "self"):
                continue
            v = st.value
            cands = [v.body, v.orelse] if isinstance(v, ast.IfExp) else [v]
            for cand in cands:
                if isinstance(cand, ast.Attribute) and cand.attr.startswith("_") and not cand.attr.startswith("__") and \
                        isinstance(cand.value, ast.Name) and cand.value.id != "self" and cand.value.id in f.params and \
                        (cand.attr in containers or st.targets[0].attr in containers):
                    m_ += 1
                    rep.bad(rule, f.site, f"`{ast.unparse(st)[:70]}`",
                            f"takes over the private container `{ast.unparse(cand)}` of another object instead of copying its entries: the two "
                            "objects then share one container, and what is later added to one of them appears in the other (a name assigned in "
                            "one map becomes taken in an unrelated one)", line=st.lineno)
    rep.count("adopted_containers", m_)


# ---- C19.18 x[:-n] with n == 0; C19.19 division by a parameter before it is validated -----------------------------
def negative_slice_bounds(rep, idx, rule="C19.18", modules=None):
    """`x[:-n]` drops the last n items only for n >= 1: for n == 0 the bound is `-0 == 0` and the slice is *empty*.  A slice whose
    upper bound is the negation of a computed quantity must be guarded against zero (`x[:-n if n > 0 else None]`, `if n: ...`), or the
    quantity must be a length that the code shows to be positive."""
    n = 0
    for f in idx.all_functions():
        if modules is not None and f.module.rel not in modules:
            continue
        parents = {}
        for x in ast.walk(f.node):
            for ch in ast.iter_child_nodes(x):
                parents[ch] = x
        for x in ast.walk(f.node):
            if not (isinstance(x, ast.Subscript) and isinstance(x.slice, ast.Slice) and x.slice.upper is not None):
                continue
            up = x.slice.upper
            guarded_here = False
            if isinstance(up, ast.IfExp):
                # -n if n > 0 else None
                cands = [(up.body, up.test), (up.orelse, up.test)]
                negs = [b for b, _ in cands if isinstance(b, ast.UnaryOp) and isinstance(b.op, ast.USub)]
                if negs and any(isinstance(b, ast.Constant) and b.value is None for b, _ in cands):
                    n += 1
                    guarded_here = True
                    q = ast.unparse(negs[0].operand)
                    rep.check(q in ast.unparse(up.test), rule, f.site, f"`{ast.unparse(x)[:60]}`: the negated bound is guarded against zero",
                              f"the guard `{ast.unparse(up.test)}` does not mention `{q}`", nontrivial=False)
                continue
            if not (isinstance(up, ast.UnaryOp) and isinstance(up.op, ast.USub)) or isinstance(up.operand, ast.Constant):
                continue
            n += 1
            q = ast.unparse(up.operand)
            # an enclosing test on the same quantity
            guard = None
            a = parents.get(x)
            while a is not None and a is not f.node:
                if isinstance(a, (ast.If, ast.IfExp, ast.While)) and q in ast.unparse(a.test):
                    guard = a.test
                    break
                a = parents.get(a)
            if guard is not None:
                rep.ok(rule, f.site, f"`{ast.unparse(x)[:60]}`: the negated bound is guarded against zero", f"under `{ast.unparse(guard)[:60]}`",
                       nontrivial=False)
            else:
                rep.bad(rule, f.site, f"`{ast.unparse(x)[:60]}`",
                        f"the upper bound `-{q}` is 0 when `{q}` is 0, and `x[:0]` is the empty slice, not the whole sequence: the case "
                        f"`{q} == 0` (nothing to drop: a window as wide as the bus, no granularity bits) silently yields nothing", line=x.lineno)
    rep.ok(rule, "-", "no slice with an unguarded negated upper bound", f"{n} slice(s) with a negated computed bound examined", nontrivial=False)


def division_after_validation(rep, idx, rule="C19.19"):
    """A constructor (or add()-style method) that divides by a value derived from one of its parameters does so only after that
    parameter was validated -- by an `if ...: raise` of its own that mentions it, or by handing it to a constructor / helper of
    the package that raises (Signature(...), MemoryMap(...), self._check_parameters(...)).  Otherwise a zero passes straight into
    `//` / `%` and the caller sees ZeroDivisionError, an internal error, instead of the descriptive refusal a few lines further
    down.  "Before" is execution order of the (canonical, helper-inlined) body, not line numbers."""
    n = 0
    for f in idx.all_functions():
        if f.cls is None or f.name not in ("__init__", "add", "add_resource", "add_window", "align_to", "as_memory_map") or not f.params:
            continue
        params = [p for p in f.params if p not in ("self", "cls")]
        if not params:
            continue
        pos = {}

        endpos = {}

        def number(node):
            pos[id(node)] = len(pos)
            for ch in ast.iter_child_nodes(node):
                number(ch)
            endpos[id(node)] = len(pos) - 0.5               # after everything inside the node has been evaluated
        number(f.node)
        # names standing for a parameter: the parameter, and locals bound (once) to it or to a tuple/table row holding it
        valid = {p: [] for p in params}
        for x in ast.walk(f.node):
            if isinstance(x, ast.If) and any(isinstance(y, ast.Raise) for y in ast.walk(x)):
                for p in params:
                    if any(isinstance(y, ast.Name) and y.id == p for y in ast.walk(x.test)):
                        valid[p].append(endpos[id(x.test)])
            if isinstance(x, ast.Call):
                raises = False
                try:
                    callee = idx.resolve_class(ir.from_ast(x.func, {}), f.module, f.cls)
                    if callee is not None and callee.method("__init__") is not None:
                        raises = any(isinstance(y, ast.Raise) for y in ast.walk(callee.method("__init__").node))
                except Exception:
                    pass
                if not raises:
                    h = None
                    if isinstance(x.func, ast.Attribute) and isinstance(x.func.value, ast.Name) and x.func.value.id in ("self", "cls") or \
                            isinstance(x.func, ast.Attribute) and isinstance(x.func.value, ast.Name) and x.func.value.id == f.cls.name:
                        h = idx.lookup_method(f.cls, x.func.attr)
                    elif isinstance(x.func, ast.Name):
                        h = idx.resolve_function(f.module, x.func.id)
                    if h is not None and h.node is not f.node:
                        raises = any(isinstance(y, ast.Raise) for y in ast.walk(h.node))
                if raises:
                    for a_ in list(x.args) + [k.value for k in x.keywords]:
                        if isinstance(a_, ast.Name) and a_.id in valid:
                            valid[a_.id].append(endpos[id(x)])
        for x in ast.walk(f.node):
            if not (isinstance(x, ast.BinOp) and isinstance(x.op, (ast.FloorDiv, ast.Mod, ast.Div))):
                continue
            den = x.right
            if isinstance(den, ast.BinOp) and isinstance(den.op, (ast.LShift, ast.Pow)):
                continue                                    # 1 << k, 2 ** k: never zero
            dn = [y.id for y in ast.walk(den) if isinstance(y, ast.Name) and y.id in valid and isinstance(y.ctx, ast.Load)]
            # only denominators that are the parameter itself (or a product / difference of parameters), not attributes of objects
            if not dn or any(isinstance(y, ast.Attribute) for y in ast.walk(den)):
                continue
            n += 1
            for p in sorted(set(dn)):
                before = [k for k in valid[p] if k < pos[id(x)]]
                what = f"`{ast.unparse(x)[:60]}`: `{p}` is validated before it is divided by"
                if before:
                    rep.ok(rule, f.site, what, "a refusal that mentions it (or a validating callee that receives it) comes first", nontrivial=False)
                elif valid[p]:
                    rep.bad(rule, f.site, what,
                            f"the division at line {x.lineno} is executed before the first validation of `{p}`: `{p} == 0` reaches "
                            "the division and the caller gets ZeroDivisionError, an internal error, instead of the descriptive refusal", line=x.lineno)
                else:
                    rep.unk(rule, f.site, what, f"`{p}` is divided by and nothing in this function validates it")
    rep.ok(rule, "-", "divisions by parameters come after their validation", f"{n} division(s) by a parameter examined", nontrivial=n > 0)


# ---- C19.21 what a private helper asserts about a public parameter, the public side refuses --------------------------
def asserted_parameters(rep, idx, rule="C19.21"):
    """An `assert` states what the code relies on; it is not a refusal (python -O removes it, and when it does fire the caller sees
    a bare AssertionError).  When the value a private helper asserts something about is a *public constructor parameter* handed
    through unchanged -- `Multiplexer(shadow_overlaps=...)` -> `self._shadow_overlaps` -> `_Shadow(..., overlaps)` -> `assert overlaps
    is None or isinstance(overlaps, int) and overlaps >= 0` -- the public constructor has to refuse the bad values itself.  Otherwise
    an illegal argument is accepted and the component dies with an internal AssertionError when it is elaborated."""
    n = 0
    funcs = list(idx.all_functions())
    for g in funcs:
        gparams = [p for p in g.params if p not in ("self", "cls")]
        asserts = []
        for a in ast.walk(g.node):
            if isinstance(a, ast.Assert):
                names = {x.id for x in ast.walk(a.test) if isinstance(x, ast.Name)}
                about = [p for p in gparams if p in names]
                if about and not any(isinstance(x, ast.Attribute) and isinstance(x.value, ast.Name) and x.value.id == "self" for x in ast.walk(a.test)):
                    asserts.append((a, about))
        if not asserts:
            continue
        # call sites of g: Cls(...) for a constructor, x.name(...) / name(...) otherwise
        gname = g.cls.name if (g.name == "__init__" and g.cls is not None) else g.name
        for f in funcs:
            if f.cls is None or f is g:
                continue
            for call in ast.walk(f.node):
                if not isinstance(call, ast.Call):
                    continue
                cn = call.func.attr if isinstance(call.func, ast.Attribute) else (call.func.id if isinstance(call.func, ast.Name) else None)
                if cn != gname:
                    continue
                binding = dict(zip(gparams, call.args))
                binding.update({k.arg: k.value for k in call.keywords if k.arg})
                for a, about in asserts:
                    for p in about:
                        arg = binding.get(p)
                        if arg is None:
                            continue
                        # the actual argument is self.<attr> that __init__ stores straight from a constructor parameter q
                        q = None
                        init = f.cls.method("__init__")
                        if isinstance(arg, ast.Attribute) and isinstance(arg.value, ast.Name) and arg.value.id == "self" and init is not None:
                            for st in ast.walk(init.node):
                                if isinstance(st, ast.Assign) and len(st.targets) == 1 and isinstance(st.targets[0], ast.Attribute) and \
                                        isinstance(st.targets[0].value, ast.Name) and st.targets[0].value.id == "self" and \
                                        st.targets[0].attr == arg.attr and isinstance(st.value, ast.Name) and st.value.id in init.params:
                                    q = st.value.id
                                # self._x = self._check(q): handed through a helper of the class
                                if isinstance(st, ast.Assign) and len(st.targets) == 1 and isinstance(st.targets[0], ast.Attribute) and \
                                        isinstance(st.targets[0].value, ast.Name) and st.targets[0].value.id == "self" and \
                                        st.targets[0].attr == arg.attr and isinstance(st.value, ast.Call) and len(st.value.args) == 1 and \
                                        isinstance(st.value.args[0], ast.Name) and st.value.args[0].id in init.params and \
                                        isinstance(st.value.func, ast.Attribute) and isinstance(st.value.func.value, ast.Name) and \
                                        st.value.func.value.id in ("self", "cls"):
                                    q = st.value.args[0].id
                        elif isinstance(arg, ast.Name) and f.name == "__init__" and arg.id in f.params:
                            q, init = arg.id, f
                        if q is None or f.cls.name.startswith("_"):
                            continue
                        n += 1
                        # names that stand for a verdict on q: a local flag bound to an expression that mentions q
                        about_q = {q}
                        for x in ast.walk(init.node):
                            if isinstance(x, ast.Assign) and len(x.targets) == 1 and isinstance(x.targets[0], ast.Name) and \
                                    any(isinstance(y, ast.Name) and y.id == q for y in ast.walk(x.value)):
                                about_q.add(x.targets[0].id)
                        refusals = [x for x in ast.walk(init.node) if isinstance(x, ast.If) and any(isinstance(y, ast.Raise) for y in ast.walk(x)) and
                                    any(isinstance(y, ast.Name) and y.id in about_q for y in ast.walk(x.test))]
                        # ... or hands it to a helper of the class / module that raises (self._check_overlaps(shadow_overlaps))
                        for x in ast.walk(init.node):
                            if isinstance(x, ast.Call) and any(isinstance(y, ast.Name) and y.id == q for y in list(x.args) + [k.value for k in x.keywords]):
                                h = None
                                if isinstance(x.func, ast.Attribute) and isinstance(x.func.value, ast.Name) and x.func.value.id in ("self", "cls"):
                                    h = idx.lookup_method(f.cls, x.func.attr)
                                elif isinstance(x.func, ast.Name):
                                    h = idx.resolve_function(f.module, x.func.id)
                                if h is not None and h.node is not g.node and any(isinstance(y, ast.Raise) for y in ast.walk(h.node)):
                                    refusals.append(x)
                        what = f"{f.cls.qual}({q}=...) reaches `assert {ast.unparse(a.test)[:70]}` in {g.qual}"
                        if refusals:
                            # the refusal has to cover what the assert demands: every value that falsifies the assert is refused
                            verdict, detail = None, ""
                            try:
                                from .common import get_fn, refuses

                                class _Ren(ast.NodeTransformer):
                                    def visit_Name(self, node):
                                        return ast.copy_location(ast.Name(id=q, ctx=node.ctx), node) if node.id == p else node
                                import copy as _copy
                                atext = ast.unparse(_Ren().visit(_copy.deepcopy(a.test)))
                                only_q = {x.id for x in ast.walk(a.test) if isinstance(x, ast.Name)} - {p} <= \
                                    {"isinstance", "int", "str", "bool", "len", "None", "tuple", "list", "dict", "set", "frozenset", "float"}
                                if only_q:
                                    verdict, detail = refuses(get_fn(idx, init), f"not ({atext})", None)
                            except Exception as e_:
                                verdict, detail = None, f"{type(e_).__name__}: {e_}"
                            helper_calls = [x for x in refusals if isinstance(x, ast.Call)]
                            if verdict is not True and helper_calls:
                                # the validation sits in a helper: decide it there, with the helper's own name for the value
                                verdict = None
                                for x in helper_calls:
                                    try:
                                        if isinstance(x.func, ast.Attribute):
                                            h = idx.lookup_method(f.cls, x.func.attr)
                                        else:
                                            h = idx.resolve_function(f.module, x.func.id)
                                        hp = [p_ for p_ in h.params if p_ not in ("self", "cls")]
                                        hb = dict(zip(hp, x.args))
                                        hb.update({k.arg: k.value for k in x.keywords if k.arg})
                                        hq = next((k_ for k_, v_ in hb.items() if isinstance(v_, ast.Name) and v_.id == q), None)
                                        if hq is None:
                                            continue

                                        class _Ren2(ast.NodeTransformer):
                                            def visit_Name(self, node):
                                                return ast.copy_location(ast.Name(id=hq, ctx=node.ctx), node) if node.id == p else node
                                        htext = ast.unparse(_Ren2().visit(_copy.deepcopy(a.test)))
                                        v2, d2 = refuses(get_fn(idx, h), f"not ({htext})", None)
                                        if v2:
                                            verdict, detail = True, f"in {h.qual}: {d2}"
                                            break
                                        detail = f"in {h.qual}: {d2}"
                                    except Exception as e_:
                                        detail = f"{type(e_).__name__}: {e_}"
                            if verdict is False:
                                rep.bad(rule, init.site, what,
                                        f"the constructor tests `{q}` (line {refusals[0].lineno}) but does not refuse every value for which "
                                        f"`{atext}` is false: such a value is accepted and the component fails with a bare AssertionError when it "
                                        f"is elaborated ({detail})", line=refusals[0].lineno)
                            elif verdict is None and detail:
                                rep.unk(rule, init.site, what, f"the constructor tests `{q}` (line {refusals[0].lineno}); whether the refusal covers "
                                        f"the assert is not decided: {detail}")
                            else:
                                rep.ok(rule, init.site, what, f"the constructor refuses on `{q}` first (line {refusals[0].lineno})"
                                       + (f": {detail}" if verdict else ""), nontrivial=False)
                        else:
                            rep.bad(rule, init.site, what,
                                    f"the public parameter `{q}` is stored and handed on unchecked; the only statement about its legal values is this "
                                    f"assert in a private helper: an illegal `{q}` is accepted by the constructor and the component fails with a bare "
                                    "AssertionError when it is elaborated (and is not checked at all under python -O)", line=a.lineno)
    rep.ok(rule, "-", "what private helpers assert about public parameters is refused by the public constructor", f"{n} parameter path(s) examined",
           nontrivial=n > 0)


# ---- C19.11 identity comparison between values -------------------------------------------------------------------
def identity_comparisons(rep, idx, rule="C19.11", classes=None):
    """`a is b` / `a is not b` where neither side is None, True, False, Ellipsis or a name that denotes a class / enum member /
    sentinel object: identity of integers, strings and tuples is an implementation detail (small-int cache, interning), so
    the test is true for the values the unit tests use and false for larger ones."""
    wanted = None if classes is None else set(classes)
    n = 0
    for f in idx.all_functions():
        if wanted is not None and not (f.cls is not None and (f.cls.qual in wanted or f.cls.name in wanted or
                                                              any(f.cls.qual.startswith(w + ".") for w in wanted))):
            continue
        for x in ast.walk(f.node):
            if not isinstance(x, ast.Compare):
                continue
            left = x.left
            for op, right in zip(x.ops, x.comparators):
                if isinstance(op, (ast.Is, ast.IsNot)):
                    n += 1
                    def singleton(e):
                        if isinstance(e, ast.Constant) and (e.value is None or e.value is True or e.value is False or e.value is Ellipsis):
                            return True
                        # Enum members, classes and module-level sentinels are compared by identity on purpose
                        if isinstance(e, ast.Attribute) and e.attr[:1].isupper():
                            return True
                        if isinstance(e, ast.Name) and (e.id[:1].isupper() or e.id.isupper()):
                            return True
                        # the instance itself is an object, not a value: `other is self` asks for the same object on purpose
                        if isinstance(e, ast.Name) and e.id == "self" and f.params[:1] == ["self"]:
                            return True
                        # a local sentinel: name = object(), bound once
                        if isinstance(e, ast.Name):
                            defs = [s for s in ast.walk(f.node) if isinstance(s, ast.Assign) and any(isinstance(t, ast.Name) and t.id == e.id for t in s.targets)]
                            if len(defs) == 1 and isinstance(defs[0].value, ast.Call) and isinstance(defs[0].value.func, ast.Name) and \
                                    defs[0].value.func.id == "object" and not defs[0].value.args:
                                return True
                        return False
                    if not (singleton(left) or singleton(right)):
                        VALUE_CALLS = ("len", "int", "str", "tuple", "sum", "max", "min", "abs", "repr", "format", "ceil_log2", "exact_log2",
                                       "log2", "round", "ord", "chr", "hash", "frozenset", "bytes", "float", "divmod", "pow")
                        VALUE_METHODS = ("count", "index", "bit_length", "join", "upper", "lower", "strip", "format", "find")

                        def evidently_value(e):
                            if isinstance(e, ast.BinOp):
                                return True
                            if isinstance(e, ast.Constant) and isinstance(e.value, (int, str, tuple)) and not isinstance(e.value, bool):
                                return True
                            if isinstance(e, (ast.Tuple, ast.JoinedStr)):
                                return True
                            if isinstance(e, ast.Call):
                                if isinstance(e.func, ast.Name) and e.func.id in VALUE_CALLS:
                                    return True
                                if isinstance(e.func, ast.Attribute) and e.func.attr in VALUE_METHODS:
                                    return True
                            if isinstance(e, ast.Subscript) and isinstance(e.slice, ast.Slice):
                                return True                 # a slice is a fresh tuple / string / list
                            if isinstance(e, ast.Attribute) and e.attr in ("start", "stop", "step", "width", "addr_width", "data_width",
                                                                           "granularity", "alignment", "size", "name"):
                                return True
                            return False

                        def object_ref(e):
                            # an attribute chain on self / a parameter, or a local bound only to such chains: a reference to an object
                            if isinstance(e, ast.Attribute) and not evidently_value(e):
                                return True
                            if isinstance(e, ast.Name):
                                bs = [s_.value for s_ in ast.walk(f.node) if isinstance(s_, ast.Assign) and
                                      any(isinstance(t, ast.Name) and t.id == e.id for t in s_.targets)]
                                return bool(bs) and all(isinstance(b_, ast.Attribute) and not evidently_value(b_) for b_ in bs)
                            return False
                        if (object_ref(left) or object_ref(right)) and not (evidently_value(left) or evidently_value(right)):
                            rep.ok(rule, f.site, f"`{ast.unparse(x)[:60]}`", "identity of an object reference (a map, a bus, a signal) kept by the "
                                   "instance: that is what `is` asks", nontrivial=False)
                            left = right
                            continue
                        arith = any(evidently_value(e) or (isinstance(e, ast.Subscript) and not object_ref(left) and not object_ref(right)) or
                                    isinstance(e, ast.Call) for e in (left, right))
                        what = f"`{ast.unparse(x)[:60]}`"
                        # names bound from arithmetic / subscripts in the same function are values, too
                        def value_name(e):
                            if not isinstance(e, ast.Name):
                                return False
                            for s in ast.walk(f.node):
                                if isinstance(s, ast.Assign) and any(isinstance(t, ast.Name) and t.id == e.id for t in s.targets) and \
                                        isinstance(s.value, (ast.BinOp, ast.Subscript, ast.Call, ast.Constant)):
                                    return True
                            return False
                        if arith or value_name(left) or value_name(right):
                            rep.bad(rule, f.site, what, "identity comparison between computed values (integers, strings, tuples): true only while "
                                    "CPython happens to share the object (integers up to 256), false for the same value otherwise", line=x.lineno)
                        else:
                            rep.unk(rule, f.site, what, "identity comparison whose operands are neither singletons nor evidently values")
                left = right
    rep.ok(rule, "-", "`is` / `is not` are used with singletons only", f"{n} identity comparison(s) examined", nontrivial=False)


# ---- C19.10 closures created in a loop do not capture the loop variable late ------------------------------------
def _free_loads(fn):
    """Names a lambda / nested def reads that it does not bind itself."""
    bound = {a.arg for a in fn.args.args + fn.args.kwonlyargs + fn.args.posonlyargs}
    if fn.args.vararg:
        bound.add(fn.args.vararg.arg)
    if fn.args.kwarg:
        bound.add(fn.args.kwarg.arg)
    body = fn.body if isinstance(fn.body, list) else [fn.body]
    loads = set()
    for s in body:
        for x in ast.walk(s):
            if isinstance(x, ast.Name):
                if isinstance(x.ctx, ast.Load):
                    loads.add(x.id)
                else:
                    bound.add(x.id)
            elif isinstance(x, ast.comprehension):
                for y in ast.walk(x.target):
                    if isinstance(y, ast.Name):
                        bound.add(y.id)
    # default values are evaluated at definition time: `lambda x=x: ...` is the standard early-binding idiom
    return loads - bound


def late_binding(rep, idx):
    n = 0
    for f in idx.all_functions():
        par = None
        for loop in ast.walk(f.node):
            if not isinstance(loop, (ast.For, ast.comprehension)):
                continue
            tv = {x.id for x in ast.walk(loop.target) if isinstance(x, ast.Name)}
            body = loop.body if isinstance(loop, ast.For) else []
            for s in body:
                for fn in ast.walk(s):
                    if not isinstance(fn, (ast.Lambda, ast.FunctionDef)):
                        continue
                    captured = _free_loads(fn) & tv
                    if not captured:
                        continue
                    n += 1
                    if par is None:
                        par = _parents(f.node)
                    what = f"closure at line {fn.lineno} reads loop variable(s) {sorted(captured)}"
                    p = par.get(fn)
                    immediate = False
                    if isinstance(fn, ast.Lambda):
                        # consumed on the spot: key= of sorted/min/max/sort, or called directly, or argument of map/filter inside
                        # a consuming call
                        if isinstance(p, ast.keyword) and p.arg == "key":
                            immediate = True
                        if isinstance(p, ast.Call) and p.func is fn:
                            immediate = True
                    else:
                        uses = [x for x in ast.walk(loop) if isinstance(x, ast.Name) and x.id == fn.name and isinstance(x.ctx, ast.Load)]
                        outside = [x for x in ast.walk(f.node) if isinstance(x, ast.Name) and x.id == fn.name and isinstance(x.ctx, ast.Load)
                                   and not any(x is y for y in uses)]
                        immediate = bool(uses) and not outside and all(isinstance(par.get(x), ast.Call) and par[x].func is x for x in uses)
                    if immediate:
                        rep.ok("C19.10", f.site, what, "used only within the iteration that creates it")
                    else:
                        rep.bad("C19.10", f.site, what, "the closure outlives the iteration (stored / returned / passed on): Python binds the "
                                "variable, not its value, so every such closure sees the loop's last element when it is finally called",
                                line=fn.lineno)
    rep.ok("C19.10", "-", "closures created inside loops were checked for late binding of the loop variable", f"{n} capturing closure(s)",
           nontrivial=False)


# ---- C19.8 reducers without an identity over possibly-empty sequences ----------------------------------
REGISTRY_ITERS = ("window_patterns", "windows", "resources", "all_resources", "sources", "_subs", "_intrs", "flatten",
                  "registers", "chunks", "_registers", "_sources")


def _parents(fn_node):
    par = {}
    for n in ast.walk(fn_node):
        for ch in ast.iter_child_nodes(n):
            par[ch] = n
    return par


def _ancestors(node, par):
    out = []
    while node in par:
        child, node = node, par[node]
        out.append((node, child))
    return out


def _blocks_of(node):
    for fld in ("body", "orelse", "finalbody"):
        b = getattr(node, fld, None)
        if isinstance(b, list) and b and isinstance(b[0], ast.stmt):
            yield b
    for h in getattr(node, "handlers", []) or []:
        yield h.body


def _block_and_index(stmt, par):
    p = par.get(stmt)
    if p is None:
        return None, None
    for b in _blocks_of(p):
        for i, s in enumerate(b):
            if s is stmt:
                return b, i
    return None, None


def _iter_is(it, source_text, f):
    if ast.unparse(it) == source_text:
        return True
    if isinstance(it, ast.Call) and isinstance(it.func, ast.Name) and it.func.id in ("sorted", "list", "tuple", "reversed") and it.args \
            and ast.unparse(it.args[0]) == source_text:
        return True
    if isinstance(it, ast.Name):
        defs = [n for n in ast.walk(f.node) if isinstance(n, ast.Assign) and len(n.targets) == 1 and
                isinstance(n.targets[0], ast.Name) and n.targets[0].id == it.id]
        if len(defs) == 1 and isinstance(defs[0].value, (ast.List, ast.Call)) and (
                (isinstance(defs[0].value, ast.List) and not defs[0].value.elts) or
                (isinstance(defs[0].value, ast.Call) and isinstance(defs[0].value.func, ast.Name) and defs[0].value.func.id == "list" and
                 not defs[0].value.args)):
            # a local list that starts empty and only ever receives elements inside loops over the collection: it has an element
            # only if the collection has one
            par_ = _parents(f.node)
            fills = [n for n in ast.walk(f.node) if isinstance(n, ast.Call) and (
                (isinstance(n.func, ast.Attribute) and isinstance(n.func.value, ast.Name) and n.func.value.id == it.id and
                 n.func.attr in ("append", "insert", "extend", "add")) or
                (ast.unparse(n.func).split(".")[-1] in ("insort", "insort_left", "insort_right", "heappush") and n.args and
                 isinstance(n.args[0], ast.Name) and n.args[0].id == it.id))]
            def in_source_loop(n):
                while n in par_:
                    n = par_[n]
                    if isinstance(n, ast.For) and (ast.unparse(n.iter) == source_text or
                                                   (not isinstance(n.iter, ast.Name) and _iter_is(n.iter, source_text, f))):
                        return True
                return False
            if fills and all(in_source_loop(n) for n in fills):
                return True
        if len(defs) == 1:
            return _iter_is(defs[0].value, source_text, f) if not isinstance(defs[0].value, ast.Name) else ast.unparse(defs[0].value) == source_text
    # a memo of the collection kept on the instance: every value ever stored in self.<memo> is None or a sorted / listed copy of the
    # collection, and the collection never loses an element -- an element of the memo is (still) an element of the collection
    if isinstance(it, ast.Attribute) and isinstance(it.value, ast.Name) and it.value.id == "self" and f.cls is not None and \
            source_text.startswith("self."):
        stores = [n for fs in f.cls.methods.values() for g in fs for n in ast.walk(g.node)
                  if isinstance(n, (ast.Assign, ast.AugAssign, ast.AnnAssign)) and
                  any(isinstance(t, ast.Attribute) and isinstance(t.value, ast.Name) and t.value.id == "self" and t.attr == it.attr
                      for t in (n.targets if isinstance(n, ast.Assign) else [n.target]))]
        copies = [n for n in stores if not (isinstance(n, ast.Assign) and isinstance(n.value, ast.Constant) and n.value.value is None)]
        mutated = any(isinstance(n, ast.Call) and isinstance(n.func, ast.Attribute) and ast.unparse(n.func.value) in (source_text, ast.unparse(it)) and
                      n.func.attr in ("remove", "discard", "pop", "clear", "difference_update", "intersection_update", "append", "insert", "extend")
                      and not (ast.unparse(n.func.value) == source_text and n.func.attr in ("append", "insert", "extend"))
                      for fs in f.cls.methods.values() for g in fs for n in ast.walk(g.node))
        if copies and not mutated and all(isinstance(n, ast.Assign) and isinstance(n.value, ast.Call) and isinstance(n.value.func, ast.Name) and
                                          n.value.func.id in ("sorted", "list", "tuple") and n.value.args and
                                          ast.unparse(n.value.args[0]) == source_text for n in copies):
            return True
    return False


def _flag_proves_nonempty(call, source_text, f, par):
    """The call sits where `FLAG` is known false; FLAG is set True in a block, and cleared only inside a following loop
    (same block) over (a sorted / listed copy of) the same collection: the loop body ran, so the collection has an
    element.  `FLAG is false` is known in the else-branch of `if FLAG`, the body of `if not FLAG`, or after an
    `if FLAG: break / return / continue / raise` earlier in an enclosing block."""
    flags = {}
    for n in ast.walk(f.node):
        if isinstance(n, ast.Assign) and len(n.targets) == 1 and isinstance(n.targets[0], ast.Name) and \
                isinstance(n.value, ast.Constant) and isinstance(n.value.value, bool):
            flags.setdefault(n.targets[0].id, []).append(n)
    chain = _ancestors(call, par)                       # (ancestor, child) pairs, innermost first
    for flag, sets in flags.items():
        others = [n for n in ast.walk(f.node) if isinstance(n, ast.Name) and n.id == flag and isinstance(n.ctx, (ast.Store, ast.Del))]
        if len(others) != len(sets):
            continue                                    # assigned in some other way too
        trues = [s for s in sets if s.value.value is True]
        falses = [s for s in sets if s.value.value is False]
        if len(trues) != 1 or not falses:
            continue
        T = trues[0]
        B, ti = _block_and_index(T, par)
        if B is None:
            continue
        # the clearing loop: a For in B after T that contains every False-assignment and iterates the collection
        loops = [s for s in B[ti + 1:] if isinstance(s, ast.For) and all(any(x is fs for x in ast.walk(s)) for fs in falses)]
        if len(loops) != 1 or not _iter_is(loops[0].iter, source_text, f):
            continue
        li = B.index(loops[0])
        # where is the call relative to B?
        top = None
        for anc, child in [(None, call)] + chain:
            node = child if anc is None else child
            if any(node is s for s in B[li + 1:]):
                top = node
        if top is None:
            continue
        # knowledge that FLAG is false at the call
        known = False
        for anc, child in chain:
            if isinstance(anc, ast.If):
                t = anc.test
                if isinstance(t, ast.Name) and t.id == flag and any(child is s for s in anc.orelse):
                    known = True
                if isinstance(t, ast.UnaryOp) and isinstance(t.op, ast.Not) and isinstance(t.operand, ast.Name) and t.operand.id == flag \
                        and any(child is s for s in anc.body):
                    known = True
            if anc is par.get(T) or child is top:
                pass
        # after `if FLAG: <terminator>` in an enclosing block at or below B
        node = call
        while node is not None and not known:
            blk, k = _block_and_index(node, par) if isinstance(node, ast.stmt) else (None, None)
            if blk is not None:
                lo = li + 1 if blk is B else 0
                for s in blk[lo:k]:
                    if isinstance(s, ast.If) and isinstance(s.test, ast.Name) and s.test.id == flag and not s.orelse and s.body and \
                            isinstance(s.body[-1], (ast.Break, ast.Return, ast.Continue, ast.Raise)):
                        known = True
                if blk is B:
                    break
            node = par.get(node)
        if known:
            return (f"reached only where `{flag}` is false; `{flag}` is cleared only inside the loop over {source_text} at line "
                    f"{loops[0].lineno}, so that collection has an element")
    return None


def _none_result_proves_nonempty(call, source_text, f, par, idx):
    """The call sits where `V is None` is known, V = self.<helper>(...) assigned once before it, and the helper returns None only
    from inside a loop over the same collection (its last statement returns something that is not None): the loop body
    ran, so the collection has an element.  `V is None` is known after `if V is not None: ...; return/raise/continue/break`,
    in the body of `if V is None:` and in the else-branch of `if V is not None:`."""
    if f.cls is None or idx is None:
        return None
    cands = {}
    for n in ast.walk(f.node):
        if isinstance(n, ast.Assign) and len(n.targets) == 1 and isinstance(n.targets[0], ast.Name) and isinstance(n.value, ast.Call) and \
                isinstance(n.value.func, ast.Attribute) and isinstance(n.value.func.value, ast.Name) and n.value.func.value.id == "self":
            cands.setdefault(n.targets[0].id, []).append(n)

    def is_none_test(t, v, positive):
        """t is `v is None` (positive) / `v is not None` (not positive)"""
        return isinstance(t, ast.Compare) and len(t.ops) == 1 and isinstance(t.left, ast.Name) and t.left.id == v and \
            isinstance(t.comparators[0], ast.Constant) and t.comparators[0].value is None and \
            isinstance(t.ops[0], ast.Is if positive else ast.IsNot)
    chain = _ancestors(call, par)
    for v, defs in cands.items():
        stores = [n for n in ast.walk(f.node) if isinstance(n, ast.Name) and n.id == v and isinstance(n.ctx, (ast.Store, ast.Del))]
        if len(defs) != 1 or len(stores) != 1:
            continue
        h = idx.lookup_method(f.cls, defs[0].value.func.attr)
        if h is None or h.node is f.node:
            continue
        body = [s for s in h.node.body if not (isinstance(s, ast.Expr) and isinstance(s.value, ast.Constant))]
        last = body[-1] if body else None
        if not (isinstance(last, ast.Return) and last.value is not None and not (isinstance(last.value, ast.Constant) and last.value.value is None)):
            continue
        hpar = _parents(h.node)
        nones = [r for r in ast.walk(h.node) if isinstance(r, ast.Return) and (r.value is None or (isinstance(r.value, ast.Constant) and r.value.value is None))]
        others = [r for r in ast.walk(h.node) if isinstance(r, ast.Return) and r not in nones and r is not last]
        if not nones or any(isinstance(r.value, (ast.Name, ast.Attribute, ast.Call, ast.IfExp)) for r in others):
            continue                                    # another return might hand back None as well
        if not all(any(isinstance(a, ast.For) and _iter_is(a.iter, source_text, h) for a, _ in _ancestors(r, hpar)) for r in nones):
            continue
        known = False
        for anc, child in chain:
            if isinstance(anc, ast.If):
                if is_none_test(anc.test, v, True) and any(child is s for s in anc.body):
                    known = True
                if is_none_test(anc.test, v, False) and any(child is s for s in anc.orelse):
                    known = True
        node = call
        while node is not None and not known:
            blk, k = _block_and_index(node, par) if isinstance(node, ast.stmt) else (None, None)
            if blk is not None:
                for s in blk[:k]:
                    if isinstance(s, ast.If) and is_none_test(s.test, v, False) and not s.orelse and s.body and \
                            isinstance(s.body[-1], (ast.Break, ast.Return, ast.Continue, ast.Raise)):
                        # the assignment must precede the test
                        if defs[0].lineno <= s.lineno:
                            known = True
            node = par.get(node)
        if known:
            return (f"reached only where `{v}` is None; {h.qual}() returns None only from inside its loop over {source_text}, so that "
                    "collection has an element")
    # the same inside `while (V := self.<helper>(<collection>)) is None:` -- the body runs only after the helper has returned None
    for anc, child in chain:
        if not (isinstance(anc, ast.While) and any(child is s for s in anc.body)):
            continue
        t = anc.test
        if not (isinstance(t, ast.Compare) and len(t.ops) == 1 and isinstance(t.ops[0], ast.Is) and isinstance(t.comparators[0], ast.Constant) and
                t.comparators[0].value is None and isinstance(t.left, ast.NamedExpr) and isinstance(t.left.value, ast.Call) and
                isinstance(t.left.value.func, ast.Attribute) and isinstance(t.left.value.func.value, ast.Name) and t.left.value.func.value.id == "self"):
            continue
        hc = t.left.value
        h = idx.lookup_method(f.cls, hc.func.attr)
        if h is None or h.node is f.node:
            continue
        params = [a.arg for a in h.node.args.args][1:]
        pos = [i_ for i_, a_ in enumerate(hc.args) if ast.unparse(a_) == source_text]
        if len(pos) != 1 or pos[0] >= len(params):
            continue
        pname = params[pos[0]]
        if any(isinstance(n, ast.Name) and n.id == pname and isinstance(n.ctx, ast.Store) for n in ast.walk(h.node)):
            continue
        body = [s for s in h.node.body if not (isinstance(s, ast.Expr) and isinstance(s.value, ast.Constant))]
        last = body[-1] if body else None
        if not (isinstance(last, ast.Return) and last.value is not None and not (isinstance(last.value, ast.Constant) and last.value.value is None)):
            continue
        # the value returned at the end must not be None: a container built in the helper
        if isinstance(last.value, ast.Name):
            made = [n for n in ast.walk(h.node) if isinstance(n, ast.Assign) and len(n.targets) == 1 and isinstance(n.targets[0], ast.Name) and
                    n.targets[0].id == last.value.id]
            if not made or not all(isinstance(n.value, (ast.Dict, ast.List, ast.Set, ast.Tuple)) or
                                   (isinstance(n.value, ast.Call) and isinstance(n.value.func, ast.Name) and n.value.func.id in
                                    ("dict", "list", "set", "defaultdict", "tuple")) for n in made):
                continue
        elif not isinstance(last.value, (ast.Dict, ast.List, ast.Set, ast.Tuple, ast.Constant)):
            continue
        hpar = _parents(h.node)
        nones = [r for r in ast.walk(h.node) if isinstance(r, ast.Return) and (r.value is None or (isinstance(r.value, ast.Constant) and r.value.value is None))]
        others = [r for r in ast.walk(h.node) if isinstance(r, ast.Return) and r not in nones and r is not last]
        if not nones or others:
            continue
        if all(any(isinstance(a, ast.For) and isinstance(a.iter, ast.Name) and a.iter.id == pname for a, _ in _ancestors(r, hpar)) for r in nones):
            return (f"inside `while ({t.left.target.id} := self.{hc.func.attr}(...)) is None`; {h.qual}() returns None only from inside its loop over "
                    f"its parameter `{pname}` (= {source_text}), so that collection has an element")
    return None


def _local_list_emptiness(name, f, par):
    """-> ('nonempty'|'maybe-empty'|'unknown', why) for a local list filled with append()."""
    inits = [n for n in ast.walk(f.node) if isinstance(n, ast.Assign) and len(n.targets) == 1 and
             isinstance(n.targets[0], ast.Name) and n.targets[0].id == name]
    if len(inits) != 1 or not isinstance(inits[0].value, (ast.List, ast.ListComp)):
        return "unknown", f"`{name}` is not a local list with a single initialisation"
    init = inits[0].value
    if isinstance(init, ast.List) and init.elts:
        return "nonempty", f"`{name}` starts with {len(init.elts)} element(s)"
    if isinstance(init, ast.ListComp):
        src = ast.unparse(init.generators[0].iter)
        if any(k in src for k in REGISTRY_ITERS):
            return "maybe-empty", f"`{name}` is a comprehension over {src}, which is empty for a component without entries"
        return "unknown", f"`{name}` is a comprehension over {src}"
    apps = [n for n in ast.walk(f.node) if isinstance(n, ast.Call) and isinstance(n.func, ast.Attribute) and
            n.func.attr in ("append", "extend", "insert") and isinstance(n.func.value, ast.Name) and n.func.value.id == name]
    if not apps:
        return "maybe-empty", f"`{name}` starts empty and nothing is ever appended"
    conds = []
    for a in apps:
        ctx = [x for x, _ in _ancestors(a, par) if isinstance(x, (ast.For, ast.While, ast.If, ast.Try))]
        if not ctx and a.func.attr == "append":
            return "nonempty", f"`{name}` receives an unconditional append at line {a.lineno}"
        conds.append(ctx)
    witnessed = True
    for ctx in conds:
        w = False
        for x in ctx:
            if isinstance(x, ast.For) and any(k in ast.unparse(x.iter) for k in REGISTRY_ITERS):
                w = True
            if isinstance(x, ast.If) and ("hasattr" in ast.unparse(x.test) or "features" in ast.unparse(x.test)):
                w = True
        witnessed = witnessed and w
    if witnessed:
        return "maybe-empty", (f"every append to `{name}` is inside a loop over the component's entries or under a feature test "
                               f"(line(s) {sorted(a.lineno for a in apps)}): a component without entries / without the feature leaves it empty")
    return "unknown", f"appends to `{name}` are conditional (line(s) {sorted(a.lineno for a in apps)}) and the conditions are not understood"


def _attr_emptiness(attr, f, par, call):
    """self.<attr> created empty by the constructor and filled only by other methods: an instance on which those were
    never called reaches the reducer with an empty collection."""
    cls = f.cls
    if cls is None:
        return "unknown", "not a method"
    init = cls.method("__init__")
    if init is None:
        return "unknown", "no constructor"
    creates = [n for n in ast.walk(init.node) if isinstance(n, ast.Assign) and len(n.targets) == 1 and
               isinstance(n.targets[0], ast.Attribute) and isinstance(n.targets[0].value, ast.Name) and
               n.targets[0].value.id == "self" and n.targets[0].attr == attr]
    if len(creates) != 1:
        return "unknown", f"self.{attr} is not created exactly once in the constructor"
    v = creates[0].value
    empty = isinstance(v, (ast.List, ast.Set, ast.Dict, ast.Tuple)) and not (getattr(v, "elts", None) or getattr(v, "keys", None)) or \
        isinstance(v, ast.Call) and isinstance(v.func, ast.Name) and v.func.id in ("set", "list", "dict", "frozenset", "tuple", "OrderedDict") and \
        not v.args and not v.keywords
    if not empty:
        return "unknown", f"self.{attr} is created as {ast.unparse(v)[:40]}"
    fill = ("add", "append", "extend", "insert", "update", "setdefault")

    def fills(node):
        for n in ast.walk(node):
            if isinstance(n, ast.Call) and isinstance(n.func, ast.Attribute) and n.func.attr in fill and \
                    ast.unparse(n.func.value) == f"self.{attr}":
                yield n
            if isinstance(n, (ast.Assign, ast.AugAssign)):
                for t in (n.targets if isinstance(n, ast.Assign) else [n.target]):
                    if isinstance(t, ast.Subscript) and ast.unparse(t.value) == f"self.{attr}":
                        yield n
    if any(True for _ in fills(init.node)):
        return "unknown", f"the constructor itself fills self.{attr}"
    here = [n for n in fills(f.node) if n.lineno < call.lineno]
    if here:
        return "unknown", f"self.{attr} is filled earlier in this function"
    fillers = sorted({m for m, fs in cls.methods.items() for g in fs if m != "__init__" and any(True for _ in fills(g.node))})
    return "maybe-empty", (f"self.{attr} is created empty by the constructor and filled only by {', '.join(x + '()' for x in fillers) or 'nothing'}: "
                           "an instance on which that was never called (e.g. a multiplexer without readable, or without writable, registers) "
                           "reaches this call with an empty collection")


# iterators of the package's own containers that yield nothing for accepted parameters (one line of reason each)
MAYBE_EMPTY_CALLS = {
    "sources": "an EventMap without sources is accepted by event.Monitor and csr.EventMonitor",
    "resources": "a MemoryMap without resources is accepted (e.g. a decoder before anything is added)",
    "windows": "a MemoryMap without windows is accepted",
    "all_resources": "a MemoryMap without resources is accepted",
    "window_patterns": "a MemoryMap without windows is accepted",
}


def partial_reducers(rep, idx):
    """reduce(f, seq) without initial value, max()/min() of one iterable without default=, next(it) without default:
    they raise TypeError / ValueError / StopIteration on an empty sequence -- an internal error, not a refusal."""
    n_sites = 0
    for f in idx.all_functions():
        par = None
        # a, b = zip(*seq): transposing an empty sequence gives nothing to unpack
        for n in ast.walk(f.node):
            if isinstance(n, ast.Assign) and len(n.targets) == 1 and isinstance(n.targets[0], (ast.Tuple, ast.List)) and n.targets[0].elts and \
                    not any(isinstance(e, ast.Starred) for e in n.targets[0].elts) and isinstance(n.value, ast.Call) and \
                    isinstance(n.value.func, ast.Name) and n.value.func.id == "zip" and len(n.value.args) == 1 and isinstance(n.value.args[0], ast.Starred):
                src = n.value.args[0].value
                n_sites += 1
                what = f"{ast.unparse(n)[:70]}: the transposed sequence has an element whenever this is reached"
                fails = f"ValueError: not enough values to unpack (expected {len(n.targets[0].elts)}, got 0)"
                callee = src.func.attr if isinstance(src, ast.Call) and isinstance(src.func, ast.Attribute) else None
                if isinstance(src, (ast.List, ast.Tuple)) and src.elts:
                    rep.ok("C19.8", f.site, what, "literal with at least one element")
                elif callee in MAYBE_EMPTY_CALLS and not src.args:
                    rep.bad("C19.8", f.site, what, f"{MAYBE_EMPTY_CALLS[callee]}; zip(*[]) yields nothing and the unpacking fails with {fails}",
                            line=n.lineno)
                else:
                    rep.unk("C19.8", f.site, what, f"the argument is not a collection the analysis can size; on an empty sequence the unpacking fails with {fails}")
        if f.site in getattr(idx, "fully_opened", ()):
            continue                                    # a new helper opened at every call site: judged in its callers' context
        for n in ast.walk(f.node):
            if not (isinstance(n, ast.Call) and isinstance(n.func, (ast.Name, ast.Attribute))):
                continue
            fname = n.func.id if isinstance(n.func, ast.Name) else n.func.attr
            kws = {k.arg for k in n.keywords}
            seq = None
            if fname == "reduce" and len(n.args) == 2 and "initial" not in kws:
                seq = n.args[1]
                fails = "TypeError: reduce() of empty iterable with no initial value"
            elif fname in ("max", "min") and isinstance(n.func, ast.Name) and len(n.args) == 1 and "default" not in kws:
                seq = n.args[0]
                fails = f"ValueError: {fname}() arg is an empty sequence"
            elif fname == "next" and isinstance(n.func, ast.Name) and len(n.args) == 1:
                seq = n.args[0]
                fails = "StopIteration"
            if seq is None:
                continue
            n_sites += 1
            if par is None:
                par = _parents(f.node)
            what = f"{ast.unparse(n)[:70]}: the sequence has an element whenever this is reached"
            verdict, why = "unknown", "the argument is not a collection the analysis can size"
            src = seq
            if isinstance(seq, (ast.GeneratorExp, ast.ListComp)) and len(seq.generators) == 1:
                if seq.generators[0].ifs:
                    src = None
                    verdict, why = "unknown", "filtered comprehension"
                else:
                    src = seq.generators[0].iter
            if src is not None:
                if isinstance(src, (ast.List, ast.Tuple)) and src.elts and not any(isinstance(e, ast.Starred) for e in src.elts):
                    verdict, why = "nonempty", "literal with at least one element"
                elif isinstance(src, ast.Name):
                    verdict, why = _local_list_emptiness(src.id, f, par)
                elif isinstance(src, ast.Attribute) and isinstance(src.value, ast.Name) and src.value.id == "self":
                    verdict, why = _attr_emptiness(src.attr, f, par, n)
                if verdict != "nonempty":
                    proof = _flag_proves_nonempty(n, ast.unparse(src), f, par) or _none_result_proves_nonempty(n, ast.unparse(src), f, par, idx)
                    if proof:
                        verdict, why = "nonempty", proof
            if verdict == "nonempty":
                rep.ok("C19.8", f.site, what, why)
            elif verdict == "maybe-empty":
                rep.bad("C19.8", f.site, what, f"{why}; the call then fails with {fails}", line=n.lineno)
            else:
                rep.unk("C19.8", f.site, what, why + f"; on an empty sequence the call fails with {fails}")
    rep.ok("C19.8", "-", "reducers without an identity (reduce / max / min of one iterable / next) were enumerated",
           f"{n_sites} site(s)", nontrivial=False)


# ---- C19.1 ----------------------------------------------------------------------------------------------
def _rebuilt_first(f, attr):
    """elaborate() binds `self.<attr>` to a freshly constructed object (a call of a class) unconditionally, at the top level of its
    body, before any statement reads the attribute: what an earlier elaboration left there is never seen."""
    for st in f.node.body:
        reads = [n for n in ast.walk(st) if isinstance(n, ast.Attribute) and n.attr == attr and isinstance(n.value, ast.Name) and
                 n.value.id == "self" and isinstance(n.ctx, ast.Load)]
        if isinstance(st, ast.Assign) and len(st.targets) == 1 and isinstance(st.targets[0], ast.Attribute) and \
                st.targets[0].attr == attr and isinstance(st.targets[0].value, ast.Name) and st.targets[0].value.id == "self":
            v = st.value
            fresh = isinstance(v, ast.Call) and (ast.unparse(v.func).split(".")[-1][:1].isupper() or ast.unparse(v.func).split(".")[-1].lstrip("_")[:1].isupper()
                                                  or ast.unparse(v.func) in ("dict", "list", "set")) or \
                isinstance(v, (ast.Dict, ast.List, ast.Set)) and not (getattr(v, "keys", None) or getattr(v, "elts", None))
            return bool(fresh) and not reads
        if reads:
            return False
        if isinstance(st, (ast.If, ast.For, ast.While, ast.With, ast.Try)) and any(
                isinstance(n, ast.Attribute) and n.attr == attr and isinstance(n.value, ast.Name) and n.value.id == "self" for n in ast.walk(st)):
            return False
    return False


def _memo_idiom(f, attr):
    """`if <test that reads self.attr>: V = <self.attr or a part of it>` / `else: V = E; [if G:] self.attr = V or (..., V, ...)`:
    the local V is what the rest of the function uses, the attribute only ever holds what was computed for V.  Returns V's name."""
    def is_attr(e):
        return isinstance(e, ast.Attribute) and isinstance(e.value, ast.Name) and e.value.id == "self" and e.attr == attr
    for st in ast.walk(f.node):
        if not (isinstance(st, ast.If) and st.orelse and any(is_attr(x) for x in ast.walk(st.test))):
            continue
        for reuse, compute in ((st.body, st.orelse), (st.orelse, st.body)):
            took = [s_ for s_ in reuse if isinstance(s_, ast.Assign) and len(s_.targets) == 1 and isinstance(s_.targets[0], ast.Name) and
                    any(is_attr(x) for x in ast.walk(s_.value)) and
                    (is_attr(s_.value) or (isinstance(s_.value, ast.Subscript) and is_attr(s_.value.value)))]
            if len(took) != 1 or len(reuse) != 1:
                continue
            v = took[0].targets[0].id
            binds = [s_ for s_ in compute if isinstance(s_, ast.Assign) and len(s_.targets) == 1 and isinstance(s_.targets[0], ast.Name) and
                     s_.targets[0].id == v]
            stores = [s_ for b_ in compute for s_ in ast.walk(b_) if isinstance(s_, ast.Assign) and any(is_attr(t) for t in s_.targets)]
            if len(binds) != 1 or not stores or any(is_attr(x) for x in ast.walk(binds[0].value)):
                continue
            ok = all((isinstance(s_.value, ast.Name) and s_.value.id == v) or
                     (isinstance(s_.value, ast.Tuple) and any(isinstance(e, ast.Name) and e.id == v for e in s_.value.elts))
                     for s_ in stores)
            # no other store or read of the attribute anywhere else in the function
            inside = {id(x) for x in ast.walk(st)}
            elsewhere = [x for x in ast.walk(f.node) if is_attr(x) and id(x) not in inside]
            if ok and not elsewhere:
                return v
    return None


def _none_guarded(idx, sid, attr):
    """Is the writing statement inside `if self.<attr> is None:`?"""
    site, _, ln = sid.rpartition(":")
    try:
        ln = int(ln)
    except ValueError:
        return False
    for f in idx.all_functions():
        if f.site == site:
            for n in ast.walk(f.node):
                if isinstance(n, ast.If):
                    t = ir.norm(ir.from_ast(n.test, {}))
                    if t == ir.norm(ir.parse(f"self.{attr} is None")) and any(getattr(s, "lineno", -1) == ln for b in n.body for s in ast.walk(b)):
                        return True
    return False


GENERATOR_MAKERS = {"iter", "map", "filter", "zip", "enumerate", "reversed"}


def _one_shot_fields(idx, ef, cls):
    """self.<f> assigned in __init__ from a generator (call of a function that yields, genexp, iter/map/filter/zip)."""
    out = {}
    init = cls.method("__init__")
    if init is None:
        return out
    types = ef.guard_types(init)
    for n in ast.walk(init.node):
        if isinstance(n, ast.Assign) and len(n.targets) == 1 and isinstance(n.targets[0], ast.Attribute) and \
                isinstance(n.targets[0].value, ast.Name) and n.targets[0].value.id == "self":
            v = n.value
            gen = isinstance(v, ast.GeneratorExp)
            if isinstance(v, ast.Call):
                if isinstance(v.func, ast.Name) and v.func.id in GENERATOR_MAKERS:
                    gen = True
                else:
                    k = ef.resolve_call(v, init, types)
                    callee = k[1] if k[0] == 'func' else None
                    if callee is None and isinstance(v.func, ast.Attribute):
                        # unresolved receiver: any method of that name in the package that is a generator
                        cands = [g for g in idx.all_functions() if g.name == v.func.attr]
                        if cands and all(any(isinstance(x, (ast.Yield, ast.YieldFrom)) for x in ast.walk(g.node)) for g in cands):
                            gen = True
                    elif callee is not None and any(isinstance(x, (ast.Yield, ast.YieldFrom)) for x in ast.walk(callee.node)):
                        gen = True
            if gen:
                out[n.targets[0].attr] = ast.unparse(v)[:60]
    return out


def carried_state(rep, idx, ef, els):
    for f in els:
        # one-shot iterators created at construction and consumed by elaboration
        shots = _one_shot_fields(idx, ef, f.cls)
        for n in ast.walk(f.node):
            its = [n.iter] if isinstance(n, (ast.For, ast.comprehension)) else []
            if isinstance(n, ast.Call) and isinstance(n.func, ast.Name) and n.func.id in ("list", "tuple", "sorted", "set", "dict") and n.args:
                its.append(n.args[0])
            # consumers that advance the iterators handed to them
            if isinstance(n, ast.Call) and isinstance(n.func, ast.Name) and n.func.id in (
                    "zip", "enumerate", "map", "filter", "sum", "any", "all", "min", "max", "next", "reduce", "Cat", "Array", "frozenset", "chain"):
                its.extend(a.value if isinstance(a, ast.Starred) else a for a in n.args)
            for it in its:
                if isinstance(it, ast.Attribute) and isinstance(it.value, ast.Name) and it.value.id == "self" and it.attr in shots:
                    rep.bad("C19.1", f.site, f"self.{it.attr}: one-shot iterator consumed by elaborate()",
                            f"__init__ stores a generator ({shots[it.attr]}) and elaborate() iterates it: the first elaboration exhausts it, "
                            "every later elaboration silently generates no logic for these items")
    for f in els:
        s = ef.summary(f)
        rep.analysed(f.site)
        found = False
        for loc, wsites in sorted(s.wsites.items()):
            if loc[0] not in ('self', 'global'):
                continue
            if loc[2] and loc[2][-1] in ("memory_map", "event_map"):
                continue                                                # C19.4's business
            rsites = s.rsites.get(loc, set()) - wsites
            ext = [x for x in s.rsites.get(loc, set()) if x.endswith("#ext")]
            if not rsites and not ext:
                continue                                                # written but never read: harmless
            attr = loc[2][-1] if loc[2] else ""
            if all(_none_guarded(idx, w, attr) for w in wsites):
                continue                                                # monotone cache idiom
            if len(loc[2]) == 1 and _rebuilt_first(f, attr):
                continue                                                # every elaboration starts by binding a new object there
            memo = _memo_idiom(f, attr) if len(loc[2]) == 1 else None
            if memo:
                found = True
                rep.unk("C19.1", f.site, f"self.{attr}: a memo of `{memo}`, filled and reused by elaborate()",
                        f"the value this elaboration computes for `{memo}` is kept in self.{attr} and a later elaboration takes it from there "
                        "instead of computing it again; whether the kept value is always the one a fresh computation would give (nothing it "
                        "depends on can change in between) is not decided")
                continue
            found = True
            where = ".".join((loc[1],) + loc[2])
            short = lambda x: x.split("::")[-1]
            fn = lambda x: x.split("::")[-1].rsplit(":", 1)[0]
            if ext:
                rep.bad("C19.1", f.site, f"{where}: external stateful call",
                        f"elaborate() calls {sorted(set(m for r_, m, l in s.external_stateful))} on {where}, which both mutates the object and depends on "
                        "what an earlier elaboration did to it (amaranth Memory raises AlreadyElaborated once frozen): the component "
                        "cannot be elaborated twice")
            else:
                rep.bad("C19.1", f.site, f"{where}: written by {sorted({fn(w) for w in wsites})}, read by {sorted({fn(r) for r in rsites})}",
                        "state written during elaboration is read during elaboration: a second elaboration starts from what the first "
                        f"one left behind instead of from the constructor's state (writes at {sorted(short(w) for w in wsites)[:4]}, "
                        f"reads at {sorted(short(r) for r in rsites)[:4]})")
        if not found:
            rep.ok("C19.1", f.site, "no state is carried from one elaboration into the next",
                   f"{len([l for l in s.writes if l[0] in ('self', 'global')])} self/global location(s) written, none of them read back")


# ---- C19.2 ----------------------------------------------------------------------------------------------
def termination(rep, idx, ef):
    # recursion census over the whole package
    graph = {}
    funcs = {f.site + ("#setter" if f.is_setter else ""): f for f in idx.all_functions()}
    for key, f in funcs.items():
        graph[key] = {c.site + ("#setter" if c.is_setter else "") for c, ln in ef.summary(f).calls}

    def reaches(a, b, seen=None):
        seen = seen or set()
        for n in graph.get(a, ()):
            if n == b:
                return True
            if n not in seen:
                seen.add(n)
                if reaches(n, b, seen):
                    return True
        return False
    for key, f in sorted(funcs.items()):
        if not reaches(key, key):
            continue
        # every call in f that can lead back to f
        types = ef.guard_types(f)
        for n in ast.walk(f.node):
            if not isinstance(n, ast.Call):
                continue
            kind = ef.resolve_call(n, f, types)
            callee = kind[2] if kind[0] == 'class' else (kind[1] if kind[0] == 'func' else None)
            if callee is None or isinstance(callee, str):
                continue
            ck = callee.site + ("#setter" if callee.is_setter else "")
            if ck != key and not reaches(ck, key):
                continue
            what = f"recursive call {ast.unparse(n)[:60]}"
            verdict, why = classify_recursion(f, n, idx)
            if verdict == "ok":
                rep.ok("C19.2", f.site, what, why)
            elif verdict == "bad":
                rep.bad("C19.2", f.site, what, why)
            else:
                rep.unk("C19.2", f.site, what, why)
    # recursion through dynamic dispatch: a call to a method / local function of the same name
    class _Shim:
        def __init__(self, node):
            self.node = node
    seen_calls = {(o.site, o.construct) for o in rep.obls if o.rule == "C19.2"}
    for f in idx.all_functions():
        defs = [(f.node, f.site)] + [(d, f.site + "." + d.name) for d in ast.walk(f.node)
                                     if isinstance(d, ast.FunctionDef) and d is not f.node]
        for d, dsite in defs:
            for n in ast.walk(d):
                if isinstance(n, ast.Call):
                    nm = n.func.attr if isinstance(n.func, ast.Attribute) else (n.func.id if isinstance(n.func, ast.Name) else None)
                    if nm != d.name or d.name.startswith("__") and d.name != "__init__":
                        continue
                    if isinstance(n.func, ast.Attribute) and isinstance(n.func.value, ast.Call) and \
                            isinstance(n.func.value.func, ast.Name) and n.func.value.func.id == "super":
                        continue
                    what = f"recursive call {ast.unparse(n)[:60]}"
                    if (dsite, what) in seen_calls or (f.site, what) in seen_calls:
                        continue
                    if isinstance(n.func, ast.Attribute) and _delegates_elsewhere(idx, ef, f, n.func.value):
                        continue
                    verdict, why = classify_recursion(_Shim(d), n, idx)
                    if verdict == "ok":
                        rep.ok("C19.2", dsite, what, why)
                    elif verdict == "bad":
                        rep.bad("C19.2", dsite, what, why)
                    else:
                        rep.unk("C19.2", dsite, what, why)
    for f in idx.all_functions():
        for n in ast.walk(f.node):
            if isinstance(n, ast.While):
                verdict, why = classify_while(n)
                what = f"while {ast.unparse(n.test)[:50]}"
                if verdict == "ok":
                    rep.ok("C19.2", f.site, what, why)
                else:
                    rep.unk("C19.2", f.site, what, why)


def classify_while(loop):
    """Bounded-variant shape: a counter / size grows by a constant step (or factor) in every iteration that goes round
    again, and either the loop test or a top-level `if V >= BOUND: raise / break / return` stops it at a bound that the
    body does not change."""
    def own(node):
        # nodes of the body that belong to this loop (not to nested loops / functions), for continue-detection
        for ch in ast.iter_child_nodes(node):
            if isinstance(ch, (ast.For, ast.While, ast.FunctionDef, ast.Lambda)):
                continue
            yield ch
            yield from own(ch)
    if any(isinstance(x, ast.Continue) for s in loop.body for x in [s] + list(own(s))):
        return "unk", "the loop body uses `continue`; the growth statement may be skipped"
    stored = set()
    for s in loop.body:
        for x in ast.walk(s):
            if isinstance(x, (ast.Name, ast.Attribute)) and isinstance(getattr(x, "ctx", None), ast.Store):
                stored.add(ast.unparse(x))
    grown = []
    for s in loop.body:
        if isinstance(s, ast.AugAssign) and isinstance(s.value, ast.Constant) and isinstance(s.value.value, int) and \
                isinstance(s.op, (ast.Mult, ast.Add, ast.LShift)) and s.value.value >= (2 if isinstance(s.op, ast.Mult) else 1):
            grown.append(ast.unparse(s.target))

    def fixed(bound, g):
        comp = {x.id for c in ast.walk(bound) if isinstance(c, ast.comprehension) for x in ast.walk(c.target) if isinstance(x, ast.Name)}
        names = {ast.unparse(x) for x in ast.walk(bound) if isinstance(x, (ast.Name, ast.Attribute))}
        names = {n for n in names if n.split(".")[0] not in comp}
        return g not in names and not (names & stored)
    for g in grown:
        t = loop.test
        if isinstance(t, ast.Compare) and len(t.ops) == 1 and isinstance(t.ops[0], (ast.Lt, ast.LtE)) and ast.unparse(t.left) == g and \
                fixed(t.comparators[0], g):
            return "ok", f"bounded variant: {g} grows in every iteration and the loop runs only while `{ast.unparse(t)}`"
        for s in loop.body:
            if isinstance(s, ast.If) and s.body and isinstance(s.body[-1], (ast.Raise, ast.Break, ast.Return)):
                c = s.test
                if isinstance(c, ast.Compare) and len(c.ops) == 1 and isinstance(c.ops[0], (ast.GtE, ast.Gt)) and ast.unparse(c.left) == g and \
                        fixed(c.comparators[0], g):
                    return "ok", (f"bounded variant: {g} grows in every iteration that goes round again and `{ast.unparse(c)[:60]}` "
                                  f"leaves the loop ({type(s.body[-1]).__name__.lower()}) at a bound the body does not change")
    # structural descent: a cursor walks down a finite nesting (a map into one of its windows, a node to its parent); every way
    # round the loop rebinds the cursor to something obtained from the cursor itself, every other way leaves the loop.  The same
    # argument as for structural recursion (the nesting is finite and acyclic), written as a loop.
    t = loop.test
    test_ok = (isinstance(t, ast.Constant) and t.value is True) or \
        (isinstance(t, ast.Compare) and len(t.ops) == 1 and isinstance(t.ops[0], ast.IsNot) and isinstance(t.left, ast.Name) and
         isinstance(t.comparators[0], ast.Constant) and t.comparators[0].value is None)
    if test_ok and not loop.orelse:
        local_src = {}
        for s_ in loop.body:
            for x in ast.walk(s_):
                if isinstance(x, ast.Assign) and len(x.targets) == 1:
                    for nm in ast.walk(x.targets[0]):
                        if isinstance(nm, ast.Name):
                            local_src.setdefault(nm.id, []).append(x.value)

        def derives(v, cur, depth=0):
            for n_ in ast.walk(v):
                if isinstance(n_, (ast.Attribute, ast.Subscript, ast.Call)):
                    r_ = n_.func if isinstance(n_, ast.Call) else n_
                    while isinstance(r_, (ast.Attribute, ast.Subscript)):
                        r_ = r_.value
                    if isinstance(r_, ast.Name) and r_.id == cur:
                        return True
            if depth < 2:
                for n_ in ast.walk(v):
                    if isinstance(n_, ast.Name) and n_.id != cur and n_.id in local_src:
                        if any(derives(v2, cur, depth + 1) for v2 in local_src[n_.id]):
                            return True
            return False

        def advances(stmts, cur):
            for s_ in stmts:
                if isinstance(s_, (ast.Return, ast.Raise, ast.Break)):
                    return True
                if isinstance(s_, ast.Assert) and isinstance(s_.test, ast.Constant) and not s_.test.value:
                    return True                         # `assert False`: an arm that is never taken (A1)
                if isinstance(s_, ast.Assign) and len(s_.targets) == 1 and isinstance(s_.targets[0], ast.Name) and s_.targets[0].id == cur and \
                        derives(s_.value, cur):
                    return True
                if isinstance(s_, ast.If) and s_.orelse and advances(s_.body, cur) and advances(s_.orelse, cur):
                    return True
            return False
        cursors = {x.targets[0].id for s_ in loop.body for x in ast.walk(s_)
                   if isinstance(x, ast.Assign) and len(x.targets) == 1 and isinstance(x.targets[0], ast.Name) and
                   derives(x.value, x.targets[0].id)}
        if isinstance(t, ast.Compare):
            cursors &= {t.left.id}
        for cur in sorted(cursors):
            if advances(loop.body, cur):
                return "ok", (f"structural descent: every way round the loop rebinds `{cur}` to something obtained from `{cur}` itself (a level "
                              "further down a finite nesting), every other way leaves the loop")
    return "unk", "a while loop needs a recognisable variant; none of the verified loop shapes applies"


def _delegates_elsewhere(idx, ef, f, recv):
    """The receiver is statically known to be an object of another class (delegation, not recursion)."""
    if isinstance(recv, ast.Name) and recv.id == "self":
        return False
    if isinstance(recv, ast.Name):
        # a local name bound once, by a plain assignment, stands for the expression assigned to it
        binds = [n for n in ast.walk(f.node) if isinstance(n, ast.Name) and n.id == recv.id and isinstance(n.ctx, ast.Store)]
        asg = [n for n in ast.walk(f.node) if isinstance(n, ast.Assign) and len(n.targets) == 1 and isinstance(n.targets[0], ast.Name) and
               n.targets[0].id == recv.id]
        if len(binds) == 1 and len(asg) == 1 and recv.id not in [a.arg for a in f.node.args.args + f.node.args.kwonlyargs] and \
                not (isinstance(asg[0].value, ast.Name) and asg[0].value.id == recv.id):
            return _delegates_elsewhere(idx, ef, f, asg[0].value)
    t = ef.type_of(recv, f, ef.guard_types(f))
    if t is not None and f.cls is not None and t is not f.cls and f.cls not in idx.bases_of(t) and t not in idx.bases_of(f.cls):
        return True
    if isinstance(recv, ast.Attribute) and isinstance(recv.value, ast.Name) and recv.value.id == "self" and f.cls is not None:
        init = f.cls.method("__init__")
        if init is not None:
            for st in ast.walk(init.node):
                if isinstance(st, ast.Assign) and len(st.targets) == 1 and isinstance(st.targets[0], ast.Attribute) and \
                        st.targets[0].attr == recv.attr and isinstance(st.targets[0].value, ast.Name) and st.targets[0].value.id == "self":
                    v = st.value
                    if isinstance(v, (ast.List, ast.Dict, ast.Set, ast.Tuple)) or \
                            (isinstance(v, ast.Call) and isinstance(v.func, ast.Name) and v.func.id in ("list", "dict", "set", "tuple", "frozenset")):
                        return True
    return False


def _loop_bound_names(f):
    """Names bound by for-loops / comprehensions over fields or parameters of the current activation."""
    out = set()
    for n in ast.walk(f.node):
        if isinstance(n, (ast.For, ast.comprehension)):
            for x in ast.walk(n.target):
                if isinstance(x, ast.Name):
                    out.add(x.id)
    return out


def _callers_pass_children(idx, f, param_pos, depth=0):
    """Every call of helper f passes, at that position, a child element of the caller's own collection."""
    if idx is None or depth > 2:
        return False
    name = f.node.name
    sites = 0
    for g in idx.all_functions():
        if g.node is f.node:
            continue
        gb = _loop_bound_names(g)
        for n in ast.walk(g.node):
            if isinstance(n, ast.Call) and (isinstance(n.func, ast.Name) and n.func.id == name or
                                            isinstance(n.func, ast.Attribute) and n.func.attr == name):
                sites += 1
                # a bound call (obj.helper(x)) does not pass the helper's own first parameter (self / cls)
                fa = f.node.args.args
                pos = param_pos - 1 if isinstance(n.func, ast.Attribute) and fa and fa[0].arg in ("self", "cls") and \
                    not any(isinstance(d_, ast.Name) and d_.id == "staticmethod" for d_ in f.node.decorator_list) else param_pos
                if pos < 0 or len(n.args) <= pos:
                    return False
                a = n.args[pos]
                if not (isinstance(a, ast.Name) and a.id in gb):
                    return False
    return sites > 0


def classify_recursion(f, call, idx=None):
    bound = _loop_bound_names(f)
    recv = call.func.value if isinstance(call.func, ast.Attribute) else None
    args = list(call.args) + [k.value for k in call.keywords]

    def is_child(e, _depth=0):
        # an element obtained by iterating / looking up a container of the current activation (or a field of such an element)
        while isinstance(e, (ast.Attribute, ast.Subscript)) and not (isinstance(e, ast.Attribute) and isinstance(e.value, ast.Name) and e.value.id == "self"):
            e = e.value
        if isinstance(e, ast.Name) and e.id in bound:
            return True
        if isinstance(e, ast.Name):
            # assigned from a lookup in a container of self:  x = self._ranges.get(k) / self._map[k]
            for n in ast.walk(f.node):
                if isinstance(n, ast.Assign) and len(n.targets) == 1 and isinstance(n.targets[0], ast.Name) and n.targets[0].id == e.id:
                    v = n.value
                    if isinstance(v, ast.Subscript) or (isinstance(v, ast.Call) and isinstance(v.func, ast.Attribute) and v.func.attr in ("get", "pop")):
                        return True
                # a component of a child record:  window, _, _ = record
                if isinstance(n, ast.Assign) and len(n.targets) == 1 and isinstance(n.targets[0], ast.Tuple) and \
                        any(isinstance(t_, ast.Name) and t_.id == e.id for t_ in n.targets[0].elts) and _depth < 3 and \
                        isinstance(n.value, (ast.Name, ast.Subscript, ast.Attribute)) and is_child(n.value, _depth + 1):
                    return True
                # a component of a record looked up in a container of self:  window, name, _ = self._windows[id(x)]
                if isinstance(n, ast.Assign) and len(n.targets) == 1 and isinstance(n.targets[0], ast.Tuple) and \
                        any(isinstance(t_, ast.Name) and t_.id == e.id for t_ in n.targets[0].elts):
                    v = n.value
                    if isinstance(v, ast.Call) and isinstance(v.func, ast.Attribute) and v.func.attr == "get":
                        v = v.func.value
                    elif isinstance(v, ast.Subscript):
                        v = v.value
                    else:
                        v = None
                    if isinstance(v, ast.Attribute) and isinstance(v.value, ast.Name) and v.value.id == "self":
                        return True
        if isinstance(e, ast.NamedExpr):
            return is_child(e.value)
        return False
    if recv is not None and not (isinstance(recv, ast.Name) and recv.id == "self") and is_child(recv):
        return "ok", f"structural: the receiver `{ast.unparse(recv)}` is a child object reached through a container of the current activation"
    if any(is_child(a) for a in args) and not (recv is not None and isinstance(recv, ast.Name) and recv.id == "self" and not args):
        return "ok", f"structural: the argument is a child element of the current activation's collection"
    # a helper that merely forwards its own parameter: structural if every caller hands it a child element
    params = [a.arg for a in f.node.args.args]
    for a in args:
        if isinstance(a, ast.Name) and a.id in params and not any(
                isinstance(x, ast.Name) and x.id == a.id and isinstance(x.ctx, ast.Store) for x in ast.walk(f.node)):
            if _callers_pass_children(idx, f, params.index(a.id)):
                return "ok", f"structural through a helper: every caller passes a child element as `{a.id}`"
    if recv is not None and isinstance(recv, ast.Name) and recv.id == "self":
        # bounded-variant: a field strictly grows before the call and a dominating test against a fixed bound raises
        parents = {}
        for n in ast.walk(f.node):
            for ch in ast.iter_child_nodes(n):
                parents[ch] = n
        stmt = call
        while stmt in parents and not isinstance(stmt, ast.stmt):
            stmt = parents[stmt]
        block = None
        p = parents.get(stmt)
        for fld in ("body", "orelse", "finalbody"):
            if p is not None and stmt in getattr(p, fld, []):
                block = getattr(p, fld)
        grown = None
        bounded = False
        if block is not None:
            for s_ in block[:block.index(stmt)]:
                if isinstance(s_, ast.AugAssign) and isinstance(s_.target, ast.Attribute) and isinstance(s_.target.value, ast.Name) and \
                        s_.target.value.id == "self" and isinstance(s_.op, (ast.Mult, ast.Add, ast.LShift)) and isinstance(s_.value, ast.Constant) and \
                        isinstance(s_.value.value, int) and s_.value.value >= (2 if isinstance(s_.op, ast.Mult) else 1):
                    grown = s_.target.attr
            if grown is not None:
                # the growing field, under its own name or through a read-only property that returns it
                spell = {f"self.{grown}"}
                if f.cls is not None:
                    for fs_ in f.cls.methods.values():
                        for g_ in fs_:
                            if "property" in g_.decorators:
                                b_ = [x for x in g_.node.body if not (isinstance(x, ast.Expr) and isinstance(x.value, ast.Constant))]
                                if len(b_) == 1 and isinstance(b_[0], ast.Return) and b_[0].value is not None and ast.unparse(b_[0].value) == f"self.{grown}":
                                    spell.add(f"self.{g_.name}")
                for s_ in block[:block.index(stmt)]:
                    if isinstance(s_, ast.If) and any(isinstance(x, ast.Raise) for x in s_.body):
                        t = s_.test
                        if isinstance(t, ast.Compare) and len(t.ops) == 1 and isinstance(t.ops[0], (ast.GtE, ast.Gt)) and \
                                ast.unparse(t.left) in spell and not any(sp in ast.unparse(t.comparators[0]) for sp in spell):
                            bounded = True
                        # the same comparison read from the other side: <bound> <= self.size
                        if isinstance(t, ast.Compare) and len(t.ops) == 1 and isinstance(t.ops[0], (ast.LtE, ast.Lt)) and \
                                ast.unparse(t.comparators[0]) in spell and not any(sp in ast.unparse(t.left) for sp in spell):
                            bounded = True
        if bounded and grown is not None and f.cls is not None:
            # a factor only makes the field grow when the field is positive: every constant ever stored in it must be >= 1
            mult = any(isinstance(s_, ast.AugAssign) and isinstance(s_.op, (ast.Mult, ast.LShift)) and isinstance(s_.target, ast.Attribute) and
                       s_.target.attr == grown for s_ in block[:block.index(stmt)])
            if mult:
                for fs_ in f.cls.methods.values():
                    for g_ in fs_:
                        for x in ast.walk(g_.node):
                            if isinstance(x, ast.Assign) and any(isinstance(t_, ast.Attribute) and isinstance(t_.value, ast.Name) and
                                                                 t_.value.id == "self" and t_.attr == grown for t_ in x.targets) and \
                                    isinstance(x.value, ast.Constant) and isinstance(x.value.value, int) and not isinstance(x.value.value, bool) and \
                                    x.value.value < 1:
                                return "bad", (f"self.{grown} is multiplied before the call, but {g_.qual} stores {x.value.value} in it: "
                                               f"{x.value.value} * 2 == {x.value.value * 2}, the field does not grow, the bound is never reached and "
                                               "the method recurses until RecursionError")
        if bounded:
            return "ok", f"bounded variant: self.{grown} strictly grows before the call and `self.{grown} >= <bound>` raises first"
        if grown is not None and block is not None and idx is not None and f.cls is not None:
            # a raise guarded by a predicate of the object that reads the growing field: a bound of another shape
            for s_ in block[:block.index(stmt)]:
                if isinstance(s_, ast.If) and any(isinstance(x, ast.Raise) for x in s_.body):
                    for c_ in ast.walk(s_.test):
                        if isinstance(c_, ast.Call) and isinstance(c_.func, ast.Attribute) and isinstance(c_.func.value, ast.Name) and \
                                c_.func.value.id == "self":
                            h = idx.lookup_method(f.cls, c_.func.attr)
                            if h is not None and any(isinstance(y, ast.Attribute) and y.attr == grown for y in ast.walk(h.node)):
                                return "unk", (f"self.{grown} grows before the call and a raise is guarded by `{ast.unparse(c_)[:50]}`, a predicate that reads "
                                               f"self.{grown}: a bound of another shape than `self.{grown} >= <bound>`, which is not verified")
        return "bad", ("the method calls itself on the same object with nothing that shrinks and no bound on what grows: for inputs that never "
                       "satisfy the exit condition it recurses until RecursionError")
    return "unk", "recursion is neither structural nor of the bounded-variant shape"


# ---- C19.3 ----------------------------------------------------------------------------------------------
def _set_fields(cls):
    out = set()
    init = cls.method("__init__")
    if init is None:
        return out
    for n in ast.walk(init.node):
        if isinstance(n, ast.Assign) and len(n.targets) == 1 and isinstance(n.targets[0], ast.Attribute) and \
                isinstance(n.targets[0].value, ast.Name) and n.targets[0].value.id == "self":
            v = n.value
            if isinstance(v, (ast.Set, ast.SetComp)) or (isinstance(v, ast.Call) and isinstance(v.func, ast.Name) and v.func.id in ("set", "frozenset")):
                out.add(n.targets[0].attr)
    return out


ORDER_INSENSITIVE = {"max", "min", "sum", "any", "all", "len", "set", "frozenset", "sorted"}


def set_iteration(rep, idx, reach):
    n_iter = 0
    for f in reach:
        setf = _set_fields(f.cls) if f.cls is not None else set()
        # comprehensions consumed by an order-insensitive reducer (max(x.stop for x in s)) are harmless
        harmless = set()
        for n in ast.walk(f.node):
            if isinstance(n, ast.Call) and isinstance(n.func, ast.Name) and n.func.id in ORDER_INSENSITIVE and len(n.args) >= 1 and \
                    isinstance(n.args[0], (ast.GeneratorExp, ast.ListComp, ast.SetComp)):
                for g in n.args[0].generators:
                    harmless.add(g)
        for n in ast.walk(f.node):
            iters = []
            if isinstance(n, ast.For):
                iters.append(n.iter)
            elif isinstance(n, ast.comprehension) and n not in harmless:
                iters.append(n.iter)
            for it in iters:
                n_iter += 1
                e = it
                is_set = isinstance(e, (ast.Set, ast.SetComp)) or \
                    (isinstance(e, ast.Call) and isinstance(e.func, ast.Name) and e.func.id in ("set", "frozenset")) or \
                    (isinstance(e, ast.Attribute) and isinstance(e.value, ast.Name) and e.value.id == "self" and e.attr in setf)
                # a loop that only files each element into a sorted list (bisect.insort / heapq.heappush with the element itself) or
                # into another set / a counter: what it builds does not depend on the order of the visits
                if is_set and isinstance(n, ast.For) and isinstance(n.target, ast.Name) and n.body and all(
                        isinstance(b_, ast.Expr) and isinstance(b_.value, ast.Call) and
                        ((ast.unparse(b_.value.func).split(".")[-1] in ("insort", "insort_left", "insort_right", "heappush") and
                          len(b_.value.args) == 2 and isinstance(b_.value.args[1], ast.Name) and b_.value.args[1].id == n.target.id) or
                         (isinstance(b_.value.func, ast.Attribute) and b_.value.func.attr in ("add", "discard") and len(b_.value.args) == 1))
                        for b_ in n.body):
                    rep.ok("C19.3", f.site, f"for ... in {ast.unparse(e)[:50]}", "the loop only files every element into a sorted list / a set: "
                           "the result does not depend on the order of the visits", nontrivial=False)
                    continue
                if is_set:
                    rep.bad("C19.3", f.site, f"for ... in {ast.unparse(e)[:50]}", "iteration over a set in code reachable from elaborate(): the order of the "
                            "generated statements (and names) is not deterministic; iterate sorted(...)")
    rep.count("iterations_checked", n_iter)
    rep.ok("C19.3", "-", "iteration sites in elaborate()-reachable code were scanned for set-typed iterables", f"{n_iter} loops / comprehensions")


# ---- C19.4 ----------------------------------------------------------------------------------------------
def metadata(rep, idx, ef, els, reach):
    sites = {f.site for f in reach}
    for f in els:
        bad = []
        todo = reachable_from(idx, ef, [f])
        for g in todo:
            if g.cls is not None and g.cls.name in ("MemoryMap", "EventMap", "Builder") and g.name in METADATA_MUTATORS:
                bad.append(f"{g.qual} is reachable")
            for n in ast.walk(g.node):
                if isinstance(n, ast.Call) and isinstance(n.func, ast.Attribute) and n.func.attr in METADATA_MUTATORS:
                    rtxt = ast.unparse(n.func.value)
                    if rtxt.split(".")[-1] in METADATA_RECEIVERS:
                        bad.append(f"{g.qual} calls {rtxt}.{n.func.attr}()")
                if isinstance(n, (ast.Assign, ast.AugAssign)):
                    for t in (n.targets if isinstance(n, ast.Assign) else [n.target]):
                        if isinstance(t, ast.Attribute) and t.attr in ("memory_map", "event_map") and g.name != "__init__" and not g.is_setter:
                            bad.append(f"{g.qual} stores to {ast.unparse(t)}")
        if bad:
            for b in sorted(set(bad)):
                rep.bad("C19.4", f.site, b, "elaboration alters the component's memory map / event map or other metadata")
        else:
            rep.ok("C19.4", f.site, "elaboration cannot reach a metadata mutator", f"{len(todo)} function(s) reachable", nontrivial=len(todo) > 1)


# ---- C19.5 ----------------------------------------------------------------------------------------------
def raise_types(rep, idx):
    used = set()
    for f in idx.all_functions():
        for n in ast.walk(f.node):
            if isinstance(n, ast.Raise):
                if n.exc is None or getattr(n, "_inlined_from", None):
                    continue                                            # re-raise / copy of a helper's raise (classified there)
                e = n.exc.func if isinstance(n.exc, ast.Call) else n.exc
                if ast.unparse(e) == "AssertionError":
                    # `raise AssertionError(...)` is `assert False` spelled out: an internal invariant, not a refusal of user input
                    rep.ok("C19.5", f.site, "raise AssertionError", "an explicit assertion failure (same as `assert False`)", nontrivial=False)
                    continue
                if ast.unparse(e) == "NotImplementedError" and f.cls is not None:
                    # an abstract hook of a private base class: unreachable when every subclass in the package overrides it
                    body = [s for s in f.node.body if not (isinstance(s, ast.Expr) and isinstance(s.value, ast.Constant))]
                    subs = [k for k in idx.all_classes() if k is not f.cls and f.cls in idx.bases_of(k)]
                    direct = [k for k in subs if any(b is f.cls for b in idx.bases_of(k)[:1]) or f.cls in idx.bases_of(k)]
                    if len(body) == 1 and body[0] is n and f.cls.name.startswith("_") and direct and \
                            all(idx.lookup_method(k, f.name) is not None and idx.lookup_method(k, f.name).node is not f.node for k in direct):
                        rep.ok("C19.5", f.site, "raise NotImplementedError", f"abstract hook of the private base class {f.cls.name}: every subclass "
                               f"({', '.join(sorted(k.name for k in direct))}) overrides it", nontrivial=False)
                        continue
                if isinstance(n.exc, ast.Name):
                    # raise <local>: an exception object built earlier in the same function -- classify its constructor
                    defs = [s for s in ast.walk(f.node) if isinstance(s, ast.Assign) and len(s.targets) == 1 and
                            isinstance(s.targets[0], ast.Name) and s.targets[0].id == n.exc.id]
                    ctors = {ast.unparse(s.value.func) for s in defs if isinstance(s.value, ast.Call)}
                    handlers = [h for h in ast.walk(f.node) if isinstance(h, ast.ExceptHandler) and h.name == n.exc.id]
                    others = [s for s in defs if not isinstance(s.value, ast.Call) and not (isinstance(s.value, ast.Constant) and s.value.value is None)]
                    if ctors and not others and all(c_ in ("ValueError", "TypeError") for c_ in ctors):
                        rep.ok("C19.5", f.site, f"raise {n.exc.id}", f"built as {sorted(ctors)}: descriptive refusals", nontrivial=False)
                        continue
                    if len(ctors) == 1 and len(ctors) == len({ast.unparse(s.value.func) if isinstance(s.value, ast.Call) else "?" for s in defs}):
                        e = ast.parse(next(iter(ctors)), mode="eval").body
                    elif handlers and not defs:
                        continue                                        # re-raise of a caught exception
                    else:
                        rep.unk("C19.5", f.site, f"raise {n.exc.id}", "the type of the raised object is not evident from the function")
                        continue
                exc = ast.unparse(e)
                # raise helper(...): a nested function that builds the exception
                for hn in ast.walk(f.node):
                    if isinstance(hn, ast.FunctionDef) and hn.name == exc and hn is not f.node:
                        rets = [r.value for r in ast.walk(hn) if isinstance(r, ast.Return) and r.value is not None]
                        types = {ast.unparse(r.func) for r in rets if isinstance(r, ast.Call)}
                        if rets and len(types) == 1 and all(isinstance(r, ast.Call) for r in rets):
                            exc = types.pop()
                key = (f.site, exc)
                what = f"raise {exc}"
                # the table is keyed by function, but a helper may move within its file: then file + exception type + the
                # number of such raises in the file identify the entry
                if key not in EXC_TABLE and exc not in ("ValueError", "TypeError"):
                    same_file = [k for k in EXC_TABLE if k[0].split("::")[0] == f.site.split("::")[0] and k[1] == exc and k not in used]
                    def still_there(k):
                        # the tabled function exists and still raises that exception itself
                        for g in idx.all_functions():
                            if g.site == k[0]:
                                return any(isinstance(r, ast.Raise) and r.exc is not None and not getattr(r, "_inlined_from", None) and
                                           ast.unparse(r.exc.func if isinstance(r.exc, ast.Call) else r.exc) == k[1] for r in ast.walk(g.node))
                        return False
                    gone = [k for k in same_file if not still_there(k)]
                    if not gone:
                        # the raise moved to another file (a mixin / helper module): same exception type, same function name
                        other_file = [k for k in EXC_TABLE if k[1] == exc and k not in used and k[0].rsplit(".", 1)[-1] == f.site.rsplit(".", 1)[-1]
                                      and not still_there(k)]
                        gone = other_file[:1]
                    if gone:
                        key = gone[0]
                if exc in ("ValueError", "TypeError"):
                    rep.ok("C19.5", f.site, what, "descriptive refusal", nontrivial=False)
                elif key in EXC_TABLE:
                    used.add(key)
                    rep.ok("C19.5", f.site, what, "frozen table: " + EXC_TABLE[key], nontrivial=False)
                elif exc == "KeyError" and _is_spelled_out_lookup(f, n):
                    rep.ok("C19.5", f.site, what, "a dictionary look-up spelled `.get()` + `raise KeyError(key)`: what the subscript does by itself",
                           nontrivial=False)
                else:
                    rep.bad("C19.5", f.site, what, f"{exc} is neither ValueError nor TypeError and is not in the table of deliberate exceptions")
    rep.check(True, "C19.5", "-", "every explicit raise was classified", f"{len(used)}/{len(EXC_TABLE)} table entries in use")


def _is_spelled_out_lookup(f, raise_node):
    """`x = D.get(k)` ... `if x is None: raise KeyError(...)`: the KeyError a subscript look-up raises, written out."""
    for st in ast.walk(f.node):
        if isinstance(st, ast.If) and raise_node in st.body and isinstance(st.test, ast.Compare) and len(st.test.ops) == 1 and \
                isinstance(st.test.ops[0], ast.Is) and isinstance(st.test.left, ast.Name) and \
                isinstance(st.test.comparators[0], ast.Constant) and st.test.comparators[0].value is None:
            nm = st.test.left.id
            for a in ast.walk(f.node):
                if isinstance(a, ast.Assign) and len(a.targets) == 1 and isinstance(a.targets[0], ast.Name) and a.targets[0].id == nm and \
                        isinstance(a.value, ast.Call) and isinstance(a.value.func, ast.Attribute) and a.value.func.attr == "get" and \
                        len(a.value.args) == 1:
                    return True
    return False


# ---- C19.7 optional bus members -------------------------------------------------------------------------
def optional_members(rep, idx, els):
    n = 0
    for f in els:
        c = get_ctx(idx, f)
        exprs = []
        for d in c.t.drivers:
            conds = [(c.norm(fr[1]), fr[2]) for fr in d.gen if fr[0] == 'pyif']
            exprs.append((c.norm(d.target), conds, d.lineno))
            exprs.append((c.norm(d.value), conds, d.lineno))
        for a in c.t.accs.values():
            for term, gen, dsl_, ln in a.terms:
                conds = [(c.norm(fr[1]), fr[2]) for fr in gen if fr[0] == 'pyif']
                exprs.append((c.norm(term), conds, ln))
        for e, conds, ln in exprs:
            check_optional(rep, f, c, e, conds, ln)
            n += 1
    rep.count("expressions_scanned", n)


def check_optional(rep, f, c, e, conds, ln, local=()):
    """Every X.<optional member> is under has(X, member) -- from a generation-time condition or an enclosing conditional."""
    k = e[0]
    if k in ('ifexp', 'phi'):
        cond, pol = ir.split_neg(e[1])
        extra_t = [(cond, pol)]
        extra_f = [(cond, not pol)]
        check_optional(rep, f, c, e[1], conds, ln, local)
        check_optional(rep, f, c, e[2], conds, ln, tuple(local) + tuple(extra_t))
        check_optional(rep, f, c, e[3], conds, ln, tuple(local) + tuple(extra_f))
        return
    if k == 'gen' and len(e) >= 4:
        # a comprehension: its `if` clauses guard the element
        extra = []
        for tgt, it, ifs in e[3]:
            check_optional(rep, f, c, it, conds, ln, local)
            for cnd in ifs:
                extra.append(ir.split_neg(c.norm(cnd)))
                check_optional(rep, f, c, cnd, conds, ln, tuple(local) + tuple(extra[:-1]))
        check_optional(rep, f, c, e[2], conds, ln, tuple(local) + tuple(extra))
        return
    if k == 'call' and e[1] == ('name', 'getattr') and len(e[2]) == 2 and not e[3] and e[2][1][0] != 'const' and _is_bus(e[2][0]):
        need = ('call', ('name', 'hasattr'), (e[2][0], e[2][1]), ())
        have = [ir.split_neg(x) if p else (ir.split_neg(x)[0], not ir.split_neg(x)[1]) for x, p in conds] + list(local)
        def filtered_by_hasattr(nm, obj):
            # the name is component j of an element of a comprehension whose `if` keeps only names the object has
            x, path = nm, []
            while x[0] == 'sub' and x[2][0] in ('const', 'idx'):
                path.append(x[2])
                x = x[1]
            if x[0] != 'gen' or len(x) < 4 or len(x[3]) != 1:
                return False
            elt, (tgt, it, ifs) = x[2], x[3][0]
            comp = elt
            for s_ in reversed(path[:-1] if path and path[-1][0] == 'idx' else path):
                if s_[0] == 'const' and comp[0] == 'tuple' and isinstance(s_[1], int) and 0 <= s_[1] < len(comp[1]):
                    comp = comp[1][s_[1]]
                else:
                    return False
            return any(c.norm(cnd) == c.norm(('call', ('name', 'hasattr'), (obj, comp), ())) for cnd in ifs)
        if any(h == (need, True) for h in have):
            rep.ok("C19.7", f.site, "dynamic access to an interface member is under hasattr() of the same name", _role_free(ir.show(e)))
        elif filtered_by_hasattr(e[2][1], e[2][0]):
            rep.ok("C19.7", f.site, "dynamic access to an interface member is under hasattr() of the same name",
                   _role_free(ir.show(e))[:120] + " (the name comes from a list filtered by hasattr() of the same object)")
        else:
            rep.bad("C19.7", f.site, f"unguarded dynamic access: {_role_free(ir.show(e))}",
                    "getattr() without a default on an interface member whose presence depends on the feature set: when the bus lacks "
                    "the member elaboration raises AttributeError instead of using the protocol default", line=ln)
    if k == 'attr' and e[2] in OPTIONAL_MEMBERS and _is_bus(e[1]):
        need = ('has', e[1], e[2])
        have = [ir.split_neg(x) if p else (ir.split_neg(x)[0], not ir.split_neg(x)[1]) for x, p in conds] + list(local)
        ok = any(h == (need, True) for h in have)
        what = f"{ir.show(e)}"
        if ok:
            rep.ok("C19.7", f.site, f"optional member {e[2]} of a Wishbone interface is accessed under its feature test", what, nontrivial=True)
        else:
            rep.bad("C19.7", f.site, f"unguarded access to optional member `{e[2]}`: {_role_free(what)}",
                    f"`{e[2]}` exists only when the interface has that feature; add() accepts buses without it, so elaboration raises "
                    "AttributeError instead of using the protocol default", line=ln)
    for ch in ir.children(e):
        check_optional(rep, f, c, ch, conds, ln, local)


def _role_free(txt):
    import re
    return re.sub(r"<\d+>", "<k>", txt)


def _is_bus(e):
    t = ir.show(e)
    return "bus" in t or "_subs" in t or "_intrs" in t


# ---- C19.6 ----------------------------------------------------------------------------------------------
def _list_of_strings(f, name):
    """name = [] (or a list of string literals) and every name.append(x) has x an f-string, a string literal or str(...)."""
    def is_str(e):
        return isinstance(e, ast.JoinedStr) or (isinstance(e, ast.Constant) and isinstance(e.value, str)) or \
            (isinstance(e, ast.Call) and isinstance(e.func, ast.Name) and e.func.id in ("str", "repr", "format")) or \
            (isinstance(e, ast.BinOp) and isinstance(e.op, (ast.Add, ast.Mod)) and (is_str(e.left) or is_str(e.right)))
    inits = [n for n in ast.walk(f.node) if isinstance(n, ast.Assign) and len(n.targets) == 1 and
             isinstance(n.targets[0], ast.Name) and n.targets[0].id == name]
    if len(inits) != 1 or not isinstance(inits[0].value, ast.List) or not all(is_str(e) for e in inits[0].value.elts):
        return False
    for n in ast.walk(f.node):
        if isinstance(n, ast.Call) and isinstance(n.func, ast.Attribute) and isinstance(n.func.value, ast.Name) and n.func.value.id == name:
            if n.func.attr == "append" and len(n.args) == 1 and is_str(n.args[0]):
                continue
            if n.func.attr in ("append", "extend", "insert", "__setitem__"):
                return False
        if isinstance(n, (ast.AugAssign,)) and isinstance(n.target, ast.Name) and n.target.id == name:
            return False
    return True


def joins(rep, idx):
    for f in idx.all_functions():
        # names bound to path-typed values in this function
        path_names = {}
        for n in ast.walk(f.node):
            if isinstance(n, (ast.For, ast.comprehension)):
                it = n.iter
                prod = None
                if isinstance(it, ast.Call) and isinstance(it.func, ast.Attribute) and it.func.attr in PATH_PRODUCERS:
                    prod = PATH_PRODUCERS[it.func.attr]
                elif isinstance(it, ast.Name) and it.id == "self" and f.cls is not None and f.cls.method("__iter__") is not None and \
                        any(isinstance(x, (ast.Yield, ast.YieldFrom)) for x in ast.walk(f.cls.method("__iter__").node)) and \
                        f.cls.name == "Register":
                    prod = 0
                if prod is not None and isinstance(n.target, ast.Tuple) and len(n.target.elts) > prod and isinstance(n.target.elts[prod], ast.Name):
                    path_names[n.target.elts[prod].id] = ast.unparse(it)
        for n in ast.walk(f.node):
            if isinstance(n, ast.Call) and isinstance(n.func, ast.Attribute) and n.func.attr == "join" and len(n.args) == 1 and \
                    isinstance(n.func.value, ast.Constant) and isinstance(n.func.value.value, str):
                if getattr(n, "_inlined_from", None):
                    continue                            # a copy of a helper's statement: classified where it is written
                a = n.args[0]
                what = f"{n.func.value.value!r}.join({ast.unparse(a)[:50]})"
                if isinstance(a, (ast.GeneratorExp, ast.ListComp)):
                    elt = a.elt
                    ok = isinstance(elt, ast.JoinedStr) or (isinstance(elt, ast.Call) and isinstance(elt.func, ast.Name) and elt.func.id in ("str", "repr", "format"))
                    if ok:
                        rep.ok("C19.6", f.site, what, "elements are converted to str before joining", nontrivial=False)
                    else:
                        rep.unk("C19.6", f.site, what, "cannot tell whether the joined elements are strings")
                elif isinstance(a, ast.Name):
                    if a.id in path_names:
                        rep.bad("C19.6", f.site, what, f"`{a.id}` comes from {path_names[a.id]} and is a path: it may contain integers (array indices), "
                                "so str.join raises TypeError instead of producing the name; map the parts through str()")
                    elif (f.site, a.id) in JOIN_TABLE:
                        rep.ok("C19.6", f.site, what, "table: " + JOIN_TABLE[(f.site, a.id)], nontrivial=False)
                    elif [k for k in JOIN_TABLE if k[1] == a.id and k[0].split("::")[0] == f.site.split("::")[0] and
                          not any(g.site == k[0] and any(isinstance(x, ast.Name) and x.id == a.id for x in ast.walk(g.node)) for g in idx.all_functions())]:
                        # the tabled statement moved to another function of the same file (the tabled function no longer mentions the name)
                        k = [k for k in JOIN_TABLE if k[1] == a.id and k[0].split("::")[0] == f.site.split("::")[0]][0]
                        rep.ok("C19.6", f.site, what, "table (statement moved within the file): " + JOIN_TABLE[k], nontrivial=False)
                    elif any(isinstance(b_, ast.Assign) and len(b_.targets) == 1 and isinstance(b_.targets[0], ast.Name) and b_.targets[0].id == a.id and
                             isinstance(b_.value, ast.Call) and any(isinstance(x_, ast.Attribute) and x_.attr == "__annotations__" for x_ in b_.value.args)
                             for b_ in ast.walk(f.node)) and \
                            sum(1 for b_ in ast.walk(f.node) if isinstance(b_, ast.Name) and b_.id == a.id and isinstance(b_.ctx, ast.Store)) == 1:
                        rep.ok("C19.6", f.site, what, f"`{a.id}` is derived from __annotations__ by a filter that keeps the keys: identifiers, always str",
                               nontrivial=False)
                    elif _list_of_strings(f, a.id):
                        rep.ok("C19.6", f.site, what, f"`{a.id}` is a local list that only ever receives f-strings / str() values", nontrivial=False)
                    else:
                        rep.unk("C19.6", f.site, what, f"`{a.id}` is not known to hold strings only")
                elif isinstance(a, ast.Call) and isinstance(a.func, ast.Attribute) and isinstance(a.func.value, ast.Name) and a.func.value.id == "self" and \
                        f.cls is not None and idx.lookup_method(f.cls, a.func.attr) is not None:
                    # a generator helper: every value it yields must be a string
                    h = idx.lookup_method(f.cls, a.func.attr)
                    ys = [y for y in ast.walk(h.node) if isinstance(y, ast.Yield)]
                    yf = [y for y in ast.walk(h.node) if isinstance(y, ast.YieldFrom)]
                    if ys and not yf and all(isinstance(y.value, ast.JoinedStr) or (isinstance(y.value, ast.Call) and isinstance(y.value.func, ast.Name) and
                                                                                  y.value.func.id in ("str", "repr", "format")) for y in ys):
                        rep.ok("C19.6", f.site, what, f"{h.qual}() yields f-strings / str() values only", nontrivial=False)
                    else:
                        rep.unk("C19.6", f.site, what, "cannot tell whether the helper yields strings only")
                elif isinstance(a, (ast.Tuple, ast.List)) and not any(isinstance(e_, ast.Starred) for e_ in a.elts):
                    # a display: every element is a string literal, an f-string or a str()/repr()/format() value
                    def strish(e_):
                        return isinstance(e_, ast.JoinedStr) or (isinstance(e_, ast.Constant) and isinstance(e_.value, str)) or \
                            (isinstance(e_, ast.Call) and isinstance(e_.func, ast.Name) and e_.func.id in ("str", "repr", "format"))
                    if all(strish(e_) for e_ in a.elts):
                        rep.ok("C19.6", f.site, what, "every element of the display is a string literal / str() / repr() value", nontrivial=False)
                    else:
                        rep.unk("C19.6", f.site, what, "cannot tell whether every element of the display is a string")
                else:
                    rep.unk("C19.6", f.site, what, "unrecognised join argument")


# ---- C19.15 ----------------------------------------------------------------------------------------------
def _is_path_join(e):
    """SEP.join(str(p) for p in PATH): the encoding of a path as one string."""
    return isinstance(e, ast.Call) and isinstance(e.func, ast.Attribute) and e.func.attr == "join" and \
        (isinstance(e.func.value, ast.Constant) and isinstance(e.func.value.value, str) or isinstance(e.func.value, ast.Name)) and \
        len(e.args) == 1 and isinstance(e.args[0], (ast.GeneratorExp, ast.ListComp)) and \
        isinstance(e.args[0].elt, ast.Call) and isinstance(e.args[0].elt.func, ast.Name) and e.args[0].elt.func.id == "str"


def _closure(idx, f):
    """f and the package functions it calls (methods of its class through self., module-level / imported functions), two levels."""
    out, todo, seen = [], [(f, 0)], set()
    while todo:
        g, depth = todo.pop()
        if g.site in seen:
            continue
        seen.add(g.site)
        out.append(g)
        if depth >= 2:
            continue
        for n in ast.walk(g.node):
            if not isinstance(n, ast.Call):
                continue
            h = None
            if isinstance(n.func, ast.Attribute) and isinstance(n.func.value, ast.Name) and n.func.value.id in ("self", "cls") and g.cls is not None:
                h = idx.lookup_method(g.cls, n.func.attr)
            elif isinstance(n.func, ast.Name):
                h = idx.resolve_function(g.module, n.func.id)
                if h is None and g.cls is not None:
                    h = idx.lookup_method(g.cls, n.func.id)
            if h is not None:
                todo.append((h, depth + 1))
    return out


def _joins_path(idx, f, e, depth=0):
    """e encodes a path as one string: SEP.join(str(p) for p in PATH) / SEP.join(map(str, PATH)), directly or through a package helper
    whose single return does."""
    if _is_path_join(e):
        return True
    if isinstance(e, ast.Call) and isinstance(e.func, ast.Attribute) and e.func.attr == "join" and isinstance(e.func.value, ast.Constant) and \
            len(e.args) == 1 and isinstance(e.args[0], ast.Call) and isinstance(e.args[0].func, ast.Name) and e.args[0].func.id == "map" and \
            len(e.args[0].args) == 2 and isinstance(e.args[0].args[0], ast.Name) and e.args[0].args[0].id == "str":
        return True
    if isinstance(e, ast.IfExp):
        return _joins_path(idx, f, e.body, depth) or _joins_path(idx, f, e.orelse, depth)
    if isinstance(e, ast.Call) and depth < 2:
        h = None
        if isinstance(e.func, ast.Name):
            h = idx.resolve_function(f.module, e.func.id)
        elif isinstance(e.func, ast.Attribute) and isinstance(e.func.value, ast.Name) and e.func.value.id in ("self", "cls") and f.cls is not None:
            h = idx.lookup_method(f.cls, e.func.attr)
        if h is not None:
            rets = [n for n in ast.walk(h.node) if isinstance(n, ast.Return) and n.value is not None]
            return len(rets) == 1 and _joins_path(idx, h, rets[0].value, depth + 1)
    return False


def _guards_registration(g, node):
    """The comparison `node` of function g decides a registration: it is (part of) the test of an `if` / conditional expression --
    directly or through a local flag bound to it -- whose arms register a submodule, yield a name or rebind a name."""
    def decides(test_holder):
        for x in ast.walk(test_holder):
            if isinstance(x, ast.Assign):
                for t in x.targets:
                    if isinstance(t, ast.Subscript) and isinstance(t.value, ast.Attribute) and t.value.attr == "submodules":
                        return True
                    if isinstance(t, ast.Name):
                        return True
            if isinstance(x, ast.AugAssign) and isinstance(x.target, ast.Attribute) and x.target.attr == "submodules":
                return True
            if isinstance(x, (ast.Yield, ast.Return)):
                return True
        return False
    flags = set()
    for st in ast.walk(g.node):
        if isinstance(st, ast.Assign) and len(st.targets) == 1 and isinstance(st.targets[0], ast.Name) and any(x is node for x in ast.walk(st.value)):
            flags.add(st.targets[0].id)
    for st in ast.walk(g.node):
        if isinstance(st, (ast.If, ast.While)):
            if (any(x is node for x in ast.walk(st.test)) or any(isinstance(x, ast.Name) and x.id in flags for x in ast.walk(st.test))) and decides(st):
                return True
        if isinstance(st, ast.IfExp):
            if any(x is node for x in ast.walk(st.test)) or any(isinstance(x, ast.Name) and x.id in flags for x in ast.walk(st.test)):
                return True
    return False


def _unique_when_true(node):
    """True / False: the comparison holds exactly when the name is unique / exactly when it is ambiguous.  None: neither."""
    op = type(node.ops[0]).__name__
    rhs = node.comparators[0]
    if isinstance(node.left, ast.Call) and isinstance(node.left.func, ast.Attribute) and node.left.func.attr == "count" and isinstance(rhs, ast.Constant):
        if (op, rhs.value) in (("Eq", 1), ("Lt", 2), ("LtE", 1)):
            return True
        if (op, rhs.value) in (("NotEq", 1), ("Gt", 1), ("GtE", 2)):
            return False
        return None
    # len(set(L + [c1, ..., ck])) == len(L) + k
    for a_, b_ in ((node.left, rhs), (rhs, node.left)):
        if isinstance(a_, ast.Call) and isinstance(a_.func, ast.Name) and a_.func.id == "len" and a_.args and isinstance(a_.args[0], ast.Call) and \
                isinstance(a_.args[0].func, ast.Name) and a_.args[0].func.id == "set":
            inner = a_.args[0].args[0] if a_.args[0].args else None
            k = 0
            lst = None
            if isinstance(inner, ast.BinOp) and isinstance(inner.op, ast.Add):
                for side in (inner.left, inner.right):
                    if isinstance(side, (ast.List, ast.Tuple)):
                        k += len(side.elts)
                    elif isinstance(side, ast.Name):
                        lst = side.id
            elif isinstance(inner, ast.Name):
                lst = inner.id
            if lst is None:
                return None
            want = f"len({lst})" + (f" + {k}" if k else "")
            if ast.unparse(b_).replace(" ", "") in (want.replace(" ", ""), (f"{k}+len({lst})" if k else want).replace(" ", "")):
                return True if op == "Eq" else (False if op == "NotEq" else None)
            return None
    return None


def _guard_polarity(g, node):
    """For the `if` statements of g whose test is the comparison `node` (possibly negated, possibly through a local flag): is the joined
    name used in the arm where the name is unique?  'ok' / 'reversed' / None (cannot tell)."""
    uw = _unique_when_true(node)
    if uw is None:
        return 'meaningless'
    flags = {}
    for st in ast.walk(g.node):
        if isinstance(st, ast.Assign) and len(st.targets) == 1 and isinstance(st.targets[0], ast.Name):
            v, neg = st.value, False
            while isinstance(v, ast.UnaryOp) and isinstance(v.op, ast.Not):
                v, neg = v.operand, not neg
            if v is node:
                flags[st.targets[0].id] = neg

    def named_joined(stmts):
        for s_ in stmts:
            for x in ast.walk(s_):
                if isinstance(x, ast.Assign) and len(x.targets) == 1 and isinstance(x.targets[0], ast.Subscript) and \
                        isinstance(x.targets[0].value, ast.Attribute) and x.targets[0].value.attr == "submodules":
                    key = x.targets[0].slice
                    if not (isinstance(key, ast.JoinedStr) and any(isinstance(v_, ast.FormattedValue) for v_ in key.values)):
                        return True
                if isinstance(x, ast.Yield) and isinstance(x.value, ast.Tuple) and x.value.elts and not isinstance(x.value.elts[0], (ast.JoinedStr, ast.Constant)):
                    return True
        return False

    def other_way(stmts):
        for s_ in stmts:
            for x in ast.walk(s_):
                if isinstance(x, ast.AugAssign) and isinstance(x.target, ast.Attribute) and x.target.attr == "submodules":
                    return True
                if isinstance(x, ast.Assign) and len(x.targets) == 1 and isinstance(x.targets[0], ast.Subscript) and \
                        isinstance(x.targets[0].value, ast.Attribute) and x.targets[0].value.attr == "submodules" and \
                        isinstance(x.targets[0].slice, ast.JoinedStr):
                    return True
                if isinstance(x, ast.Yield) and isinstance(x.value, ast.Tuple) and x.value.elts and isinstance(x.value.elts[0], ast.JoinedStr):
                    return True
                if isinstance(x, ast.Assign) and isinstance(x.value, ast.Constant) and x.value.value is None:
                    return True
        return False
    verdicts = []
    for st in ast.walk(g.node):
        if not isinstance(st, ast.If):
            continue
        # polarity of the node inside the test: only plain / negated / conjunction forms are judged
        t, neg = st.test, False
        while isinstance(t, ast.UnaryOp) and isinstance(t.op, ast.Not):
            t, neg = t.operand, not neg
        # the arm in which a *conjunction* of parts holds: `if a and b` -> body; `if not (a and b)` -> else;
        # `if (not a) or (not b)` -> else, with the parts negated; `if not (a or b)` -> body, with the parts negated
        conj_arm, rest_arm, part_neg = st.body, st.orelse, False
        if isinstance(t, ast.BoolOp) and isinstance(t.op, ast.And):
            parts = t.values
            if neg:
                conj_arm, rest_arm = st.orelse, st.body
        elif isinstance(t, ast.BoolOp) and isinstance(t.op, ast.Or):
            parts, part_neg = t.values, True
            if not neg:
                conj_arm, rest_arm = st.orelse, st.body
        else:
            parts, part_neg = [t], neg
        pos = None
        for p_ in parts:
            q, n2 = p_, part_neg
            while isinstance(q, ast.UnaryOp) and isinstance(q.op, ast.Not):
                q, n2 = q.operand, not n2
            if q is node:
                pos = not n2
            elif isinstance(q, ast.Name) and q.id in flags:
                pos = (not n2) != flags[q.id]
        if pos is None:
            continue
        unique_arm, other_arm = (conj_arm, rest_arm) if (pos == uw) else (rest_arm, conj_arm)
        if named_joined(unique_arm) and (other_way(other_arm) or not named_joined(other_arm)):
            verdicts.append('ok')
        elif named_joined(other_arm) and not named_joined(unique_arm):
            verdicts.append('reversed')
    if 'reversed' in verdicts:
        return 'reversed'
    return 'ok' if verdicts else None


def _dedupe_evidence(idx, f, fixed):
    """Structural evidence of a uniqueness mechanism in f's closure: (what it is, whether the fixed names take part).  None if absent
    or if the test does not decide any registration; the string 'reversed' / 'meaningless' when the test is there but the joined name
    is used in the wrong arm / the comparison does not say "unique"."""
    r = _dedupe_evidence0(idx, f, fixed)
    if r is None:
        return None
    what, inc, g, node = r
    if not _guards_registration(g, node):
        return None
    pol = _guard_polarity(g, node)
    if pol in ('reversed', 'meaningless'):
        return (what, pol)
    return what, inc


def _dedupe_evidence0(idx, f, fixed):
    for g in _closure(idx, f):
        binds = {}
        for st in ast.walk(g.node):
            if isinstance(st, ast.Assign) and len(st.targets) == 1 and isinstance(st.targets[0], ast.Name):
                binds.setdefault(st.targets[0].id, []).append(st.value)

        def names_list(e):
            """(is a list of every item's joined name, constants it contains)"""
            parts = []

            def flat(x):
                if isinstance(x, ast.BinOp) and isinstance(x.op, ast.Add):
                    flat(x.left)
                    flat(x.right)
                else:
                    parts.append(x)
            flat(e)
            consts = {x.value for p_ in parts if isinstance(p_, (ast.List, ast.Tuple)) for x in p_.elts if isinstance(x, ast.Constant)}
            comp = any(isinstance(p_, (ast.ListComp, ast.GeneratorExp)) and _joins_path(idx, g, p_.elt) for p_ in parts) or \
                any(isinstance(p_, ast.Call) and isinstance(p_.func, ast.Name) and p_.func.id == "list" and p_.args and
                    isinstance(p_.args[0], (ast.ListComp, ast.GeneratorExp)) and _joins_path(idx, g, p_.args[0].elt) for p_ in parts)
            names = [p_.id for p_ in parts if isinstance(p_, ast.Name)]
            # list(L) / tuple(L) / sorted(L): a copy of the list L
            names += [p_.args[0].id for p_ in parts if isinstance(p_, ast.Call) and isinstance(p_.func, ast.Name) and
                      p_.func.id in ("list", "tuple", "sorted") and len(p_.args) == 1 and isinstance(p_.args[0], ast.Name)]
            for nm in names:
                if len(binds.get(nm, ())) == 1:
                    c2, k2 = names_list(binds[nm][0])
                    comp = comp or c2
                    consts |= k2
            return comp, consts
        for n in ast.walk(g.node):
            # L.count(x) compared with 1 / 2
            if isinstance(n, ast.Compare) and len(n.ops) == 1 and isinstance(n.left, ast.Call) and isinstance(n.left.func, ast.Attribute) and \
                    n.left.func.attr == "count" and len(n.left.args) == 1 and isinstance(n.comparators[0], ast.Constant) and \
                    (type(n.ops[0]).__name__, n.comparators[0].value) in (("Eq", 1), ("Lt", 2), ("LtE", 1), ("NotEq", 1), ("Gt", 1), ("GtE", 2)) and \
                    isinstance(n.left.func.value, ast.Name):
                lst = n.left.func.value.id
                src = binds.get(lst, [])
                if len(src) == 1:
                    comp, consts = names_list(src[0])
                    if comp:
                        return f"`{ast.unparse(n)}` over the list `{lst}` of every item's joined name", fixed <= consts, g, n
                elif not src and lst in [a.arg for a in g.node.args.args + g.node.args.kwonlyargs]:
                    # the list is handed in by the caller: look for the argument there
                    for h in _closure(idx, f):
                        for c_ in ast.walk(h.node):
                            if isinstance(c_, ast.Call) and (isinstance(c_.func, ast.Attribute) and c_.func.attr == g.node.name or
                                                             isinstance(c_.func, ast.Name) and c_.func.id == g.node.name):
                                for a_ in list(c_.args) + [k.value for k in c_.keywords]:
                                    if isinstance(a_, ast.Name):
                                        hb = [s_.value for s_ in ast.walk(h.node) if isinstance(s_, ast.Assign) and len(s_.targets) == 1 and
                                              isinstance(s_.targets[0], ast.Name) and s_.targets[0].id == a_.id]
                                        if len(hb) == 1:
                                            saved, binds2 = binds, {}
                                            comp, consts = names_list(hb[0])
                                            if comp:
                                                return (f"`{ast.unparse(n)}` in {g.qual} over the list `{a_.id}` of every item's joined name "
                                                        f"(built in {h.qual})"), fixed <= consts, g, n
            # len(set(L + [fixed...])) == len(L) + k
            if isinstance(n, ast.Compare) and len(n.ops) == 1 and isinstance(n.ops[0], (ast.Eq, ast.NotEq)):
                for a_ in (n.left, n.comparators[0]):
                    if isinstance(a_, ast.Call) and isinstance(a_.func, ast.Name) and a_.func.id == "len" and len(a_.args) == 1 and \
                            isinstance(a_.args[0], ast.Call) and isinstance(a_.args[0].func, ast.Name) and a_.args[0].func.id == "set" and \
                            len(a_.args[0].args) == 1:
                        comp, consts = names_list(a_.args[0].args[0])
                        if comp:
                            return f"`{ast.unparse(n)[:80]}`: all joined names and {sorted(consts)} pairwise distinct", fixed <= consts, g, n
    return None


def _other_uniqueness_mechanism(idx, f):
    """A counting dictionary (`d[x] = d.get(x, 0) + 1` ... `d[x] > 1`) or a set of names taken so far (`if x in taken: ...` /
    `taken.add(x)`) in f or a helper it calls: evidence that *some* uniqueness test exists."""
    for g in _closure(idx, f):
        adds, tests, counts, ctests = set(), set(), set(), set()
        for n in ast.walk(g.node):
            if isinstance(n, ast.Call) and isinstance(n.func, ast.Attribute) and n.func.attr == "add" and isinstance(n.func.value, ast.Name):
                adds.add(n.func.value.id)
            if isinstance(n, ast.Compare) and len(n.ops) == 1 and isinstance(n.ops[0], (ast.In, ast.NotIn)) and isinstance(n.comparators[0], ast.Name):
                tests.add(n.comparators[0].id)
            if isinstance(n, ast.Assign) and len(n.targets) == 1 and isinstance(n.targets[0], ast.Subscript) and \
                    isinstance(n.targets[0].value, ast.Name) and isinstance(n.value, ast.BinOp) and isinstance(n.value.op, ast.Add) and \
                    any(isinstance(x, ast.Call) and isinstance(x.func, ast.Attribute) and x.func.attr == "get" and
                        isinstance(x.func.value, ast.Name) and x.func.value.id == n.targets[0].value.id for x in ast.walk(n.value)):
                counts.add(n.targets[0].value.id)
            if isinstance(n, ast.Compare) and len(n.ops) == 1 and isinstance(n.left, ast.Subscript) and isinstance(n.left.value, ast.Name) and \
                    isinstance(n.comparators[0], ast.Constant) and n.comparators[0].value in (1, 2):
                ctests.add(n.left.value.id)
        for n in ast.walk(g.node):
            # a set-size or count comparison the exact recogniser did not place (the list is rebound afterwards, the fixed names are
            # tested separately ...)
            if isinstance(n, ast.Compare) and any(
                    isinstance(x, ast.Call) and isinstance(x.func, ast.Name) and x.func.id == "len" and len(x.args) == 1 and
                    isinstance(x.args[0], ast.Call) and isinstance(x.args[0].func, ast.Name) and x.args[0].func.id in ("set", "frozenset")
                    for x in ast.walk(n)) and _guards_registration(g, n):
                return f"a set-size comparison (`{ast.unparse(n)[:70]}`) in {g.qual}"
        if adds & tests:
            return f"a set of names taken so far (`{sorted(adds & tests)[0]}`) in {g.qual}"
        if counts & ctests:
            return f"a dictionary that counts the uses of every name (`{sorted(counts & ctests)[0]}`) in {g.qual}"
    return None


def computed_submodule_names(rep, idx):
    """amaranth's Module refuses a second submodule of the same name (NameError).  A name computed from a *path* by joining its
    parts is not an injective encoding -- ("a", "b") and ("a__b",), ("x", 0) and ("x", "0"), or a path that spells one of the
    fixed names of the same module, give one name -- while the layouts themselves are accepted (distinct, prefix-free names).
    Every module that registers submodules under such computed names needs a uniqueness mechanism: the joined name is used only
    when it occurs once among all the names of the module (every item's and the fixed ones); otherwise the submodule is added
    anonymously or under a positional name.  The rule first tries to recognise the exact guard (full claim); failing that it
    accepts structural evidence of the mechanism in the function and the helpers it calls (a count / set-size test over the list
    of every item's joined name, fixed names included, plus an alternative registration) and says so; with no such test at all the
    collision is certain for some accepted layout: a violation."""
    opened = getattr(idx, "fully_opened", ())
    sites = []
    for f in idx.all_functions():
        if f.site in opened:
            continue
        for st in ast.walk(f.node):
            if isinstance(st, ast.Assign) and len(st.targets) == 1 and isinstance(st.targets[0], ast.Subscript) and \
                    isinstance(st.targets[0].value, ast.Attribute) and st.targets[0].value.attr == "submodules" and \
                    not isinstance(st.targets[0].slice, ast.Constant):
                sites.append((f, st))
    n = 0
    LOSSY = ("sub", "subn", "replace", "lower", "upper", "casefold", "strip", "lstrip", "rstrip", "translate", "title", "capitalize",
             "swapcase", "expandtabs", "removeprefix", "removesuffix", "split", "partition")
    for f, st in sites:
        n += 1
        what = f"m.submodules[{ast.unparse(st.targets[0].slice)[:50]}] gets a name no other submodule of the module has"
        # the registered name is the tested name: a transformation applied after the uniqueness test (characters replaced, case
        # folded, the text cut) maps distinct names to one again -- unless the tested list holds the transformed names, too
        key = st.targets[0].slice
        if isinstance(key, ast.Name):
            bs = [b.value for b in ast.walk(f.node) if isinstance(b, ast.Assign) and len(b.targets) == 1 and
                  isinstance(b.targets[0], ast.Name) and b.targets[0].id == key.id]
            if len(bs) == 1:
                key = bs[0]
        lossy = [c_ for c_ in ast.walk(key) if isinstance(c_, ast.Call) and isinstance(c_.func, ast.Attribute) and c_.func.attr in LOSSY and
                 any(_joins_path(idx, f, x) for x in ast.walk(c_) if isinstance(x, (ast.Call, ast.IfExp)) and x is not c_)] + \
                [c_ for c_ in ast.walk(key) if isinstance(c_, ast.Subscript) and isinstance(c_.slice, ast.Slice) and
                 any(_joins_path(idx, f, x) for x in ast.walk(c_.value) if isinstance(x, (ast.Call, ast.IfExp)))]
        if lossy:
            how = ast.unparse(lossy[0].func) if isinstance(lossy[0], ast.Call) else "a slice"
            tested_same = any(isinstance(x, (ast.ListComp, ast.GeneratorExp, ast.SetComp)) and
                              any(isinstance(y, ast.Call) and isinstance(y.func, ast.Attribute) and isinstance(lossy[0], ast.Call) and
                                  y.func.attr == lossy[0].func.attr for y in ast.walk(x.elt))
                              for g in _closure(idx, f) for x in ast.walk(g.node))
            if not tested_same:
                rep.bad("C19.15", f.site, what, f"the joined name goes through `{how}(...)` before it is used as the submodule name, and no list of names "
                        "that a uniqueness test looks at is transformed the same way: names that differ only in what the transformation "
                        "discards (`irq.en` and `irq-en`, `A` and `a`) are distinct for the test and equal for Module, which raises "
                        "NameError('Submodule named ... already exists') at elaboration", line=st.lineno)
                continue
        verdict = _exact_unique_name(idx, f, st)
        if verdict[0] in ("ok", "bad"):
            (rep.ok if verdict[0] == "ok" else rep.bad)("C19.15", f.site, what, verdict[1], **({"line": st.lineno} if verdict[0] == "bad" else {}))
            continue
        # structural evidence in the closure
        fixed = set()
        keys = []
        for g in _closure(idx, f):
            for x in ast.walk(g.node):
                if isinstance(x, ast.Assign):
                    for t in x.targets:
                        if isinstance(t, ast.Attribute) and isinstance(t.value, ast.Attribute) and t.value.attr == "submodules":
                            fixed.add(t.attr)
                        if isinstance(t, ast.Subscript) and isinstance(t.value, ast.Attribute) and t.value.attr == "submodules" and \
                                isinstance(t.slice, ast.Constant):
                            fixed.add(t.slice.value)
                if isinstance(x, ast.Yield) and isinstance(x.value, ast.Tuple) and len(x.value.elts) == 2 and \
                        isinstance(x.value.elts[0], ast.Constant) and isinstance(x.value.elts[0].value, str):
                    fixed.add(x.value.elts[0].value)            # (name, submodule) pairs produced by a generator helper
        joins = any(_joins_path(idx, g, x) for g in _closure(idx, f) for x in ast.walk(g.node) if isinstance(x, (ast.Call, ast.IfExp)))
        ev = _dedupe_evidence(idx, f, fixed)
        def positional(e):
            return isinstance(e, ast.JoinedStr) and any(isinstance(v_, ast.FormattedValue) for v_ in e.values)
        alt = False
        for g in _closure(idx, f):
            for x in ast.walk(g.node):
                if isinstance(x, ast.AugAssign) and isinstance(x.target, ast.Attribute) and x.target.attr == "submodules":
                    alt = True                              # anonymous registration
                if isinstance(x, ast.Assign) and len(x.targets) == 1 and isinstance(x.targets[0], ast.Subscript) and \
                        isinstance(x.targets[0].value, ast.Attribute) and x.targets[0].value.attr == "submodules" and positional(x.targets[0].slice):
                    alt = True                              # positional name
                if isinstance(x, ast.Yield) and isinstance(x.value, ast.Tuple) and x.value.elts and positional(x.value.elts[0]):
                    alt = True
                if isinstance(x, ast.IfExp) and (positional(x.body) or positional(x.orelse)):
                    alt = True                              # the name itself is a choice between the joined and the positional one
        other = _other_uniqueness_mechanism(idx, f) if ev is None else None
        if not joins:
            rep.unk("C19.15", f.site, what, verdict[1])
        elif ev is None and other is not None:
            rep.unk("C19.15", f.site, what, f"the joined names go through {other}: a uniqueness mechanism of another shape than the ones the rule "
                    "re-derives (count / set-size over the list of all names); whether it covers every name of the module is not decided")
        elif ev is None:
            rep.bad("C19.15", f.site, what,
                    "the name encodes a path by joining its parts, which is not injective (('a', 'b') and ('a__b',) -- or an index 0 and a part "
                    "'0' -- give the same string" + (f", and a path may spell the fixed name(s) {sorted(fixed)} of this module" if fixed else "")
                    + "), and neither this function nor a helper it calls tests the names for uniqueness: the layouts are accepted, and Module "
                    "raises NameError('Submodule named ... already exists') when they are elaborated", line=st.lineno)
        elif ev[1] == 'reversed':
            rep.bad("C19.15", f.site, what, f"a uniqueness test is present ({ev[0]}) but the joined name is used in the arm where it is *not* unique "
                    "(and the fallback where it is): ambiguous names still collide", line=st.lineno)
        elif ev[1] == 'meaningless':
            rep.bad("C19.15", f.site, what, f"the test ({ev[0]}) does not separate unique names from ambiguous ones (wrong constant or arithmetic): "
                    "ambiguous names can still be used as submodule names", line=st.lineno)
        elif not ev[1]:
            rep.bad("C19.15", f.site, what, f"the uniqueness test ({ev[0]}) does not include the fixed submodule name(s) {sorted(fixed)} of the same "
                    "module: an item whose path spells one of them still collides", line=st.lineno)
        elif not alt:
            rep.unk("C19.15", f.site, what, f"a uniqueness test is present ({ev[0]}) but no alternative registration (anonymous or positional) was found")
        else:
            rep.ok("C19.15", f.site, what, f"uniqueness mechanism present -- {ev[0]}" + (f", fixed name(s) {sorted(fixed)} included" if fixed else "")
                   + "; an alternative registration exists for ambiguous names (structural evidence: the guard's control flow is not re-derived)")
    rep.count("computed_submodule_names", n)


def _exact_unique_name(idx, f, st):
    """("ok" | "bad" | "unk", detail) for one `m.submodules[<computed>] = x` statement of f, by exact recognition of the guard."""
    res = []

    class _R:
        def ok(self, rule, site, what, detail, **kw):
            res.append(("ok", detail))

        def bad(self, rule, site, what, detail, **kw):
            res.append(("bad", detail))

        def unk(self, rule, site, what, detail, **kw):
            res.append(("unk", detail))

        def count(self, *a, **k):
            pass
    _exact_unique_names(_R(), idx, f, st)
    if not res:
        return ("unk", "the statement was not classified")
    # an exact "bad" (no guard at the statement) is only final when the closure shows no uniqueness test either: left to the caller
    if res[0][0] == "bad":
        return ("unk", res[0][1])
    return res[0]


def _exact_unique_names(rep, idx, only_f, only_st):
    """amaranth's Module refuses a second submodule of the same name (NameError).  A name computed from a *path* by joining its
    parts is not an injective encoding -- ("a", "b") and ("a__b",), ("x", 0) and ("x", "0"), or a path that spells one of the
    fixed names of the same module, give one name -- while the layouts themselves are accepted (distinct, prefix-free names).
    Every `m.submodules[<computed>] = x` must therefore be guarded: only names that occur once among all the names the module
    uses (the computed ones of every item and the fixed ones) are used as names; the other submodules are added anonymously."""
    n = 0
    for f in [only_f]:
        parents = {}
        for a in ast.walk(f.node):
            for ch in ast.iter_child_nodes(a):
                parents[id(ch)] = a
        fixed = set()
        for st in ast.walk(f.node):
            if isinstance(st, ast.Assign):
                for t in st.targets:
                    if isinstance(t, ast.Attribute) and isinstance(t.value, ast.Attribute) and t.value.attr == "submodules":
                        fixed.add(t.attr)
                    if isinstance(t, ast.Subscript) and isinstance(t.value, ast.Attribute) and t.value.attr == "submodules" and \
                            isinstance(t.slice, ast.Constant):
                        fixed.add(t.slice.value)
        binds = {}
        for st in ast.walk(f.node):
            if isinstance(st, ast.Assign) and len(st.targets) == 1 and isinstance(st.targets[0], ast.Name):
                binds.setdefault(st.targets[0].id, []).append(st.value)
        for st in ast.walk(f.node):
            if not (isinstance(st, ast.Assign) and len(st.targets) == 1 and isinstance(st.targets[0], ast.Subscript) and
                    isinstance(st.targets[0].value, ast.Attribute) and st.targets[0].value.attr == "submodules" and
                    not isinstance(st.targets[0].slice, ast.Constant)):
                continue
            if st is not only_st:
                continue
            key = st.targets[0].slice
            key_name = key.id if isinstance(key, ast.Name) else None
            if key_name is not None and len(binds.get(key_name, ())) == 1:
                key = binds[key_name][0]
            what = f"m.submodules[{ast.unparse(st.targets[0].slice)[:50]}] gets a name no other submodule of the module has"
            n += 1
            in_loop = False
            p_ = parents.get(id(st))
            guards = []
            node = st
            while p_ is not None and not isinstance(p_, (ast.FunctionDef, ast.AsyncFunctionDef)):
                if isinstance(p_, (ast.For, ast.While)):
                    in_loop = True
                if isinstance(p_, ast.If):
                    guards.append((p_.test, node in p_.body))
                node, p_ = p_, parents.get(id(p_))
            if not _is_path_join(key):
                # f"<const>{i}<const>" with i the position counter of the enclosing enumerate() loop: one name per item; it cannot equal
                # a fixed name that does not have that shape
                loop = None
                p2 = parents.get(id(st))
                while p2 is not None and not isinstance(p2, (ast.FunctionDef, ast.AsyncFunctionDef)):
                    if isinstance(p2, ast.For) and loop is None:
                        loop = p2
                    p2 = parents.get(id(p2))
                counter = None
                if loop is not None and isinstance(loop.iter, ast.Call) and isinstance(loop.iter.func, ast.Name) and loop.iter.func.id == "enumerate" and \
                        isinstance(loop.target, ast.Tuple) and isinstance(loop.target.elts[0], ast.Name):
                    counter = loop.target.elts[0].id
                if isinstance(key, ast.JoinedStr) and counter is not None:
                    fmts = [v_ for v_ in key.values if isinstance(v_, ast.FormattedValue)]
                    lits = "".join(v_.value for v_ in key.values if isinstance(v_, ast.Constant))
                    if len(fmts) == 1 and isinstance(fmts[0].value, ast.Name) and fmts[0].value.id == counter and fmts[0].format_spec is None:
                        import re as _re
                        pre = key.values[0].value if isinstance(key.values[0], ast.Constant) else ""
                        post = key.values[-1].value if isinstance(key.values[-1], ast.Constant) and len(key.values) > 1 else ""
                        clash = [x for x in fixed if isinstance(x, str) and _re.fullmatch(_re.escape(pre) + r"\d+" + _re.escape(post), x)]
                        # the other computed names of the same loop must be mutually exclusive with this one (another arm of one choice)
                        others = [o for o in ast.walk(loop) if isinstance(o, ast.Assign) and o is not st and len(o.targets) == 1 and
                                  isinstance(o.targets[0], ast.Subscript) and isinstance(o.targets[0].value, ast.Attribute) and
                                  o.targets[0].value.attr == "submodules"]
                        def arm_of(node):
                            q = parents.get(id(node))
                            ch = node
                            while q is not None and q is not loop:
                                if isinstance(q, ast.If):
                                    return q, ch in q.body
                                ch, q = q, parents.get(id(q))
                            return None, None
                        mine = arm_of(st)
                        excl = all(arm_of(o)[0] is mine[0] and mine[0] is not None and arm_of(o)[1] != mine[1] for o in others)
                        if not clash and excl:
                            rep.ok("C19.15", f.site, what, f"`{ast.unparse(key)}` with the position counter of the enclosing enumerate() loop: one name per item"
                                   + (", used instead of (never together with) the other naming scheme of the loop" if others else ""))
                            continue
                if isinstance(key, ast.JoinedStr) and in_loop:
                    rep.unk("C19.15", f.site, what, "the name is an f-string computed per item; whether it is unique per item is not decided")
                elif in_loop:
                    rep.unk("C19.15", f.site, what, f"the name `{ast.unparse(key)[:50]}` is computed per item; its uniqueness is not decided")
                else:
                    rep.ok("C19.15", f.site, what, "one computed name outside any loop", nontrivial=False)
                continue
            # the guard: <names>.count(<key>) == 1, with <names> a local list of the same encoding of every item (+ the fixed names)
            okg = None
            for test, positive in guards:
                for c_ in ast.walk(test):
                    if isinstance(c_, ast.Compare) and len(c_.ops) == 1 and isinstance(c_.left, ast.Call) and isinstance(c_.left.func, ast.Attribute) and \
                            c_.left.func.attr == "count" and isinstance(c_.left.func.value, ast.Name) and len(c_.left.args) == 1 and \
                            (ast.dump(c_.left.args[0]) == ast.dump(st.targets[0].slice) or ast.dump(c_.left.args[0]) == ast.dump(key)):
                        one = isinstance(c_.comparators[0], ast.Constant) and c_.comparators[0].value == 1
                        if positive and one and isinstance(c_.ops[0], ast.Eq):
                            okg = c_.left.func.value.id
            if okg is None:
                # the same test made once for the whole module: a flag `len(set(<names> + [<fixed>...])) == len(<names>) + k`
                for test, positive in guards:
                    if positive and isinstance(test, ast.Name) and len(binds.get(test.id, ())) == 1:
                        fl = binds[test.id][0]
                        if isinstance(fl, ast.Compare) and len(fl.ops) == 1 and isinstance(fl.ops[0], ast.Eq):
                            a_, b_ = fl.left, fl.comparators[0]
                            def len_set(e):
                                if isinstance(e, ast.Call) and isinstance(e.func, ast.Name) and e.func.id == "len" and len(e.args) == 1 and \
                                        isinstance(e.args[0], ast.Call) and isinstance(e.args[0].func, ast.Name) and e.args[0].func.id == "set" and \
                                        len(e.args[0].args) == 1:
                                    return e.args[0].args[0]
                                return None
                            inner = len_set(a_)
                            if inner is not None and isinstance(inner, ast.BinOp) and isinstance(inner.op, ast.Add) and isinstance(inner.left, ast.Name) and \
                                    isinstance(inner.right, (ast.List, ast.Tuple)) and all(isinstance(x, ast.Constant) for x in inner.right.elts):
                                lst = inner.left.id
                                k_ = len(inner.right.elts)
                                consts_ = {x.value for x in inner.right.elts}
                                want_b = f"len({lst}) + {k_}"
                                src_ = binds.get(lst, [])
                                if ast.unparse(b_) == want_b and len(consts_) == k_ and len(src_) == 1 and isinstance(src_[0], ast.ListComp) and \
                                        _is_path_join(src_[0].elt):
                                    if fixed <= consts_:
                                        okg = ("flag", test.id)
                                    else:
                                        rep.bad("C19.15", f.site, what, f"the uniqueness test `{test.id}` does not include the fixed submodule name(s) "
                                                f"{sorted(fixed - consts_)} of the same module: an item whose path spells one of them still collides", line=st.lineno)
                                        okg = ("reported", None)
                if isinstance(okg, tuple):
                    if okg[0] == "flag":
                        rep.ok("C19.15", f.site, what, f"used only when `{okg[1]}` holds: all joined names and the fixed name(s) {sorted(fixed)} are pairwise distinct")
                    continue
            if okg is None:
                rep.bad("C19.15", f.site, what,
                        f"the name is `{ast.unparse(key)[:70]}`: joining the parts of a path is not injective (('a', 'b') and ('a__b',) -- or an "
                        "index 0 and a part '0' -- give the same string"
                        + (f", and a path may spell the fixed name{'s' if len(fixed) > 1 else ''} {sorted(fixed)} of this module" if fixed else "")
                        + "); the layouts are accepted, and Module raises NameError('Submodule named ... already exists') when they are "
                        "elaborated", line=st.lineno)
                continue
            src = binds.get(okg, [])
            comp_ok, fixed_ok = False, not fixed
            if len(src) == 1:
                parts = []

                def flat(e):
                    if isinstance(e, ast.BinOp) and isinstance(e.op, ast.Add):
                        flat(e.left)
                        flat(e.right)
                    else:
                        parts.append(e)
                flat(src[0])
                comp_ok = any(isinstance(e, ast.ListComp) and _is_path_join(e.elt) for e in parts)
                consts = {x.value for e in parts if isinstance(e, (ast.List, ast.Tuple)) for x in e.elts if isinstance(x, ast.Constant)}
                fixed_ok = fixed <= consts
            if comp_ok and fixed_ok:
                rep.ok("C19.15", f.site, what, f"used only when it occurs once in `{okg}` (every item's name"
                       + (f" and the fixed name{'s' if len(fixed) > 1 else ''} {sorted(fixed)}" if fixed else "") + "); otherwise the submodule is anonymous")
            elif comp_ok:
                rep.bad("C19.15", f.site, what, f"the uniqueness test over `{okg}` does not include the fixed submodule name(s) {sorted(fixed)} of the same "
                        "module: an item whose path spells one of them still collides", line=st.lineno)
            else:
                rep.unk("C19.15", f.site, what, f"the uniqueness test counts in `{okg}`, which is not recognised as the list of every item's name")
    rep.count("computed_submodule_names", n)


# ---- C19.14 ----------------------------------------------------------------------------------------------
def clamped_pattern_width(rep, idx):
    """wishbone.Decoder decodes `self.bus.adr` (addr_width bits, from wishbone.Signature) against the patterns of its memory
    map's windows, which are as wide as the *map* (MemoryMap.window_patterns: constant bits + '-' * window.addr_width =
    map.addr_width characters), less the bits the decoder trims for the granularity ratio.  Amaranth refuses a Case pattern
    whose width differs from the Switch subject (SyntaxError at elaboration).  The two widths agree when
    map.addr_width == addr_width + granularity bits; a lower clamp max(K, ...) on the map's width breaks the agreement
    for every accepted parameter combination with addr_width + granularity bits < K."""
    from .common import get_ctor, get_ctx
    try:
        cls = idx.find_class("wishbone/bus:Decoder")
    except Exception:
        return
    ctor = get_ctor(idx, cls)
    el = get_ctx(idx, cls.method("elaborate"))
    site = el.fi.site
    what = "Case patterns from the memory map are as wide as Switch(self.bus.adr)"
    mm = ctor.stored("self.bus.memory_map")
    sws = [sid for sid, s in el.t.switches.items() if el.norm(s) == el.parse("self.bus.adr")]
    from_map = any(el.norm(L.iter) == el.parse("self.bus.memory_map.window_patterns()") for L in el.t.loops.values())
    if mm is None or mm[0] != 'call' or not sws or not from_map:
        rep.unk("C19.14", site, what, "the decoder no longer stores MemoryMap(...) in its constructor or no longer decodes self.bus.adr with "
                "window_patterns(); the width agreement is not read off")
        return
    aw = dict(mm[3]).get('addr_width')
    gran = ctor.norm(ir.parse("exact_log2(data_width // granularity)"))
    E = ctor.norm(ir.parse("addr_width + exact_log2(data_width // granularity)"))
    # the phi over `granularity is None` may have been resolved into the expression; compare modulo that default
    def strip_default(e):
        return ir.subst(e, lambda x: x[3] if x[0] == 'phi' and x[2] == ('name', 'data_width') and x[3] == ('name', 'granularity') else
                        (x[2] if x[0] == 'phi' and x[3] == ('name', 'data_width') and x[2] == ('name', 'granularity') else None))
    # self.bus.<p> is the constructor parameter <p> when the port's signature is created with <p>=<p>
    alias = {}
    for n in ast.walk(cls.method("__init__").node):
        if isinstance(n, ast.Call) and ast.unparse(n.func).split(".")[-1] == "Signature":
            for k in n.keywords:
                if k.arg and isinstance(k.value, ast.Name):
                    alias[('attr', ('attr', ('name', 'self'), 'bus'), k.arg)] = ('name', k.value.id)

    def unalias(e):
        return ir.subst(e, lambda x: alias.get(x))
    awn = ctor.norm(strip_default(unalias(ctor.norm(aw)))) if aw is not None else None
    if awn is not None:
        # self.bus.granularity is the defaulted granularity: with the default resolved, data_width // granularity
        awn = ir.resort(ctor.norm(strip_default(awn)))
        if awn[0] == 'call' and awn[1] == ('name', 'max'):
            awn = (awn[0], awn[1], tuple(ir.resort(a) for a in awn[2]), awn[3])
    E = ir.resort(E)
    if awn == E:
        rep.ok("C19.14", site, what, "map.addr_width == addr_width + granularity bits for every accepted parameter combination")
        return
    if awn is not None and awn[0] == 'call' and awn[1] == ('name', 'max') and len(awn[2]) == 2 and E in awn[2] and \
            any(a[0] == 'const' and isinstance(a[1], int) for a in awn[2]):
        K = next(a[1] for a in awn[2] if a[0] == 'const')
        # is addr_width + granularity bits < K refused?  wishbone.Signature refuses addr_width < B
        sig = idx.find_func("wishbone/bus:Signature.__init__")
        bound = None
        for n in ast.walk(sig.node):
            if isinstance(n, ast.If) and any(isinstance(s, ast.Raise) for s in n.body):
                for x in ir.walk(ir.norm(ir.from_ast(n.test, {}))):
                    if x[0] == 'cmp' and x[1] == '<' and x[2] == ('name', 'addr_width') and x[3][0] == 'const':
                        bound = x[3][1]                 # addr_width < B raises: accepted addr_width >= B
                    if x[0] == 'cmp' and x[1] == '<' and x[3] == ('name', 'addr_width') and x[2][0] == 'const':
                        pass
        lowest = bound if isinstance(bound, int) else None
        if lowest is not None and lowest >= K:
            rep.ok("C19.14", site, what, f"the clamp max({K}, ...) is never active: addr_width < {lowest} is refused")
            return
        rep.bad("C19.14", site, "Switch(self.bus.adr) patterns vs clamped map width",
                f"the memory map is created {ir.show(awn)[:70]} bits wide while self.bus.adr is addr_width bits wide: for the accepted parameters "
                f"addr_width={lowest if lowest is not None else 0}, data_width == granularity the map is {K} bit wide, a window pattern has {K} character(s) "
                "and the subject 0 bits -- add() accepts the subordinate and elaborate() fails with SyntaxError (pattern width)",
                line=cls.method("__init__").node.lineno)
        return
    rep.unk("C19.14", site, what, f"map.addr_width is {ir.show(awn) if awn else None}; its agreement with addr_width + granularity bits is not decided")
