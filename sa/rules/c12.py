"""C12 — field actions keep, set and clear storage exactly as documented.

The elaborate() bodies of csr/action.py are tiny; their template *is* their one-step semantics.  Each storage
bit's next-state decision list is compared with the documented table by canonical truth table, for a
symbolic bit index (so every width is covered)."""
import ast

from ..core import dl, ir
from .common import get_ctx, require_supported, check_dl, single_unconditional, find_init_assign

EXPLANATION = ("decision lists of the field-action elaborate() bodies (R, W, RW, RW1C, RW1S, _Reserved) extracted "
               "from the syntax tree and compared with the documented per-bit tables by canonical truth table; bit "
               "index symbolic, so every field width is covered")


def storage_of(rep, c, rule):
    """Role: the storage register = whatever drives port.r_data (and data) combinationally."""
    ds = c.drivers_of(c.parse("self.port.r_data"))
    if len(ds) != 1:
        rep.bad(rule, c.fi.site, "port.r_data read-back", f"port.r_data has {len(ds)} drivers; expected one "
                "unconditional combinational driver from the storage register")
        return None
    d = ds[0]
    return c.norm(d.value)


def run(rep, idx, tier):
    rep.explanation = EXPLANATION
    rep.assume("A2", "A4")
    rep.require("C12.1", 3)
    rep.require("C12.2", 6)
    rep.require("C12.3", 5)
    rep.require("C12.4", 3)
    rep.require("C12.5", 3)
    from .c19 import shared_state
    shared_state(rep, idx, rule="C12.5", classes=["R", "W", "RW", "RW1C", "RW1S", "_Reserved", "FieldAction"])
    from .c20 import plain_member_directions
    rep.require("C12.6", 4)
    plain_member_directions(rep, idx, "C12.6", only_module="csr/action.py")
    # members of the field actions: names, directions and widths as documented (r_stb / w_stb one bit, data as wide as the field)
    rep.require("C12.7", 10)
    from .c20 import member_table
    PORT = ("In", "FieldPort.Signature(shape, access)", None)
    for spec, table in (("csr/action:R", {"r_data": ("In", "shape", None), "r_stb": ("Out", "1", None), "port": PORT}),
                        ("csr/action:W", {"w_data": ("Out", "shape", None), "w_stb": ("Out", "1", None), "port": PORT}),
                        ("csr/action:RW", {"data": ("Out", "shape", None), "port": PORT}),
                        ("csr/action:RW1C", {"data": ("Out", "shape", None), "set": ("In", "shape", None), "port": PORT}),
                        ("csr/action:RW1S", {"data": ("Out", "shape", None), "clear": ("In", "shape", None), "port": PORT})):
        try:
            member_table(rep, idx, idx.find_class(spec), table, rule="C12.7")
        except Exception as e:
            rep.unk("C12.7", "-", f"{spec}: member table", f"cannot decide: {type(e).__name__}: {e}")
    # the action constructors validate nothing themselves (FieldPort.Signature validates shape and access, Signal the initial value):
    # every (shape, init) those accept gives a field; a refusal of their own shrinks the domain the property is stated over
    rep.require("C12.8", 5)
    from .common import closed_refusals, get_fn
    for cname in ("R", "W", "RW", "RW1C", "RW1S"):
        try:
            closed_refusals(rep, "C12.8", get_fn(idx, f"csr/action:{cname}.__init__"),
                            f"{cname}.__init__ adds no refusal of its own (every shape / init the port signature and Signal accept is accepted)")
        except Exception as e:
            rep.unk("C12.8", "-", f"{cname}.__init__: closed refusal set", f"cannot decide: {type(e).__name__}: {e}")
    # enumeration / layout shapes give views: they may be assigned, compared and converted, nothing else (D16, fixed)
    rep.require("C12.9", 1)
    from . import glue as _g9
    _g9.view_safe_operations(rep, "C12.9", idx)
    from . import glue
    glue.reset_discipline(rep, "C12.5", idx, ["csr/action:RW", "csr/action:RW1C", "csr/action:RW1S"],
                          allowed_init=[(("RW", "_storage"), "init"), (("RW1C", "_storage"), "init"), (("RW1S", "_storage"), "init")])

    # ---- storage actions -------------------------------------------------------------------
    for cname, kind in (("RW", "rw"), ("RW1C", "w1c"), ("RW1S", "w1s")):
        c = get_ctx(idx, f"csr/action:{cname}.elaborate")
        rep.analysed(c.fi.site)
        rep.count("drivers", len(c.t.drivers))
        if not require_supported(rep, "C12.1", c):
            continue
        S = storage_of(rep, c, "C12.2")
        if S is None:
            continue
        env = {"S": S}
        # C12.2 read-back: port.r_data and data are S, combinationally, always
        single_unconditional(rep, "C12.2", c, f"{cname}: port.r_data == storage", c.parse("self.port.r_data"), "comb", S)
        single_unconditional(rep, "C12.2", c, f"{cname}: data == storage", c.parse("self.data"), "comb", S)
        # C12.1 next-state function
        whole = c.drivers_of(S)
        bits = [(dom, t, ds) for dom, t, ds in c.targets_matching(
            lambda t: t[0] == 'sub' and t[1] == S and t[2][0] == 'idx')]
        if kind == "rw":
            if bits:
                rep.unk("C12.1", c.fi.site, f"{cname} storage update", "storage is updated bit-wise; RW table is stated on the whole register")
                continue
            if {d.domain for d in whole} - {"sync"}:
                rep.bad("C12.1", c.fi.site, f"{cname} storage update", "storage is driven outside the sync domain")
                continue
            check_dl(rep, "C12.1", c, f"{cname}: storage' = w_stb ? w_data : hold", whole, dl.HOLD,
                     [("self.port.w_stb", "self.port.w_data")], env)
        else:
            if whole and not bits:
                # vectorised update: compare bit k of the whole-register assignment with the per-bit table (k symbolic)
                kk = ('name', 'k')
                pseudo = c.bit_view(S, kk) if {d_.domain for d_ in whole} == {"sync"} else None
                if pseudo is None:
                    rep.unk("C12.1", c.fi.site, f"{cname} storage update", "storage is updated as a whole and the assigned value cannot be "
                            "projected onto one bit; the per-bit table cannot be compared")
                    continue
                c.w.extra.add(ir.show(c.norm(('sub', S, kk))))
                env_k = dict(env, i=kk)
                if kind == "w1c":
                    table = [("self.set[i]", "1"), ("self.port.w_stb & self.port.w_data[i]", "0")]
                    what = f"{cname}: bit' = set[i] ? 1 : (w_stb & w_data[i]) ? 0 : hold"
                else:
                    table = [("self.port.w_stb & self.port.w_data[i]", "1"), ("self.clear[i]", "0")]
                    what = f"{cname}: bit' = (w_stb & w_data[i]) ? 1 : clear[i] ? 0 : hold"
                check_dl(rep, "C12.1", c, what + " (bit view of the whole-register update)", pseudo, dl.HOLD, table, env_k)
                rep.ok("C12.1", c.fi.site, f"{cname}: bit loop ranges over the storage register", "whole-register assignment: every bit is covered",
                       nontrivial=False)
                check_storage_ctor(rep, idx, c, S, cname)
                continue
            if whole:
                rep.unk("C12.1", c.fi.site, f"{cname} storage update", "storage is updated as a whole; the per-bit table cannot be compared")
                continue
            if len(bits) != 1 and (getattr(c.t, "zipped_loops", None) or getattr(c.t, "unsupported", None) or
                                   any(d_.domain == "sync" for d_ in c.t.drivers)):
                # the storage bits are reached another way (the items of zip(storage, set, mask), a helper ...): sync assignments
                # exist, but not as `storage[i] <= ...` over a loop index
                rep.unk("C12.1", c.fi.site, f"{cname} storage update", f"found {len(bits)} per-bit driver families over the storage register, but the "
                        "function has registered assignments of another shape (zipped bit iteration, helper): the per-bit table is not derived")
                continue
            if len(bits) != 1:
                rep.bad("C12.1", c.fi.site, f"{cname} storage update", f"expected one per-bit driver family over the storage register, found {len(bits)}")
                continue
            dom, t, ds = bits[0]
            L = t[2][1]
            loop = c.t.loops[L]
            # the bit index must range over the storage register itself
            seq_ok = loop.kind in ('enum', 'seq') and c.norm(loop.seq) == S or \
                loop.kind == 'range' and c.norm(loop.bounds[0]) == ('const', 0) and \
                c.norm(loop.bounds[1]) == c.norm(('call', ('name', 'len'), (S,), ()))
            rep.check(seq_ok, "C12.1", c.fi.site, f"{cname}: bit loop ranges over the storage register",
                      f"loop iterates {ir.show(loop.iter)}")
            if dom != "sync":
                rep.bad("C12.1", c.fi.site, f"{cname} storage update", f"storage bits driven in domain {dom}")
                continue
            env_i = dict(env, i=('idx', L))
            if kind == "w1c":
                table = [("self.set[i]", "1"), ("self.port.w_stb & self.port.w_data[i]", "0")]
                what = f"{cname}: bit' = set[i] ? 1 : (w_stb & w_data[i]) ? 0 : hold"
            else:
                table = [("self.port.w_stb & self.port.w_data[i]", "1"), ("self.clear[i]", "0")]
                what = f"{cname}: bit' = (w_stb & w_data[i]) ? 1 : clear[i] ? 0 : hold"
            check_dl(rep, "C12.1", c, what, ds, dl.HOLD, table, env_i)
        # C12.4 storage is Signal(shape, init=init) with the constructor's parameters
        check_storage_ctor(rep, idx, c, S, cname)

    # ---- pass-through actions -----------------------------------------------------------------
    c = get_ctx(idx, "csr/action:R.elaborate")
    rep.analysed(c.fi.site)
    if require_supported(rep, "C12.3", c):
        single_unconditional(rep, "C12.3", c, "R: port.r_data == r_data", c.parse("self.port.r_data"), "comb", "self.r_data")
        single_unconditional(rep, "C12.3", c, "R: r_stb == port.r_stb", c.parse("self.r_stb"), "comb", "self.port.r_stb")
        no_other(rep, c, "R", {"self.port.r_data", "self.r_stb"})
    c = get_ctx(idx, "csr/action:W.elaborate")
    rep.analysed(c.fi.site)
    if require_supported(rep, "C12.3", c):
        single_unconditional(rep, "C12.3", c, "W: w_data == port.w_data", c.parse("self.w_data"), "comb", "self.port.w_data")
        single_unconditional(rep, "C12.3", c, "W: w_stb == port.w_stb", c.parse("self.w_stb"), "comb", "self.port.w_stb")
        no_other(rep, c, "W", {"self.w_data", "self.w_stb"})
    c = get_ctx(idx, "csr/action:_Reserved.elaborate")
    rep.analysed(c.fi.site)
    if require_supported(rep, "C12.3", c):
        n = len(c.t.drivers) + len(c.t.submodules) + len(c.t.connects)
        rep.check(n == 0 and c.t.returns_module or n == 0, "C12.3", c.fi.site, "reserved fields influence nothing",
                  f"{n} DSL statement(s) emitted by _Reserved.elaborate", nontrivial=False)
    # the reserved classes must not override elaborate with something else
    for cls in idx.all_classes():
        if any(b.name == "_Reserved" for b in idx.bases_of(cls)):
            has_own = cls.method("elaborate") is not None
            rep.check(not has_own, "C12.3", cls.site, f"{cls.name} inherits the empty elaborate()",
                      "a reserved field action defines its own elaborate()", nontrivial=False)


def no_other(rep, c, cname, allowed):
    """Drivers of anything else in a pass-through action must be absent (they have no other outputs)."""
    for (dom, key), ds in c.groups.items():
        if key not in allowed:
            rep.bad("C12.3", c.fi.site, f"{cname}: pass-through only", f"unexpected driver of {key}",
                    lines=[d.lineno for d in ds])


def check_storage_ctor(rep, idx, c, S, cname):
    cls = c.fi.cls
    if not (S[0] == 'attr' and S[1] == ('name', 'self')):
        rep.unk("C12.4", cls.site, f"{cname}: storage constructor", f"storage role {ir.show(S)} is not an attribute of self")
        return
    st = find_init_assign(cls, S[2], idx)
    owner = cls
    if st is not None:
        for k in [cls] + idx.bases_of(cls):
            i_ = k.method("__init__")
            if i_ is not None and any(n is st for n in ast.walk(i_.node)):
                owner = k
    init = owner.method("__init__")
    if st is None or init is None:
        rep.form(False, "C12.4", cls.site, f"{cname}: storage constructor", f"self.{S[2]} is not created in an __init__ of the class or its bases")
        return
    # the class's own __init__ must hand its `init` on to the base that creates the storage
    if owner is not cls:
        own = cls.method("__init__")
        fwd = own is None or any(isinstance(n, ast.Call) and ast.unparse(n.func) == "super().__init__" and
                                 any(k.arg == "init" and isinstance(k.value, ast.Name) and k.value.id == "init" for k in n.keywords)
                                 for n in ast.walk(own.node))
        rep.form(fwd, "C12.4", cls.site, f"{cname}: init is forwarded to the base class that creates the storage",
                 "super().__init__(..., init=init) not found")
    v = ir.norm(ir.from_ast(st.value, {}))
    ok = v[0] == 'call' and v[1] == ('name', 'Signal')
    shape_ok = ok and v[2] and v[2][0] == ('name', 'shape') or ok and dict(v[3]).get('shape') == ('name', 'shape')
    kw = dict(v[3]) if ok else {}
    init_v = kw.get('init', kw.get('reset'))
    init_ok = init_v == ('name', 'init') and 'init' in init.params
    rep.check(bool(shape_ok), "C12.4", cls.site, f"{cname}: storage has the field's shape",
              f"storage is created as {ir.show(v)}")
    rep.check(bool(init_ok), "C12.4", cls.site, f"{cname}: storage starts at the constructor's init",
              f"storage is created as {ir.show(v)}; expected init=<the init parameter>")
