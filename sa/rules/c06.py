"""C06 — CSR decoder routes each access to exactly one subordinate, transparently."""
import ast

from ..core import dl, ir
from .common import get_ctx, require_supported, check_dl
from . import glue, apirules

EXPLANATION = ("csr.Decoder.elaborate template: strobes gated by the Case of the subordinate's own window pattern (taken "
               "from the same window_patterns() tuple as the registry key), low address bits and write data forwarded "
               "unmodified, read data OR-reduced over every subordinate; add() validation order")


def run(rep, idx, tier):
    rep.explanation = EXPLANATION
    rep.assume("A2", "A3", "A4", "A6")
    rep.require("C06.1", 2)
    rep.require("C06.2", 2)
    rep.require("C06.3", 1)
    rep.require("C06.4", 4)
    rep.require("C06.6", 1)
    rep.require("C06.7", 2)
    glue.map_parameters(rep, "C06.7", idx, "csr/bus:Decoder", [("alignment", "alignment"), ("data_width", "data_width"), ("addr_width", "addr_width")])
    glue.reset_discipline(rep, "C06.6", idx, ["csr/bus:Decoder"])
    c = get_ctx(idx, "csr:Decoder.elaborate")
    rep.analysed(c.fi.site)
    rep.count("drivers", len(c.t.drivers))
    site = c.fi.site
    # the window list the decoder decodes with is the map's current one (no stale memo in the queries it uses)
    from .c02 import query_coherence
    query_coherence(rep, idx, rule="C06.1", only=("window_patterns", "windows", "get", "overlaps", "items"))
    glue.pairwise_reductions(rep, "C06.3", idx, "csr/bus.py")
    # the map a CSR interface accepts has exactly the bus geometry (the decoder forwards self.bus.addr[:sub.addr_width] on that basis)
    rep.require("C06.5", 5)
    from .c01 import setters
    setters(rep, idx, rule="C06.5", only="csr/bus")
    if getattr(c.t, "unsupported", None) and glue.low_slice_switch(rep, "C06.1", c.fi, "self.bus.addr"):
        return
    if not require_supported(rep, "C06.1", c):
        return
    r = glue.decoder_roles(rep, "C06.1", c, "self.bus.addr")
    if r is None:
        return
    env = r.env
    rep.check(r.case_pat == r.pat, "C06.1", site, "Case pattern is the window's own pattern",
              f"Case uses {ir.show(r.case_pat)}; the window_patterns() tuple provides {ir.show(r.pat)}")
    # C06.1 strobes
    for x in ("r_stb", "w_stb"):
        ds = c.drivers_of(c.parse(f"sub.{x}", env))
        if not ds and c.overlapping(c.parse(f"sub.{x}", env)):
            rep.unk("C06.1", site, f"sub.{x}", "driven bit by bit / slice by slice; the rule compares the signal as a whole and does not assemble it")
            continue
        if not ds or {d.domain for d in ds} != {"comb"}:
            rep.bad("C06.1", site, f"sub.{x}", "must be driven combinationally (same cycle)", lines=[d.lineno for d in ds])
            continue
        check_dl(rep, "C06.1", c, f"sub.{x} == bus.{x} inside the subordinate's window, else 0", ds, "0",
                 [(r.case, f"self.bus.{x}")], env)
    # C06.2 address and write data (what the subordinate sees while it is selected)
    ds = c.drivers_of(c.parse("sub.addr", env))
    if not ds and c.overlapping(c.parse("sub.addr", env)):
        rep.unk("C06.2", site, "sub.addr", "driven bit by bit / slice by slice; the rule compares the signal as a whole and does not assemble it")
    elif not ds or {d.domain for d in ds} != {"comb"}:
        rep.bad("C06.2", site, "sub.addr", "must be driven combinationally")
    else:
        check_dl(rep, "C06.2", c, "sub.addr == bus.addr[:sub.addr_width] while selected", ds, "0",
                 [("1", "self.bus.addr[:sub.addr_width]")], env, assume=r.case)
    ds = c.drivers_of(c.parse("sub.w_data", env))
    if not ds and c.overlapping(c.parse("sub.w_data", env)):
        rep.unk("C06.2", site, "sub.w_data", "driven bit by bit / slice by slice; the rule compares the signal as a whole and does not assemble it")
    elif not ds or {d.domain for d in ds} != {"comb"}:
        rep.bad("C06.2", site, "sub.w_data", "must be driven combinationally")
    else:
        check_dl(rep, "C06.2", c, "sub.w_data == bus.w_data while selected", ds, "0", [("1", "self.bus.w_data")], env,
                 assume=r.case)
    # C06.3 read data
    glue.check_fanin(rep, "C06.3", c, "bus.r_data == OR of every subordinate's r_data", "self.bus.r_data", "sub.r_data", env, r.L)
    add_validation(rep, idx)


def add_validation(rep, idx):
    fi = idx.find_func("csr:Decoder.add")
    site = fi.site
    rep.analysed(site)
    from .common import get_fn, check_refusal
    c = get_fn(idx, fi)
    unfl = "flipped(sub_bus) if isinstance(sub_bus, wiring.FlippedInterface) else sub_bus"
    check_refusal(rep, "C06.4", c, "add(): subordinate must be a csr.Interface (TypeError)",
                  [f"not isinstance({unfl}, Interface)", "not isinstance(sub_bus, Interface)"], "TypeError")
    check_refusal(rep, "C06.4", c, "add(): data widths must be equal (ValueError)", "sub_bus.data_width != self.bus.data_width", "ValueError")
    from .common import closed_refusals
    closed_refusals(rep, "C06.4", c, "add() refuses nothing but the documented cases")
    # C06.8 a refused add() leaves the decoder as it was: the subordinate table is keyed by the memory map, so an entry written
    # before add_window() refuses would replace the accepted subordinate that carries the same map (D15, fixed)
    from . import apirules
    rep.require("C06.8", 1)
    # C06.9 the address handed to the subordinate is not cut with `[:-n]` where n may be 0 (a window as wide as the decoder)
    from .c19 import negative_slice_bounds
    negative_slice_bounds(rep, idx, rule="C06.9", modules=["csr/bus.py"])
    apirules.atomic(rep, "C06.8", idx, fi, verified=("MemoryMap.add_window",))
    glue.registry_and_window(rep, "C06.4", idx, fi, ("name", "addr"))
