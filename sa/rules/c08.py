"""C08 — Wishbone arbiter: one owner at a time, isolated, never pre-empted mid-cycle."""
import ast

from ..core import dl, ir
from .common import get_ctx, require_supported, check_dl
from . import apirules

EXPLANATION = ("Arbiter.elaborate template, initiator index symbolic (every N): every shared-bus request driver sits under "
               "the owner's Case of the grant register, responses go only to the owner from the same-named signal, stall "
               "defaults to 1 for non-owners, optional signals by name triple with protocol defaults (feature flags are "
               "atoms of the truth table, so all feature subsets are covered), grant is written only when the bus is not "
               "busy; add() validates before registering")

BUSY = "(self.bus.cyc & (self.bus.lock | self.bus.stb)) if hasattr(self.bus, 'lock') else self.bus.cyc"
DEFAULTS = {"lock": "0", "cti": "CycleType.CLASSIC", "bte": "BurstTypeExt.LINEAR"}


class Roles:
    pass


def arbiter_roles(rep, idx, rule):
    """Structural role discovery shared by C08 and C09."""
    c = get_ctx(idx, "Arbiter.elaborate")
    rep.analysed(c.fi.site)
    if not require_supported(rep, rule, c):
        return None
    site = c.fi.site
    r = Roles()
    r.c = c
    INTRS = None
    # the data-path loop: enumerate(<initiator list>) with Case(index)
    cands = []
    for L in c.t.loops.values():
        if L.kind in ('enum', 'seq', 'range'):
            k = ('idx', L.id)
            def to_port(d):
                t = c.norm(d.target)
                while t[0] in ('sub', 'attr'):
                    t = t[1]
                return t[0] != 'sig'            # a bus / initiator signal, not a local wire
            sids = {fr[1] for d in c.t.drivers for fr in d.dsl
                    if fr[0] == 'case' and tuple(c.norm(p) for p in fr[2]) == (k,) and d.domain == 'comb' and to_port(d)}
            if sids:
                cands.append((L, sids))
    if len(cands) != 1 or len(cands[0][1]) != 1:
        rep.unk(rule, site, "data-path Switch", f"expected one loop over the initiators with one Case per index, found {len(cands)}")
        return None
    L, sids = cands[0]
    r.L = L
    r.k = ('idx', L.id)
    r.sid = next(iter(sids))
    r.GRANT = c.norm(c.t.switches[r.sid])
    if L.kind in ('enum', 'seq'):
        INTRS = c.norm(L.seq)
    else:
        b = c.norm(L.bounds[1])
        INTRS = b[2][0] if b[0] == 'call' and b[1] == ('name', 'len') else None
    if INTRS is None:
        rep.unk(rule, site, "initiator list", "cannot identify the list of initiators")
        return None
    r.INTRS = INTRS
    r.intr = c.norm(('sub', INTRS, r.k))
    # how the initiator *bus* is reached from the list element is inferred from one anchor driver (the shared cyc line) and
    # then demanded consistently everywhere else (sibling agreement): the list may hold the buses or small records
    anchor = c.drivers_of(c.parse("self.bus.cyc"))
    if len(anchor) == 1:
        v = c.norm(anchor[0].value)
        if v[0] == 'attr' and v[2] == 'cyc' and ir.mentions(v[1], r.intr):
            r.intr = v[1]
    r.env = {"k": r.k, "intr": r.intr, "GRANT": r.GRANT}
    r.case_k = ('formula', c.eng.frame_formula(('case', r.sid, (r.k,), 0)))
    if r.GRANT[0] != 'sig':
        rep.unk(rule, site, "grant register", f"Switch subject {ir.show(r.GRANT)} is not a local register")
        return None
    return r


def grant_in_range(rep, c, r, N):
    """Value-set invariant: grant starts at 0 and every value ever assigned to it is the index variable of a range()
    loop whose bounds lie within [0, len(initiators)).  Hence an out-of-range grant (possible encodings when the number
    of initiators is not a power of two) is unreachable from reset, and exactly one Case of every Switch(grant) matches."""
    site = c.fi.site
    N = c.norm(N)

    def nonneg(e, depth=0):
        e = c.norm(e)
        if e[0] == 'const':
            return isinstance(e[1], int) and e[1] >= 0
        if e[0] == 'idx' and e[1] in c.t.loops and depth < 4:
            L = c.t.loops[e[1]]
            return L.kind == 'enum' or (L.bounds is not None and nonneg(L.bounds[0], depth + 1))
        if e[0] == 'lin':
            return isinstance(e[1], int) and e[1] >= 0 and all(k > 0 and nonneg(t, depth + 1) for t, k in e[2])
        return False

    def at_most_n(e, depth=0):
        """e <= N (e is used as an exclusive upper bound)."""
        e = c.norm(e)
        if e == N:
            return True
        if e[0] == 'const':
            return False
        if e[0] == 'idx' and e[1] in c.t.loops and depth < 4:
            L = c.t.loops[e[1]]
            if L.kind == 'enum':
                return c.norm(('call', ('name', 'len'), (L.seq,), ())) == N
            return L.bounds is not None and at_most_n(L.bounds[1], depth + 1)     # idx < hi <= N
        return False

    sig = c.t.sigs[r.GRANT[1]]
    kws = dict(sig.ctor[3]) if sig.ctor[0] == 'call' else {}
    init = kws.get('init', kws.get('reset', ('const', 0)))
    rep.check(c.norm(init) == ('const', 0), "C08.7", site, "grant starts at initiator 0", f"init={ir.show(init)}", nontrivial=True)
    for d in c.drivers_of(r.GRANT):
        v = c.norm(d.value)
        what = f"grant <= {c.show(d.value)} is the index of an initiator"
        if v[0] == 'idx' and v[1] in c.t.loops and c.t.loops[v[1]].kind == 'range':
            L = c.t.loops[v[1]]
            lo_ok, hi_ok = nonneg(L.bounds[0]), at_most_n(L.bounds[1])
            if lo_ok and hi_ok:
                rep.ok("C08.7", site, what, f"{ir.show(c.norm(L.bounds[0]))} <= value < {ir.show(c.norm(L.bounds[1]))} <= {ir.show(N)}")
            else:
                # a bound that provably exceeds the list is a violation; anything else is undecided
                hi = c.norm(L.bounds[1])
                over = hi[0] == 'lin' and len(hi[2]) == 1 and hi[2][0] == (N, 1) and isinstance(hi[1], int) and hi[1] > 0
                rep.form(False, "C08.7", site, what, f"loop bounds {ir.show(c.norm(L.bounds[0]))} .. {ir.show(hi)}",
                         wrong=f"the loop runs up to {ir.show(hi)}, beyond the {ir.show(N)} initiators: grant can take a value no Case matches, "
                               "after which no initiator owns the bus" if over else None)
        elif v[0] == 'const' and isinstance(v[1], int) and v[1] == 0:
            rep.ok("C08.7", site, what, "constant 0")
        else:
            rep.unk("C08.7", site, what, "the assigned value is not a range() loop index; its range is not decided")


def run(rep, idx, tier):
    rep.explanation = EXPLANATION
    rep.assume("A1", "A2", "A3", "A4", "A6")
    rep.require("C08.1", 6)
    rep.require("C08.2", 4)
    rep.require("C08.3", 3)
    rep.require("C08.4", 2)
    rep.require("C08.5", 5)
    rep.require("C08.6", 1)
    rep.require("C08.7", 2)
    rep.require("C08.8", 1)
    from .c19 import shared_state
    shared_state(rep, idx, rule="C08.8", classes=["Arbiter"])
    from . import glue as _g
    # the stall wire defaults to 1 on purpose: an initiator that does not own the bus is stalled (C08.2 checks that value)
    _g.late_sized_signals(rep, "C08.8", idx, "wishbone/bus:Arbiter", ("_intrs",))
    # the shared bus has the geometry the arbiter's parameters describe (granularity=None means data_width)
    rep.require("C08.9", 4)
    _g.forwarded_parameters(rep, "C08.9", idx, ["wishbone/bus:Arbiter"])
    _g.reset_discipline(rep, "C08.8", idx, ["wishbone/bus:Arbiter"], allowed_init=[(("Arbiter", "intr_bus_stall"), "1")])
    r = arbiter_roles(rep, idx, "C08.1")
    if r is None:
        return
    c, env, site = r.c, r.env, r.c.fi.site
    rep.count("drivers", len(c.t.drivers))
    n_init = c.parse("len(INTRS)", {"INTRS": r.INTRS})
    gctor = c.norm(c.t.sigs[r.GRANT[1]].ctor)
    rep.check(gctor == c.parse("Signal(range(N))", {"N": n_init}), "C08.1", site,
              "grant register ranges over the initiators", f"created as {ir.show(gctor)}")

    # ---- C08.1 request signals -------------------------------------------------------------------
    for x in ("adr", "dat_w", "we", "stb", "cyc"):
        own(rep, "C08.1", c, env, r, f"self.bus.{x}", f"intr.{x}", f"bus.{x} == owner's {x}")
    own(rep, "C08.1", c, env, r, "self.bus.sel",
        "Cat(s.replicate(intr.granularity // self.bus.granularity) for s in intr.sel)",
        "bus.sel == owner's sel, each bit fanned out over granularity ratio lines")

    # ---- C08.2 responses ---------------------------------------------------------------------------
    own(rep, "C08.2", c, env, r, "intr.ack", "self.bus.ack", "intr.ack == bus.ack for the owner, 0 for everybody else")
    for y in ("err", "rty"):
        ds = c.drivers_of(c.parse(f"intr.{y}", env))
        if not ds:
            rep.bad("C08.2", site, f"intr.{y}", f"an initiator with an {y} input never receives the target's {y}")
            continue
        check_dl(rep, "C08.2", c, f"intr.{y} == bus.{y} (0 if the shared bus lacks it) for the owner only", ds, "0",
                 [(('formula', dl.f_and(c.eng.cond(c.parse(f"hasattr(intr, '{y}')", env)), r.case_k[1])),
                   f"getattr(self.bus, '{y}', 0)")], env)
    stall(rep, c, env, r)

    # ---- C08.3 optional request signals -------------------------------------------------------------
    for x, d in DEFAULTS.items():
        ds = c.drivers_of(c.parse(f"self.bus.{x}"))
        if not ds:
            rep.bad("C08.3", site, f"bus.{x}", f"a shared bus with {x} never receives the owner's {x}")
            continue
        check_dl(rep, "C08.3", c, f"bus.{x} == owner's {x} (default {d}) under the owner's Case", ds, "0",
                 [(('formula', dl.f_and(c.eng.cond(c.parse(f"hasattr(self.bus, '{x}')")), r.case_k[1])),
                   f"getattr(intr, '{x}', {d})")], env)

    # ---- C08.4 non-pre-emption -----------------------------------------------------------------------
    gd = c.drivers_of(r.GRANT)
    busy = c.eng.cond(c.parse(BUSY))
    if not gd:
        rep.bad("C08.4", site, "grant updates", "the grant register is never written")
    for d in gd:
        what = f"grant <= {c.show(d.value)} only while the bus is not busy"
        if d.domain != "sync":
            rep.bad("C08.4", site, what, "grant must be a sync register")
            continue
        try:
            ok, rows, wit = dl.implies(c.eng, c.eng.guard(d), dl.f_not(busy))
        except Exception as e:
            rep.unk("C08.4", site, what, str(e))
            continue
        rep.count("truth_table_rows", rows)
        if ok:
            rep.ok("C08.4", site, what, f"guard implies ~busy on {rows} valuation(s); busy = cyc & (lock | stb) with LOCK, cyc without",
                   rows=rows)
        else:
            rep.bad("C08.4", site, what, f"ownership can change while the owner's cycle is in progress {wit}", line=d.lineno)

    # ---- C08.7 the grant register only ever holds the index of an initiator ------------------------------
    grant_in_range(rep, c, r, n_init)

    # ---- C08.6 read data broadcast -------------------------------------------------------------------
    ds = c.drivers_of(c.parse("intr.dat_r", env))
    if not ds and c.driven_inside_cat(c.parse("intr.dat_r", env)):
        rep.unk("C08.6", site, "intr.dat_r", "the initiators' read data lines are driven together through one concatenation; the rule "
                "compares per-initiator assignments and does not take the concatenation apart (the parts' widths are not verified)")
    elif not ds:
        rep.bad("C08.6", site, "intr.dat_r", "initiators never receive read data")
    else:
        check_dl(rep, "C08.6", c, "intr.dat_r == bus.dat_r (broadcast)", ds, "0", [("1", "self.bus.dat_r")], env)

    add_validation(rep, idx)


def own(rep, rule, c, env, r, target, value, what):
    ds = c.drivers_of(c.parse(target, env))
    if not ds and target == "self.bus.sel" and sel_bitwise(rep, rule, c, env, r, what):
        return
    if not ds:
        parts = c.overlapping(c.parse(target, env))
        if parts:
            rep.unk(rule, c.fi.site, what, f"{target} is driven bit by bit / slice by slice ({len(parts)} group(s)); the rule compares "
                    "the vector as a whole and does not assemble it")
            return
        rep.bad(rule, c.fi.site, what, f"{target} is never driven")
        return
    if {d.domain for d in ds} != {"comb"}:
        rep.bad(rule, c.fi.site, what, f"{target} must be combinational", lines=[d.lineno for d in ds])
        return
    check_dl(rep, rule, c, what, ds, "0", [(r.case_k, value)], env)


def sel_bitwise(rep, rule, c, env, r, what):
    """bus.sel filled bit by bit: for j over the owner's select bits, for k in range(ratio): bus.sel[j * ratio + k] = sel[j].
    The index j * ratio + k with 0 <= k < ratio visits every bit of the fanned-out vector exactly once, in the order of
    Cat(s.replicate(ratio) for s in intr.sel)."""
    SEL = c.parse("self.bus.sel")
    fam = [(dom, t, ds) for dom, t, ds in c.targets_matching(lambda t: t[0] == 'sub' and t[1] == SEL and t[2][0] != 'slice')]
    if len(fam) != 1:
        return False
    dom, t, ds = fam[0]
    ratio = c.parse("intr.granularity // self.bus.granularity", env)
    idx_e = c.norm(t[2])
    loops = [fr[1] for fr in ds[0].gen if fr[0] == 'for']
    inner = [L for L in (c.t.loops.get(l_) for l_ in loops) if L is not None and L.id != r.k[1]]
    if len(inner) != 2 or dom != "comb" or len(ds) != 1:
        return False
    Lj = next((L for L in inner if L.seq is not None and c.norm(L.seq) == c.parse("intr.sel", env)), None)
    Lk = next((L for L in inner if L.kind == 'range' and c.norm(L.bounds[0]) == ('const', 0) and c.norm(L.bounds[1]) == ratio), None)
    if Lj is None or Lk is None or Lj.reversed or Lk.reversed:
        return False
    want_idx = c.norm(('bin', '+', ('bin', '*', ('idx', Lj.id), ratio), ('idx', Lk.id)))
    if idx_e != want_idx:
        rep.unk(rule, c.fi.site, what, f"bus.sel is filled bit by bit at index {ir.show(idx_e)[:120]}; expected {ir.show(want_idx)[:120]}")
        return True
    want_val = [c.norm(('sub', c.parse("intr.sel", env), ('idx', Lj.id))), ('item', Lj.id, (1,)), ('item', Lj.id, ())]
    env2 = dict(env)
    check_dl(rep, rule, c, what + " (filled bit by bit: bus.sel[j * ratio + k] = sel[j], 0 <= k < ratio)", ds, "0",
             [(r.case_k, c.norm(ds[0].value) if c.norm(ds[0].value) in want_val else want_val[0])], env2)
    return True


def stall(rep, c, env, r):
    site = c.fi.site
    ds = c.drivers_of(c.parse("intr.stall", env))
    if not ds:
        rep.bad("C08.2", site, "intr.stall", "an initiator with a stall input is never stalled: non-owners would see no stall")
        return
    # either driven directly with an explicit default of 1, or through a local signal whose reset value is 1
    vals = {c.norm(d.value) for d in ds}
    if len(vals) == 1 and next(iter(vals))[0] == 'sig':
        S = next(iter(vals))
        sig = c.t.sigs[S[1]]
        init = sig.kw('init') if sig.kw('init') is not None else sig.kw('reset')
        rep.check(init == ('const', 1), "C08.2", site, "non-owners see stall == 1 (default of the stall wire)",
                  f"stall wire created as {ir.show(sig.ctor)}; its default must be 1")
        check_dl(rep, "C08.2", c, "intr.stall follows the stall wire whenever the initiator has a stall input", ds, "0",
                 [(c.parse("hasattr(intr, 'stall')", env), S)], env)
        sd = c.drivers_of(S)
        check_dl(rep, "C08.2", c, "stall wire == bus.stall (or ~bus.ack without STALL) for the owner, 1 otherwise", sd, "1",
                 [(('formula', dl.f_and(c.eng.cond(c.parse("hasattr(intr, 'stall')", env)), r.case_k[1])),
                   "getattr(self.bus, 'stall', ~self.bus.ack)")], env)
    else:
        check_dl(rep, "C08.2", c, "intr.stall == bus.stall (or ~bus.ack) for the owner, 1 otherwise", ds, "0",
                 [(('formula', dl.f_and(c.eng.cond(c.parse("hasattr(intr, 'stall')", env)), r.case_k[1])),
                   "getattr(self.bus, 'stall', ~self.bus.ack)"),
                  (c.parse("hasattr(intr, 'stall')", env), "1")], env)


def raise_guards(fi):
    """Normalised tests of `if <test>: raise` statements (with enclosing for-loop iterables)."""
    out = []

    def visit(stmts, loops):
        for st in stmts:
            if isinstance(st, ast.If):
                if any(isinstance(s, ast.Raise) for s in st.body):
                    exc = [ast.unparse(s.exc.func) if isinstance(s.exc, ast.Call) else ast.unparse(s.exc)
                           for s in st.body if isinstance(s, ast.Raise) and s.exc is not None]
                    out.append((ir.norm(ir.from_ast(st.test, {})), tuple(loops), exc[0] if exc else "?", st.lineno))
                visit(st.body, loops)
                visit(st.orelse, loops)
            elif isinstance(st, ast.For):
                visit(st.body, loops + [(ast.unparse(st.target), ir.norm(ir.from_ast(st.iter, {})))])
            elif isinstance(st, (ast.With, ast.Try)):
                visit(st.body, loops)
    visit(fi.node.body, [])
    return out


def has_guard(guards, text, exc=None, loop_vals=None):
    want = ir.norm(ir.parse(text))
    for t, loops, e, ln in guards:
        if t == want and (exc is None or e == exc):
            if loop_vals is not None:
                if not loops:
                    continue
                it = loops[-1][1]
                vals = sorted(x[1] for x in it[1] if x[0] == 'const') if it[0] in ('set', 'tuple', 'list') else None
                if vals != sorted(loop_vals):
                    continue
            return True
    return False


def add_validation(rep, idx):
    from .common import get_fn, check_refusal
    fi = idx.find_func("Arbiter.add")
    site = fi.site
    apirules.atomic(rep, "C08.5", idx, fi)
    c = get_fn(idx, fi)
    check_refusal(rep, "C08.5", c, "add(): initiator must be a wishbone.Interface", "not isinstance(intr_bus, Interface)", "TypeError")
    check_refusal(rep, "C08.5", c, "add(): address widths must be equal", "intr_bus.addr_width != self.bus.addr_width", "ValueError")
    check_refusal(rep, "C08.5", c, "add(): initiator granularity must not be finer than the arbiter's",
                  "intr_bus.granularity < self.bus.granularity", "ValueError")
    check_refusal(rep, "C08.5", c, "add(): data widths must be equal", "intr_bus.data_width != self.bus.data_width", "ValueError")
    check_refusal(rep, "C08.5", c, "add(): shared-bus err/rty need a corresponding initiator input",
                  "hasattr(self.bus, v) and not hasattr(intr_bus, v)", "ValueError", loop_values=["err", "rty"])
    from .common import closed_refusals
    closed_refusals(rep, "C08.5", c, "add() refuses nothing but the documented cases")
    # the registration itself
    appends = [n for n in ast.walk(fi.node) if isinstance(n, ast.Call) and isinstance(n.func, ast.Attribute)
               and n.func.attr == "append" and ast.unparse(n.func.value) == "self._intrs"]
    rep.form(len(appends) == 1 and ast.unparse(appends[0].args[0]) == "intr_bus", "C08.5", site,
             "add() appends the initiator to the list elaborate() iterates", f"{len(appends)} append(s) to self._intrs",
             wrong="the initiator is never registered" if not appends else None, nontrivial=False)
