"""Composition-glue rules shared by C01 and the per-component packs."""
from ..core import dl, ir
from .common import check_dl


def bridge_address(rep, rule, c, env, CYC):
    """csr.addr == Cat(<low log2(n) bits of the sequencer>, wb.adr), low part first, combinational, always."""
    site = c.fi.site
    ds = c.drivers_of(c.parse("csr.addr", env))
    if not ds or {d.domain for d in ds} != {"comb"}:
        rep.bad(rule, site, "csr.addr formation", "csr_bus.addr must be driven combinationally")
        return False
    want = c.parse("Cat(cycle[:exact_log2(len(wb.sel))], wb.adr)", dict(env, cycle=CYC))
    return check_dl(rep, rule, c, "csr.addr == Cat(cycle[:log2(n)], wb.adr) (granule index in the low bits)", ds, "0",
                    [("1", want)], env)
