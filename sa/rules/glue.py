"""Composition-glue rules shared by C01 and the per-component packs."""
from ..core import dl, ir
from .common import check_dl


def bridge_address(rep, rule, c, env, CYC):
    """csr.addr == Cat(<low log2(n) bits of the sequencer>, wb.adr), low part first, combinational, always."""
    site = c.fi.site
    ds = c.drivers_of(c.parse("csr.addr", env))
    if not ds or {d.domain for d in ds} != {"comb"}:
        rep.bad(rule, site, "csr.addr formation", "csr_bus.addr must be driven combinationally")
        return False
    want = c.parse("Cat(cycle[:exact_log2(len(wb.sel))], wb.adr)", dict(env, cycle=CYC))
    # named discrepancy: the number of index bits is *linear* in the number of granules (n - 1, n, ...) where it must be its
    # base-2 logarithm: the two agree for at most two values of n
    n_ = c.parse("len(wb.sel)", env)
    for d_ in ds:
        v = c.norm(d_.value)
        if v[0] == 'call' and v[1] == ('name', 'Cat') and v[2] and v[2][0][0] == 'sub' and v[2][0][1] == CYC and v[2][0][2][0] == 'slice':
            hi = v[2][0][2][2]
            lin_in_n = hi == n_ or (hi[0] == 'lin' and any(t == n_ for t, _ in hi[2]) and
                                    not any(x[0] == 'call' and x[1] in (('name', 'exact_log2'), ('name', 'ceil_log2')) for x in ir.walk(hi)))
            # log2 of a quantity that does not depend on the granularity at all (data_width // 8: byte lanes) cannot be log2 of the
            # number of granules data_width // granularity for every configuration
            if hi[0] == 'call' and hi[1] in (('name', 'exact_log2'), ('name', 'ceil_log2')) and len(hi[2]) == 1:
                arg = hi[2][0]
                names = {ir.show(x) for x in ir.walk(arg) if x[0] in ('attr', 'name')}
                dep = any(('granularity' in nm) or nm.endswith('.sel') or ('csr' in nm) for nm in names)
                consts = [x[1] for x in ir.walk(arg) if x[0] == 'const' and isinstance(x[1], int) and x[1] > 1]
                if not dep and consts and any('data_width' in nm for nm in names):
                    rep.bad(rule, site, "csr.addr == Cat(cycle[:log2(n)], wb.adr) (granule index in the low bits)",
                            f"the sequencer contributes cycle[:{ir.show(hi)}]: the bit count is derived from {ir.show(arg)}, which does not depend on "
                            "the granularity, while the number of granules is data_width // granularity (= len(sel)): for every CSR data width other "
                            f"than {consts[0]} the CSR address is formed with the wrong number of index bits", line=d_.lineno)
                    return False
            if lin_in_n:
                rep.bad(rule, site, "csr.addr == Cat(cycle[:log2(n)], wb.adr) (granule index in the low bits)",
                        f"the sequencer contributes cycle[:{ir.show(hi)}] -- a bit count linear in the number of granules n; log2(n) bits are "
                        "needed, and the slice silently clamps to the counter's width, so for n >= 4 the Wishbone address lands one bit "
                        "too high", line=d_.lineno)
                return False
    return check_dl(rep, rule, c, "csr.addr == Cat(cycle[:log2(n)], wb.adr) (granule index in the low bits)", ds, "0",
                    [("1", want)], env)


class DecoderRoles:
    pass


def decoder_roles(rep, rule, c, subject_text):
    """Roles of an address decoder's elaborate(): the loop over window_patterns(), the subordinate looked up in
    the registry by the window's map, its pattern and ratio, the Switch on the address."""
    site = c.fi.site
    r = DecoderRoles()
    def unlist(e):
        # for x in list(E) / tuple(E) walks E
        while e[0] == 'call' and e[1] in (('name', 'list'), ('name', 'tuple')) and len(e[2]) == 1 and not e[3]:
            e = e[2][0]
        return e
    WP = c.parse("self.bus.memory_map.window_patterns()")
    loops = [L for L in c.t.loops.values() if L.kind == 'gen' and unlist(c.norm(L.iter)) == WP]
    elem = None
    if not loops:
        # for index, (map, name, (pat, ratio)) in enumerate(list(window_patterns())): the element is <list>[index]
        en = [L for L in c.t.loops.values() if L.kind in ('enum', 'seq') and L.seq is not None and unlist(c.norm(L.seq)) == WP]
        if len(en) == 1:
            positional = any(x[0] == 'sub' and x[2] == ('idx', en[0].id) and x[1][0] == 'attr' and x[1][1] == ('name', 'self')
                             for d in c.t.drivers for x in ir.walk(c.norm(d.target)))
            if positional:
                rep.bad(rule, site, "subordinate looked up by the window's map",
                        "subordinates are paired with window_patterns() by position: windows are reported in address order, "
                        "subordinates are stored in the order they were added, so strobes reach the wrong subordinate when "
                        "windows are added out of address order")
                return None
            loops = en
            elem = c.norm(('sub', en[0].seq, ('idx', en[0].id))) if en[0].kind == 'enum' else None
    if len(loops) != 1:
        # named wrong shape: subordinates paired with windows by *position* (insertion order vs address order)
        for L in c.t.loops.values():
            seq = c.norm(L.seq) if L.seq is not None else c.norm(L.iter)
            zipped = seq is not None and seq[0] == 'call' and seq[1] == ('name', 'zip') and \
                any(a == c.parse("self.bus.memory_map.window_patterns()") for a in seq[2])
            if L.kind == 'enum' and (seq == c.parse("self.bus.memory_map.window_patterns()") or zipped) or L.kind in ('seq', 'gen') and zipped:
                positional = any(x[0] == 'sub' and x[2] == ('idx', L.id) and x[1][0] == 'attr' and x[1][1] == ('name', 'self')
                                 for d in c.t.drivers for x in ir.walk(c.norm(d.target)))
                if positional or zipped:
                    rep.bad(rule, site, "subordinate looked up by the window's map",
                            "subordinates are paired with window_patterns() by position: windows are reported in address order, "
                            "subordinates are stored in the order they were added, so strobes reach the wrong subordinate when "
                            "windows are added out of address order")
                    return None
        # named wrong shape: the select condition is computed from the *reported extent* of each window (windows(): start, stop).
        # add_window() rounds a window's span up to the map's alignment, so stop - start can exceed 2**window.addr_width: the
        # padding then selects the subordinate (and aliases its registers through the truncated address) although the memory
        # map decodes those addresses to nothing.  window_patterns() is built from window.addr_width and does not have that
        # problem; neither does a comparison above window.addr_width bits.
        WW = c.parse("self.bus.memory_map.windows()")
        wl = [L for L in c.t.loops.values() if unlist(c.norm(L.iter)) == WW or (L.seq is not None and unlist(c.norm(L.seq)) == WW)]
        if len(wl) == 1 and not loops:
            Lw = wl[0]
            stop = ('item', Lw.id, (2, 1))
            uses = []
            def conds(d):
                return [c.norm(fr[1]) for fr in d.dsl if fr[0] in ('if', 'elif')] + \
                       [c.norm(p_) for fr in d.dsl if fr[0] == 'case' for p_ in fr[2]]
            for d in c.t.drivers:
                exprs = [c.norm(d.value)] + conds(d)
                if any(x == stop for e in exprs for x in ir.walk(e)):
                    uses.append(d)
            # one level through local select wires
            wires = {ir.show(c.norm(d.target)) for d in uses if c.norm(d.target)[0] == 'sig'}
            strobes = [d for d in c.t.drivers if ('for', Lw.id) in d.gen and
                       (d in uses or any(ir.show(x) in wires for e in [c.norm(d.value)] + conds(d)
                                         for x in ir.walk(e)))
                       and c.norm(d.target)[0] == 'attr' and c.norm(d.target)[2] in ('r_stb', 'w_stb', 'cyc', 'stb')]
            if strobes:
                rep.bad(rule, site, "subordinate selected by the reported extent of its window",
                        "the select condition is computed from the (start, stop) range that windows() reports; add_window() rounds that "
                        "range up to the map's alignment, so for a subordinate narrower than the alignment the padding addresses select it "
                        "(and alias its registers through the truncated address) although the memory map decodes them to nothing -- the "
                        "patterns of window_patterns() cover 2**window.addr_width addresses only", lines=sorted({d.lineno for d in strobes}))
                return None
        rep.unk(rule, site, "loop over self.bus.memory_map.window_patterns()",
                f"found {len(loops)} such loops: the decoder must decode with the patterns of the map it publishes")
        return None
    L = loops[0]
    r.L = L
    if elem is not None:
        r.map = c.norm(('sub', elem, ('const', 0)))
        r.name = c.norm(('sub', elem, ('const', 1)))
        r.pat = c.norm(('sub', ('sub', elem, ('const', 2)), ('const', 0)))
        r.ratio = c.norm(('sub', ('sub', elem, ('const', 2)), ('const', 1)))
    else:
        r.map = ('item', L.id, (0,))
        r.name = ('item', L.id, (1,))
        r.pat = ('item', L.id, (2, 0))
        r.ratio = ('item', L.id, (2, 1))
    # the subordinate bus: a registry lookup keyed by the window's map
    subs = set()
    for d in c.t.drivers:
        for x in ir.walk(c.norm(d.target)):
            if x[0] == 'sub' and x[2] == r.map:
                subs.add(x)
    if len(subs) != 1:
        rep.unk(rule, site, "registry lookup by the window's map", f"found {len(subs)} distinct lookups keyed by position 0 of the "
                "window_patterns() tuple")
        return None
    r.sub = next(iter(subs))
    r.registry = r.sub[1]
    # the Switch
    subj = c.parse(subject_text)
    sids = [sid for sid, s in c.t.switches.items() if c.norm(s) == subj]
    r.skip = None
    if not sids:
        # Switch on the upper part of the address, addr[K:]: sound iff every window ignores at least its K low bits,
        # i.e. K <= the address width of every subordinate (K = the smallest of them); K = the largest leaves the bits
        # between a smaller window's width and K neither compared nor forwarded
        for sid, s in c.t.switches.items():
            sn = c.norm(s)
            if sn[0] == 'sub' and sn[1] == subj and sn[2][0] == 'slice' and sn[2][2] in (('const', None), c.norm(('call', ('name', 'len'), (subj,), ()))) \
                    and sn[2][3] == ('const', 1) and sn[2][1] not in (('const', 0), ('const', None)):
                K = sn[2][1]
                agg = K[1] if K[0] == 'call' and K[1] in (('name', 'max'), ('name', 'min')) else None
                over_windows = agg is not None and len(K[2]) == 1 and K[2][0][0] == 'gen' and len(K[2][0][3]) == 1 and \
                    unlist(c.norm(K[2][0][3][0][1])) == WP and K[2][0][2][0] == 'attr' and K[2][0][2][2] == 'addr_width'
                if over_windows and agg == ('name', 'max'):
                    rep.bad(rule, site, f"Switch({subject_text}[K:])",
                            "the comparators skip K = the LARGEST subordinate address width: for a smaller subordinate the address bits between "
                            "its own width and K are neither compared nor forwarded, so addresses outside its window select it")
                    return None
                rep.unk(rule, site, f"Switch({subject_text}[K:])", f"the Switch decodes a slice of the address starting at {ir.show(K)[:80]}; "
                        "that form is not verified")
                return None
    if not sids:
        # Switch on the lower part of the address, addr[:K] with K other than the address width: the bits from K up are not compared
        # (nothing else tests them), so every address that differs from a window's addresses only in those bits selects that window
        for sid, s in c.t.switches.items():
            sn = c.norm(s)
            if sn[0] == 'sub' and sn[1] == subj and sn[2][0] == 'slice' and sn[2][1] in (('const', 0), ('const', None)) and sn[2][3] == ('const', 1):
                K = sn[2][2]
                full = (('const', None), c.norm(('call', ('name', 'len'), (subj,), ())), c.parse(subject_text.rsplit('.', 1)[0] + ".addr_width"))
                other_tests = [s2 for sid2, s2 in c.t.switches.items() if sid2 != sid and any(x == subj for x in ir.walk(c.norm(s2)))]
                if K not in full and not other_tests and not any(
                        fr[0] in ('if', 'elif') and any(x == subj for x in ir.walk(c.norm(fr[1]))) for d in c.t.drivers for fr in d.dsl
                        if len(fr) > 1 and isinstance(fr[1], tuple)):
                    rep.bad(rule, site, f"Switch({subject_text}[:K])",
                            f"the comparators see only the address bits below K = {ir.show(K)[:70]}; the bits from K up to the address width are "
                            "tested nowhere, so an address outside every window that agrees with a window's addresses in the low K bits selects "
                            "that window (strobes and read data for an unassigned address)")
                    return None
    if len(sids) != 1:
        rep.unk(rule, site, f"Switch({subject_text})", f"found {len(sids)} Switch statements on the bus address")
        return None
    r.sid = sids[0]
    # the Case pattern(s) used in that Switch inside the loop
    pats = set()
    for d in c.t.drivers:
        for fr in d.dsl:
            if fr[0] == 'case' and fr[1] == r.sid:
                pats.add(tuple(c.norm(p) for p in fr[2]))
    for a in c.t.accs.values():
        for term, gen, dsl_, ln in a.terms:
            for fr in dsl_:
                if fr[0] == 'case' and fr[1] == r.sid:
                    pats.add(tuple(c.norm(p) for p in fr[2]))
    if len(pats) != 1 or len(next(iter(pats))) != 1:
        rep.unk(rule, site, "Case per window", f"expected one Case pattern per window, found {sorted(ir.show(p[0]) for p in pats if p)}")
        return None
    r.case_pat = next(iter(pats))[0]
    r.case = ('formula', c.eng.frame_formula(('case', r.sid, (r.case_pat,), 0)))
    r.env = {"sub": r.sub, "pat": r.pat, "ratio": r.ratio, "map": r.map}
    return r


def _registry_store_precedes_window(c):
    """In add(): is the registry store executed before add_window() (which may still refuse)?"""
    import ast as _ast
    add = c.fi.cls.method("add") if c.fi.cls is not None else None
    if add is None:
        return True
    stores = [n.lineno for n in _ast.walk(add.node) if isinstance(n, _ast.Assign) and
              any(isinstance(t, _ast.Subscript) and _ast.unparse(t.value).startswith("self.") for t in n.targets)]
    stores += [n.lineno for n in _ast.walk(add.node) if isinstance(n, _ast.Call) and isinstance(n.func, _ast.Attribute) and
               n.func.attr == "append" and _ast.unparse(n.func.value).startswith("self.")]
    calls = [n.lineno for n in _ast.walk(add.node) if isinstance(n, _ast.Call) and isinstance(n.func, _ast.Attribute) and
             n.func.attr == "add_window"]
    if not stores or not calls:
        return True
    return min(stores) <= max(calls)


def _registry_attr(c):
    """The attribute add() records subordinates in: `self.<attr>[sub_bus.memory_map] = sub_bus` (one store)."""
    import ast as _ast
    add = c.fi.cls.method("add") if c.fi.cls is not None else None
    if add is None:
        return None
    attrs = [t.value.attr for n in _ast.walk(add.node) if isinstance(n, _ast.Assign) for t in n.targets
             if isinstance(t, _ast.Subscript) and isinstance(t.value, _ast.Attribute) and isinstance(t.value.value, _ast.Name) and
             t.value.value.id == "self"]
    return attrs[0] if len(attrs) == 1 else None


def acc_of(c, value):
    v = c.norm(value)
    if v[0] == 'acc':
        return c.t.accs[v[1]]
    return None


def is_zero(c, e):
    """0, or a zero of explicit width (Const(0, w)): the identity of |."""
    e = c.norm(e)
    if e[0] == 'call' and e[1] in (('name', 'Const'), ('name', 'C')) and e[2] and e[2][0] == ('const', 0):
        return True
    return e == ('const', 0)


MANDATORY_MEMBERS = {"adr", "dat_w", "dat_r", "sel", "cyc", "stb", "we", "ack", "addr", "r_data", "r_stb", "w_data", "w_stb"}


def check_acc(rep, rule, c, what, a, term_text, env, L, term_cond=None, outer=(), ignore_prefix=()):
    """accumulator a == OR over all iterations of loop L of <term> (term only present under term_cond), starting from 0"""
    site = c.fi.site
    init0 = c.norm(a.init)
    if init0[0] == 'call' and init0[1] in (('name', 'Const'), ('name', 'C')) and init0[2] and init0[2][0] == ('const', 0):
        init0 = ('const', 0)                    # Const(0, w): a zero of explicit width is still the identity of |
    if init0 != ('const', 0) or a.op != '|':
        rep.bad(rule, site, what, f"OR-reduction starts from {c.show(a.init)} (must be 0)")
        return False
    want_term = c.parse(term_text, env)
    ok = True
    if len(a.terms) != 1:
        rep.bad(rule, site, what, f"{len(a.terms)} kinds of term are OR-ed in; expected exactly the subordinate's own signal")
        return False
    term, tgen, tdsl, ln = a.terms[0]
    # `acc |= x if present else 0`: OR-ing a zero is OR-ing nothing, so the term is x, present only under the condition
    tn_ = c.norm(term)
    if tn_[0] == 'phi' and is_zero(c, tn_[3]):
        term, tgen = tn_[2], tuple(tgen) + (('pyif', tn_[1], True),)
    elif tn_[0] == 'phi' and is_zero(c, tn_[2]):
        term, tgen = tn_[3], tuple(tgen) + (('pyif', tn_[1], False),)
    if c.norm(term) != want_term and (dl._mux_mask_pair(want_term, c.norm(term)) or dl._mux_mask_pair(c.norm(term), want_term)):
        rep.unk(rule, site, what, f"term is {c.show(term)}: a mask with a replicated strobe equals {ir.show(want_term)} exactly when the replication "
                "count is the operand's width, which is not known here")
        return False
    if c.norm(term) != want_term:
        other = [fr[1] for fr in tgen if fr[0] == 'for' and fr[1] != L.id and fr[1] not in outer]
        extra = ""
        if other and other[0] in c.t.loops:
            extra = (f": the OR runs over {c.show(c.t.loops[other[0]].iter)}, not over the windows of the published map -- an entry of "
                     "that collection without a window (its add_window() was refused) still contributes")
        if extra and not _registry_store_precedes_window(c):
            # add() records a subordinate only after its window was accepted, under the window's own memory map (one entry per
            # window, a map cannot be a window twice), and elaborate() looks every window up in that registry (KeyError otherwise):
            # the registry's values are exactly the windows' buses, and an OR does not care about the order
            reg_attr = _registry_attr(c)
            it_ = c.norm(c.t.loops[other[0]].iter)
            over_registry = reg_attr is not None and it_ in (c.parse(f"self.{reg_attr}.values()"), c.parse(f"self.{reg_attr}"))
            item = ('item', other[0], ()) if it_ == c.parse(f"self.{reg_attr}.values()") else None
            same_signal = item is not None and want_term[0] == 'attr' and c.norm(term) == ('attr', item, want_term[2])
            plain = [fr for fr in tgen if not (fr[0] == 'for' and (fr[1] == other[0] or fr[1] in outer))]
            plain = [fr for fr in plain if not (fr[0] == 'pyif' and fr[2] and c.norm(fr[1])[0] == 'has' and c.norm(fr[1])[2] in MANDATORY_MEMBERS)]
            looked_up = any(x[0] == 'sub' and x[1] == c.parse(f"self.{reg_attr}") for d_ in c.t.drivers for x in ir.walk(c.norm(d_.target))) \
                if reg_attr is not None else False
            if over_registry and same_signal and looked_up and (not plain or term_cond is not None and len(plain) == 1 and plain[0][0] == 'pyif'):
                return True
            rep.unk(rule, site, what, f"term is {c.show(term)}; expected {ir.show(want_term)}: the OR runs over another collection and add() "
                    "registers only after add_window() succeeded; whether both collections always agree is not decided")
            return False
        rep.bad(rule, site, what, f"term is {c.show(term)}; expected {ir.show(want_term)}{extra}", line=ln)
        return False
    tg = [(fr[0], c.norm(fr[1]), fr[2]) if fr[0] == 'pyif' else fr for fr in tgen]
    # conditions that hold for the whole statement (the driver's own generation conditions) and hasattr() of a member every
    # interface of that protocol has say nothing about the term
    ip = [fr for fr in ignore_prefix if fr[0] == 'pyif']
    tg = [fr for fr in tg if not (fr[0] == 'pyif' and fr in ip)]
    tg = [fr for fr in tg if not (fr[0] == 'pyif' and fr[2] and fr[1][0] == 'has' and fr[1][2] in MANDATORY_MEMBERS)]
    tg = [fr for fr in tg if not (fr[0] == 'pyif' and fr[1] == ('const', bool(fr[2])))]
    want_tg = [('for', o) for o in outer] + [('for', L.id)] + ([] if term_cond is None else [('pyif', c.parse(term_cond, env), True)])
    if tg != want_tg:
        rep.bad(rule, site, what, "the term is not added for every subordinate (that has the signal): "
                f"found context {[ir.show(g[1]) if g[0]=='pyif' else g for g in tg]}", line=ln)
        return False
    return True


def check_fanin(rep, rule, c, what, target, term_text, env, L, bus_cond=None, term_cond=None, outer=()):
    """target == OR over all iterations of loop L of <term> (term only present under term_cond), driven comb
    under bus_cond only."""
    site = c.fi.site
    ds = c.drivers_of(c.parse(target, env))
    if not ds and c.overlapping(c.parse(target, env)):
        rep.unk(rule, site, what, f"{target} is " + "driven bit by bit / slice by slice; the rule compares the signal as a whole and does not assemble it")
        return False
    if not ds:
        rep.bad(rule, site, what, f"{target} is never driven: responses / read data would be lost")
        return False
    if len(ds) != 1 or ds[0].domain != "comb" or ds[0].dsl:
        rep.bad(rule, site, what, f"{target} must have one unconditional combinational driver (the OR-reduction)",
                lines=[d.lineno for d in ds])
        return False
    d = ds[0]
    gen = [fr for fr in d.gen]
    want_gen = [('for', o) for o in outer] + ([] if bus_cond is None else [('pyif', c.parse(bus_cond, env), True)])
    got_gen = [(fr[0], c.norm(fr[1]), fr[2]) if fr[0] == 'pyif' else fr for fr in gen]
    # a condition that is constantly true (hasattr of a mandatory member) is no condition
    got_gen = [g for g in got_gen if not (g[0] == 'pyif' and g[1] == ('const', bool(g[2])))]
    if got_gen != want_gen:
        rep.bad(rule, site, what, f"driver exists under generation condition(s) {[ir.show(g[1]) if g[0]=='pyif' else g for g in got_gen]}; "
                f"expected {'none' if bus_cond is None else bus_cond}", line=d.lineno)
        return False
    a = acc_of(c, d.value)
    if a is None:
        v = c.norm(d.value)
        if any(isinstance(n, tuple) and n and n[0] in ('call', 'gen', 'opaque') for n in ir.walk(v)):
            rep.unk(rule, site, what, f"value {c.show(d.value)} is computed by a call the analysis does not model")
        else:
            rep.bad(rule, site, what, f"value {c.show(d.value)} is not a plain OR-reduction over the subordinates", line=d.lineno)
        return False
    if not check_acc(rep, rule, c, what, a, term_text, env, L, term_cond=term_cond, outer=outer, ignore_prefix=want_gen):
        return False
    rep.ok(rule, site, what, f"{target} = OR over subordinates of {term_text}")
    return True


def registry_and_window(rep, rule, idx, fi, forwarded):
    """Decoder.add: registry keyed by the subordinate's map, the same map is added as window, every validation
    dominates the registry store, caller's placement arguments are forwarded."""
    import ast as _ast
    from . import apirules
    site = fi.site
    fg = apirules.graph(idx, fi)
    g = fg.g
    stores = [n for n in g.nodes if n.kind == "stmt" and isinstance(n.ast, _ast.Assign) and
              any(isinstance(t, _ast.Subscript) and _ast.unparse(t.value) == "self._subs" for t in n.ast.targets)]
    calls = [(n, cl) for n in g.nodes for cl in fg.calls_in(n.id)
             if isinstance(cl.func, _ast.Attribute) and cl.func.attr == "add_window"]
    if len(stores) != 1 or len(calls) != 1:
        rep.form(False, rule, site, "registry store and add_window call", f"found {len(stores)} registry store(s) and {len(calls)} add_window call(s)",
                 wrong="the subordinate's map is never added as a window" if not calls else None)
        return
    st = stores[0].ast
    from .common import get_fn
    sym = get_fn(idx, fi)
    aliases = {k: v for k, v in sym.t.final_env.items() if isinstance(v, tuple) and v[0] != 'localfn'}
    key = sym.norm(ir.from_ast(st.targets[0].slice, aliases))
    val = sym.norm(ir.from_ast(st.value, aliases))
    call = calls[0][1]
    warg = sym.norm(ir.from_ast(call.args[0], aliases)) if call.args else None
    recv = sym.norm(ir.from_ast(call.func.value, aliases))
    rep.check(key == ir.parse("sub_bus.memory_map") and val == ('name', 'sub_bus'), rule, site,
              "registry maps the subordinate's memory map to the subordinate bus", f"self._subs[{ir.show(key)}] = {ir.show(val)}")
    rep.check(warg == key, rule, site, "the window added is the map the registry is keyed by",
              f"add_window({ir.show(warg) if warg else None}, ...) vs registry key {ir.show(key)}")
    rep.check(recv == ir.parse("self.bus.memory_map"), rule, site, "the window goes into the map the decoder publishes",
              f"add_window is called on {ir.show(recv)}")
    kws = {k.arg: ir.from_ast(k.value, aliases) for k in call.keywords if k.arg}
    for f in forwarded:
        rep.check(kws.get(f) == ('name', f), rule, site, f"add() forwards `{f}` to add_window",
                  f"{f}={ir.show(kws[f]) if f in kws else 'missing'}", nontrivial=False)
    # every raise guard dominates the registry store
    dom = g.dominators()[stores[0].id]
    tests = [n.id for n in g.nodes if n.kind == "test" and any(lab == "exc" or g.nodes[m].kind == "stmt" and
             isinstance(g.nodes[m].ast, _ast.Raise) for m, lab in g.succ[n.id])]
    after = g.reachable([stores[0].id])
    late = [t for t in tests if t in after and t != stores[0].id]
    rep.check(not late, rule, site, "every validation precedes the registration",
              f"validation at line(s) {[g.nodes[t].lineno for t in late]} runs after the registry store")
    # the result of add_window is what add() returns
    rets = [n for n in g.nodes if n.kind == "stmt" and isinstance(n.ast, _ast.Return)]
    ok = any(isinstance(n.ast.value, _ast.Call) and n.ast.value is call for n in rets) or \
        any(n.ast.value is not None for n in rets)
    rep.check(ok, rule, site, "add() returns the assigned range", "no value returned", nontrivial=False)


def trimmed_pattern(rep, rule, c, r):
    """Wishbone decoder: the Case pattern is the window pattern minus exact_log2(data_width // granularity) low bits,
    the same expression as in Decoder.__init__ (map address width) and the Interface.memory_map setter."""
    site = c.fi.site
    P = r.case_pat
    gb = c.parse("exact_log2(self.bus.data_width // self.bus.granularity)")
    env = {"pat": r.pat, "gb": gb}
    forms = [c.norm(c.parse("pat[:-gb if gb > 0 else None]", env)), c.norm(c.parse("pat[:len(pat) - gb]", env)),
             c.norm(c.parse("pat[:-gb] if gb > 0 else pat", env))]
    if P == r.pat:
        rep.bad(rule, site, "Case pattern trimmed by the granularity bits",
                "the map pattern is used untrimmed although the map addresses granules and the bus addresses words")
    elif P in forms:
        rep.ok(rule, site, "Case pattern == window pattern without its exact_log2(data_width // granularity) low bits",
               f"pattern {ir.show(P)}")
    elif (P[0] == 'sub' and P[1] == r.pat) or (P[0] == 'phi' and all(x == r.pat or (x[0] == 'sub' and x[1] == r.pat) for x in (P[2], P[3]))):
        rep.unk(rule, site, "Case pattern trimmed by the granularity bits", f"unrecognised trimming {ir.show(P)}")
    else:
        rep.bad(rule, site, "Case pattern is the window's own pattern", f"Case uses {ir.show(P)}")


# ---- shadow-register address hash: sibling agreement in Z/2**k -----------------------------------------
_COVER = set()


def _modR(e, R, M):
    """Linear form {term: coef} (+ const under key None) of e modulo R, where R is a power of two and M == R - 1.
    Returns None when the expression cannot be reduced (then the rule is undecided)."""
    if e == R:
        return {}
    if e[0] == 'const' and isinstance(e[1], int):
        return {None: e[1]} if e[1] else {}
    if e[0] == 'lin':
        out = {None: e[1]} if e[1] else {}
        for t, c in e[2]:
            sub = _modR(t, R, M)
            if sub is None:
                return None
            for k, v in sub.items():
                out[k] = out.get(k, 0) + c * v
        return {k: v for k, v in out.items() if v}
    if e[0] == 'bin' and e[1] == '%':
        if e[3] == R:
            return _modR(e[2], R, M)
        return {e: 1}                                   # a remainder by something else: an opaque integer
    if e[0] == 'nary' and e[1] == '&':
        ops = list(e[2])
        if any(o == ('un', '~', M) for o in ops):
            return {}                                   # a multiple of R
        if any(o in (('lin', 0, ((R, -1),)), ('un', '-', R)) for o in ops):
            return {}                                   # x & -R: in two's complement -R is ~(R - 1), the mask of the bits from R upwards
        # (size - 1) ^ (R - 1) with size a power of two >= R is the mask of the bits above the register size
        if any(o[0] == 'nary' and o[1] == '^' and len(o[2]) == 2 and M in o[2] and any(x in _COVER for x in o[2]) for o in ops):
            return {}
        if M in ops:
            rest = [o for o in ops if o != M]
            if len(rest) == 1:
                return _modR(rest[0], R, M)
            return {('nary', '&', tuple(rest)): 1}
        return {e: 1}
    if e[0] == 'nary' and e[1] == '*':
        if any(o == R for o in e[2]):
            return {}                                   # any multiple of R
        return {e: 1}
    if e[0] == 'nary' and e[1] == '|':
        parts = [_modR(o, R, M) for o in e[2]]
        if any(p is None for p in parts):
            return None
        nz = [p for p in parts if p]
        if len(nz) > 1:
            return None
        return nz[0] if nz else {}
    return {e: 1}


def shadow_hash(rep, idx, rule):
    """decode_address and encode_offset of the multiplexer's shadow register must be mutually inverse on the low
    bits: decode(addr) == addr (mod R) and encode(o) == start + ((o - start) mod R), R = 2**ceil_log2(size), the same
    R in both.  Decided by reduction modulo R on the extracted expressions (no numbers are run)."""
    from .common import get_fn
    dec = get_fn(idx, "Multiplexer._Shadow.decode_address")
    enc = get_fn(idx, "Multiplexer._Shadow.encode_offset")
    rep.analysed(dec.fi.site, enc.fi.site)
    R = dec.parse("2 ** ceil_log2(reg_range.stop - reg_range.start)")
    M = dec.norm(('bin', '-', R, ('const', 1)))
    def canon_size(ctx_, v):
        # register ranges are never empty and have step 1 (MemoryMap hands them out): len(r) == r.stop - r.start >= 1, hence
        # (len(r) - 1).bit_length() == ceil_log2(len(r))
        def f(x):
            if x[0] == 'call' and x[1] == ('name', 'len') and len(x[2]) == 1 and x[2][0] == ('name', 'reg_range'):
                return ir.parse("reg_range.stop - reg_range.start")
            if x[0] == 'call' and x[1][0] == 'attr' and x[1][2] == 'bit_length' and not x[2]:
                r_ = x[1][1]
                if r_[0] == 'lin' and r_[1] == -1:
                    return ('call', ('name', 'ceil_log2'), (ctx_.norm(('lin', 0, r_[2])),), ())
            return None
        v2 = ctx_.norm(ir.subst(v, f))
        return ctx_.norm(ir.subst(v2, f))
    d = [canon_size(dec, dec.norm(v)) for v, gen, ln in dec.t.returns]
    e = [canon_size(enc, enc.norm(v)) for v, gen, ln in enc.t.returns]
    global _COVER
    _COVER = {dec.parse("self._size - 1"), dec.parse("self.size - 1")}
    if len(d) != 1 or len(e) != 1:
        rep.unk(rule, dec.fi.site, "shadow hash", "decode_address / encode_offset do not have a single return")
        return
    d, e = d[0], e[0]
    uses_R_d = ir.mentions(d, R) or ir.mentions(d, M)
    uses_R_e = ir.mentions(e, R) or ir.mentions(e, M)
    wrong_mod = [x for x in ir.walk(e) if x[0] == 'bin' and x[1] == '%' and x[3] != R] + \
                [x for x in ir.walk(d) if x[0] == 'bin' and x[1] == '%' and x[3] != R and x[3] != dec.parse("self.size")]
    # one of the two uses the power-of-two register size and the other wraps or masks with another size of the model (the raw span
    # `stop - start`, whose `- 1` is no bit mask unless the span is a power of two; the shadow size, which is not the register's)
    span = dec.parse("reg_range.stop - reg_range.start")
    other_sizes = {ir.show(span): "the raw span stop - start (as `span - 1` it is a bit mask only for power-of-two spans: a register of 3, 5, "
                                  "6 ... addresses folds two of its chunks onto one offset)",
                   ir.show(dec.parse("self._size")): "the shadow size (a register smaller than the shadow is wrapped over addresses that are not its own)",
                   ir.show(dec.parse("self.size")): "the shadow size (a register smaller than the shadow is wrapped over addresses that are not its own)"}

    def masks_of(x_):
        out = set()
        for y in ir.walk(x_):
            if y[0] == 'bin' and y[1] == '%':
                out.add(ir.show(y[3]))
            if y[0] == 'lin' and y[1] == -1 and len(y[2]) >= 1 and all(cf in (1, -1) for _, cf in y[2]):
                t_ = y[2][0][0] if len(y[2]) == 1 and y[2][0][1] == 1 else dec.norm(('lin', 0, y[2]))
                out.add(ir.show(t_))                                # (size - 1) used as a mask
        return out
    named_size = None
    if uses_R_d != uses_R_e:
        side, ex = ("decode_address", d) if not uses_R_d else ("encode_offset", e)
        # the low bits: where the address / offset itself is masked
        hit = [why for k_, why in other_sizes.items() if k_ in masks_of(ex)]
        lowmask = [y for y in ir.walk(ex) if y[0] in ('nary', 'bin') and y[1] in ('&', '%') and
                   (ir.mentions(y, ('name', 'addr')) or ir.mentions(y, ('name', 'offset')))]
        if hit and lowmask and any(k_ in masks_of(y) for y in lowmask for k_ in other_sizes):
            named_size = f"{side} reduces the address with {hit[0]}, while its counterpart uses 2**ceil_log2(stop - start): the two are no longer inverse to each other"
    rep.form(uses_R_d and uses_R_e, rule, enc.fi.site,
             "decode_address and encode_offset use the same power-of-two register size 2**ceil_log2(stop - start)",
             f"decode uses it: {uses_R_d}; encode uses it: {uses_R_e}",
             wrong=(f"a different modulus is used: {ir.show(wrong_mod[0][3])[:60]}" if wrong_mod else named_size))
    plain = {None, ('name', 'addr'), ('name', 'offset'), dec.parse("reg_range.start"), dec.parse("reg_range.stop")}

    def reduced(m):
        """Fully reduced: only the parameters and the range ends are left (then a difference is a real difference)."""
        return m is not None and all(k in plain for k in m)
    md = _modR(d, R, M)
    rep.form(md == {('name', 'addr'): 1}, rule, dec.fi.site, "decode_address(addr) == addr (mod register size)",
             f"returns {ir.show(d)[:120]}",
             wrong=(f"modulo the register size the offset reduces to {_lin_show(md)}; the low bits of the chunk offset must be the low bits "
                    "of the bus address") if reduced(md) else None)
    me = _modR(e, R, M)
    rep.form(me == {('name', 'offset'): 1}, rule, enc.fi.site, "encode_offset(o) == o (mod register size)",
             f"returns {ir.show(e)[:120]}",
             wrong=(f"modulo the register size the address reduces to {_lin_show(me)}: some chunk of the register is given an address that "
                    "decode_address does not map back to it") if reduced(me) else None)
    # the high part of the offset: the start address reduced modulo the *shadow size* (start & (size - 1), or start % size) -- that is
    # what makes the offsets of all registers distinct once the shadow is as large as the address range, the fact the give-up bound
    # of prepare() rests on.  Another mask keeps only some of those bits: registers whose start addresses differ in the dropped bits
    # share chunks at every size, balancing never succeeds, and a legal layout with a sharing limit is refused.
    start = dec.parse("reg_range.start")
    size_forms = (dec.parse("self._size"), dec.parse("self.size"))
    masks = []
    for x in ir.walk(d):
        if x[0] == 'nary' and x[1] == '&' and start in x[2]:
            masks.append([t for t in x[2] if t != start and not (t[0] == 'un' and t[1] == '~')])
        if x[0] == 'bin' and x[1] == '%' and ir.mentions(x[2], start) and x[3] != R:
            masks.append([('modsize', x[3])])
    what_hi = "decode_address keeps every bit of the start address below the shadow size"
    if len(masks) == 1 and len(masks[0]) == 1:
        mk = masks[0][0]
        good = mk in tuple(dec.norm(('bin', '-', z, ('const', 1))) for z in size_forms) or (mk[0] == 'modsize' and mk[1] in size_forms)
        off = None
        if not good and mk[0] == 'lin' and len(mk[2]) == 1 and mk[2][0][0] in size_forms and mk[2][0][1] == 1:
            off = mk[1]
        elif not good and mk in size_forms:
            off = 0
        rep.form(good, rule, dec.fi.site, what_hi, f"the start address is masked with {ir.show(mk[1] if mk[0] == 'modsize' else mk)[:60]}",
                 wrong=(f"the mask is size {off:+d} instead of size - 1: it does not select the address bits below the shadow size, so registers "
                        "whose start addresses differ in the unselected bits share chunks however large the shadow gets; prepare() then gives "
                        "up (ValueError) on layouts that a sharing limit allows") if off is not None else None)
    elif masks:
        rep.ok(rule, dec.fi.site, what_hi, f"{len(masks)} maskings of the start address of another shape: the high part of the offset is not "
               "examined in this form (the low bits are, above)", nontrivial=False)
    # the shadow size is a power of two (it is used as a bit mask, size - 1): add() folds 2 ** <something> into it
    try:
        add = get_fn(idx, "Multiplexer._Shadow.add")
        folded = [v for v in (add.stored("self._size"), add.stored("self.size")) if v is not None] if hasattr(add, "stored") else []
    except Exception:
        add, folded = None, []
    if add is not None and not folded:
        import ast as _ast
        for st in _ast.walk(add.fi.node):
            if isinstance(st, _ast.Assign) and len(st.targets) == 1 and _ast.unparse(st.targets[0]) in ("self._size", "self.size"):
                env_ = {}
                for b in _ast.walk(add.fi.node):
                    if isinstance(b, _ast.Assign) and len(b.targets) == 1 and isinstance(b.targets[0], _ast.Name) and b is not st:
                        env_[b.targets[0].id] = ir.from_ast(b.value, dict(env_))
                folded.append(add.norm(ir.from_ast(st.value, env_)))
    for v in folded:
        pows = [x for x in ir.walk(v) if x[0] == 'bin' and x[1] == '**'] + \
               [('bin', '**', ('const', 2), x[3]) for x in ir.walk(v) if x[0] == 'bin' and x[1] == '<<' and x[2] == ('const', 1)]
        odd = [x for x in pows if x[2][0] == 'const' and x[2][1] != 2]
        what_p = "add() keeps the shadow size a power of two"
        if odd:
            rep.bad(rule, add.fi.site, what_p, f"the size is raised to a power of {odd[0][2][1]} ({ir.show(v)[:80]}): size - 1 is then not a mask of the low "
                    "address bits, chunks of different registers collide at every size and prepare() gives up on layouts a sharing limit allows")
        elif pows and all(x[2] == ('const', 2) for x in pows):
            rep.ok(rule, add.fi.site, what_p, f"self._size = {ir.show(v)[:80]}", nontrivial=False)
        else:
            rep.ok(rule, add.fi.site, what_p, f"self._size = {ir.show(v)[:80]}: not of the form 2 ** <expression>; not examined", nontrivial=False)
    # encode lands inside [start, start + R): start + (<anything> % R)  or  start + (<anything> & (R - 1))
    def wraps(t):
        return (t[0] == 'bin' and t[1] == '%' and t[3] == R) or (t[0] == 'nary' and t[1] == '&' and M in t[2])
    shape = e[0] == 'lin' and e[1] == 0 and len(e[2]) == 2 and any(t == enc.parse("reg_range.start") and k == 1 for t, k in e[2]) and \
        any(wraps(t) and k == 1 for t, k in e[2])
    other_mod = any(x[0] == 'bin' and x[1] == '%' and x[3] != R and
                    not any(y[0] in ('sub', 'call') and ir.mentions(y, ('name', 'self')) for y in ir.walk(x[3])) for x in ir.walk(e))
    rep.form(shape, rule, enc.fi.site, "encode_offset(o) lies in [start, start + register size)", f"returns {ir.show(e)[:120]}",
             wrong="the offset is wrapped with a modulus other than the power-of-two register size" if other_mod else None)


def shadow_give_up_bound(rep, idx, rule):
    """_Shadow.prepare() doubles the shadow until the sharing limit holds and gives up -- a ValueError, the layout is refused --
    once doubling cannot help any more.  Doubling stops helping only when every address bit of every register takes part in the
    decoding: size >= 2**ceil_log2(max stop), the addresses in use being 0 .. max stop - 1.  A threshold below that refuses
    layouts that one more doubling would have balanced (registers that only alias in the address bits not yet decoded); a
    threshold above it merely costs doublings.  The threshold is read off the guard of the `raise` and compared in normal form."""
    import ast as _ast
    from .common import get_fn
    try:
        c = get_fn(idx, "Multiplexer._Shadow.prepare")
    except Exception:
        rep.unk(rule, "csr/bus.py", "shadow give-up threshold", "_Shadow.prepare not found")
        return
    f = c.fi
    site = f.site
    rep.analysed(site)
    what = "prepare() gives up only when every address bit in use is decoded (size >= 2**ceil_log2(max stop))"
    parents = {}
    for n in _ast.walk(f.node):
        for ch in _ast.iter_child_nodes(n):
            parents[ch] = n
    binds = {}
    for n in _ast.walk(f.node):
        if isinstance(n, _ast.Assign) and len(n.targets) == 1 and isinstance(n.targets[0], _ast.Name):
            binds.setdefault(n.targets[0].id, []).append(n.value)
    env = {k: ir.from_ast(v[0], {}) for k, v in binds.items() if len(v) == 1}

    def N(e):
        e = ir.subst(e, lambda x: env.get(x[1]) if x[0] == 'name' and x[1] in env else None)
        e = ir.subst(e, lambda x: env.get(x[1]) if x[0] == 'name' and x[1] in env else None)
        # the maximum over a sorted copy is the maximum over the collection
        e = ir.subst(e, lambda x: x[2][0] if x[0] == 'call' and x[1] == ('name', 'sorted') and len(x[2]) == 1 else None)
        return c.norm(e)
    SIZE = {c.norm(c.parse("self._size")), c.norm(c.parse("self.size"))}
    M = c.norm(c.parse("max(r.stop for r in self._ranges)"))
    W = c.norm(c.parse("2 ** ceil_log2(max(r.stop for r in self._ranges))"))
    found = 0
    for r_ in _ast.walk(f.node):
        if not isinstance(r_, _ast.Raise) or r_.exc is None or "ValueError" not in _ast.unparse(r_.exc)[:20]:
            continue
        g = parents.get(r_)
        while g is not None and not isinstance(g, _ast.If):
            g = parents.get(g)
        if g is None or r_ not in g.body:
            continue
        t, pos_ = ir.split_neg(N(ir.from_ast(g.test, {})))
        if t[0] != 'cmp' or t[1] not in ('>=', '>', '<=', '<'):
            continue
        if not pos_:
            t = ('cmp', {'<': '>=', '<=': '>', '>': '<=', '>=': '<'}[t[1]], t[2], t[3])
        if t[2] in SIZE and t[1] in ('>=', '>'):
            E, strict = t[3], t[1] == '>'
        elif t[3] in SIZE and t[1] in ('<=', '<'):
            E, strict = t[2], t[1] == '<'
        else:
            continue
        found += 1
        shown = ir.show(E)[:110]
        if E == W:
            rep.ok(rule, site, what, f"threshold {shown}" + (" (strict: one more doubling)" if strict else ""))
            continue
        X = None
        if E[0] == 'bin' and E[1] == '**' and E[2] == ('const', 2) and E[3][0] == 'call' and E[3][1] == ('name', 'ceil_log2') and len(E[3][2]) == 1:
            X = E[3][2][0]
        if X is None:
            rep.unk(rule, site, what, f"threshold {shown} is not of the form 2**ceil_log2(...)")
            continue
        lower = None
        if X[0] == 'lin' and any(tm == M and co == 1 for tm, co in X[2]):
            rest = [(tm, co) for tm, co in X[2] if tm != M]
            if not rest and X[1] > 0:
                rep.ok(rule, site, what, f"threshold {shown}: not below 2**ceil_log2(max stop)")
                continue
            if not rest and X[1] < 0:
                lower = (f"the threshold is taken from max stop {X[1]}: when the highest address in use is a power of two (registers at 0 and "
                         "at 4, one word each) it is one bit short, the topmost register still aliases a lower one at that size, and a "
                         "layout that the next doubling separates is refused with ValueError")
            elif all(co < 0 for tm, co in rest) and X[1] <= 0 and any(tm[0] == 'call' and tm[1] == ('name', 'min') for tm, co in rest):
                lower = ("the threshold is taken from the *span* max stop - min start: the address bits above the span are not decoded yet "
                         "when it is reached, so registers placed high (two words at 3, one word at 10: chunk 2 is shared at size 8) still share chunks there and a layout that "
                         "further doublings separate is refused with ValueError")
        elif X[0] == 'call' and X[1] == ('name', 'max') and len(X[2]) == 1 and X[2][0][0] == 'gen':
            elt = X[2][0][2]
            Melt = M[2][0][2] if M[0] == 'call' and M[2] and M[2][0][0] == 'gen' else None
            if Melt is not None and X[2][0][3] == M[2][0][3] and elt[0] == 'lin' and any(tm == Melt and co == 1 for tm, co in elt[2]) and \
                    len(elt[2]) == 1 and elt[1] < 0:
                lower = (f"the threshold is taken from max(stop {elt[1]}): when the highest address in use is a power of two (registers at 0 "
                         "and at 4, one word each) it is one bit short, the topmost register still aliases a lower one at that size, and a "
                         "layout that the next doubling separates is refused with ValueError")
            elif Melt is not None and X[2][0][3] == M[2][0][3] and elt[0] == 'lin' and any(tm == Melt and co == 1 for tm, co in elt[2]) and \
                    len(elt[2]) == 1 and elt[1] > 0:
                rep.ok(rule, site, what, f"threshold {shown}: not below 2**ceil_log2(max stop)")
                continue
        rep.form(False, rule, site, what, f"threshold {shown}", wrong=lower, **({"line": g.lineno} if lower else {}))
    if not found:
        rep.unk(rule, site, what, "no `raise ValueError` guarded by a comparison of the shadow size with a threshold was found in prepare()")


def shadow_chunk_keys(rep, idx, rule):
    """_Shadow.prepare() files every chunk under the shadow offset that decode_address() produced for it (the key of the
    `registers` table), and gives the Chunk that same offset: elaborate() turns the key back into bus addresses with
    encode_offset().  Keys that are merely consecutive numbers (an enumerate() counter over the sorted table) agree with the
    offsets only while no offset is unused."""
    import ast as _ast
    try:
        f = idx.find_func("csr/bus:Multiplexer._Shadow.prepare")
    except Exception:
        rep.unk(rule, "csr/bus.py", "shadow chunks are keyed by their decoded offset", "_Shadow.prepare not found")
        return
    site = f.site
    what = "shadow chunks are keyed by their decoded offset"
    stores = []
    parents = {}
    for n in _ast.walk(f.node):
        for ch in _ast.iter_child_nodes(n):
            parents[ch] = n
    for n in _ast.walk(f.node):
        if isinstance(n, _ast.Assign) and len(n.targets) == 1 and isinstance(n.targets[0], _ast.Subscript) and \
                _ast.unparse(n.targets[0].value) == "self._chunks":
            stores.append(n)
        if isinstance(n, _ast.DictComp) and isinstance(parents.get(n), _ast.Assign) and \
                _ast.unparse(parents[n].targets[0]) == "self._chunks":
            stores.append(n)
    if not stores:
        rep.unk(rule, site, what, "no store into self._chunks found")
        return
    for st in stores:
        if isinstance(st, _ast.DictComp):
            key, gens = st.key, st.generators
            loop_target, loop_iter = gens[0].target, gens[0].iter
        else:
            key = st.targets[0].slice
            loop = parents.get(st)
            while loop is not None and not isinstance(loop, _ast.For):
                loop = parents.get(loop)
            if loop is None:
                rep.unk(rule, site, what, f"`{_ast.unparse(st)[:60]}` is not inside a loop")
                continue
            loop_target, loop_iter = loop.target, loop.iter
        it = loop_iter
        while isinstance(it, _ast.Call) and isinstance(it.func, _ast.Name) and it.func.id in ("sorted", "list", "tuple") and it.args:
            it = it.args[0]
        counted = isinstance(it, _ast.Call) and isinstance(it.func, _ast.Name) and it.func.id == "enumerate"
        if counted and isinstance(loop_target, _ast.Tuple) and isinstance(loop_target.elts[0], _ast.Name) and isinstance(key, _ast.Name) and \
                key.id == loop_target.elts[0].id:
            rep.bad(rule, site, what,
                    f"the chunks are filed under `{key.id}`, the position in `{_ast.unparse(loop_iter)[:50]}`, not under the offset "
                    "decode_address() computed: as soon as one shadow offset is unused (a register of 3, 5, 6, 7 chunks above a hole) the "
                    "numbers and the offsets part, encode_offset() of a chunk's key names another address, and that chunk is read and "
                    "written at the wrong place", line=getattr(st, 'lineno', None))
            continue
        items = isinstance(it, _ast.Call) and isinstance(it.func, _ast.Attribute) and it.func.attr == "items"
        ok = items and isinstance(loop_target, _ast.Tuple) and isinstance(loop_target.elts[0], _ast.Name) and isinstance(key, _ast.Name) and \
            key.id == loop_target.elts[0].id
        rep.form(bool(ok), rule, site, what, f"`{_ast.unparse(key)}` for `{_ast.unparse(loop_target)}` in `{_ast.unparse(loop_iter)[:60]}`")


def _lin_show(d):
    parts = []
    for k, v in d.items():
        parts.append((f"{v}*" if v != 1 else "") + (ir.show(k) if k is not None else "1"))
    return " + ".join(parts) or "0"


def align_up(rep, idx, rule):
    """MemoryMap._align_up(value, alignment): the result is a multiple of 2**alignment, equal to value when value already
    is one, and otherwise value plus an adjustment of the form P - value % P (so it is the *next* multiple).
    Decided by reduction modulo P = 2**alignment on the extracted expression."""
    from .common import get_fn
    c = get_fn(idx, "MemoryMap._align_up")
    site = c.fi.site
    rep.analysed(site)
    rets = [c.norm(v) for v, gen, ln in c.t.returns]
    P = c.parse("1 << alignment")
    M = c.norm(('bin', '-', P, ('const', 1)))
    if len(rets) != 1:
        rep.unk(rule, site, "_align_up result", f"{len(rets)} return statements")
        return
    r = rets[0]
    aligned_test = c.parse("value % (1 << alignment) != 0")
    if r[0] == 'phi':
        # the remainder of an integer used as a condition is its comparison with zero
        b_, neg_ = ir.split_neg(r[1])            # neg_ is the polarity: True when the remainder itself is the condition
        if b_ in (c.parse("value % (1 << alignment)"), c.parse("value & ((1 << alignment) - 1)")):
            r = ('phi', aligned_test if neg_ else c.norm(('un', 'not', aligned_test)), r[2], r[3])
    if r[0] == 'phi' and ir.split_neg(r[1])[0] == ir.split_neg(aligned_test)[0]:
        pol = ir.split_neg(r[1])[1] == ir.split_neg(aligned_test)[1]
        adj, keep = (r[2], r[3]) if pol else (r[3], r[2])
        rep.check(keep == ('name', 'value'), rule, site, "_align_up leaves an already aligned value unchanged",
                  f"returns {ir.show(keep)} when value % 2**alignment == 0")
        m = _modR(adj, P, M)
        if m is None:
            rep.unk(rule, site, "_align_up result is a multiple of 2**alignment", f"cannot reduce {ir.show(adj)[:100]}")
        else:
            rep.check(m == {}, rule, site, "_align_up result is a multiple of 2**alignment",
                      f"modulo 2**alignment the adjusted value reduces to {_lin_show(m)}, not 0")
        want = c.parse("value + ((1 << alignment) - value % (1 << alignment))")
        if adj == want:
            rep.ok(rule, site, "_align_up moves to the next multiple (adjustment = P - value % P, between 1 and P - 1)", ir.show(adj)[:100])
        elif adj == c.parse("value - value % (1 << alignment)"):
            rep.bad(rule, site, "_align_up moves to the next multiple", f"{ir.show(adj)[:100]} rounds *down*: the range would start before the "
                    "placement cursor / be smaller than requested")
        elif m == {}:
            rep.unk(rule, site, "_align_up moves to the next multiple", f"{ir.show(adj)[:100]} is a multiple but not of the verified form")
    else:
        alt = [c.parse("((value + (1 << alignment) - 1) // (1 << alignment)) * (1 << alignment)"),
               c.parse("(value + (1 << alignment) - 1) & ~((1 << alignment) - 1)"),
               c.parse("-(-value // (1 << alignment)) * (1 << alignment)")]
        down = [c.parse("value - value % (1 << alignment)"), c.parse("(value // (1 << alignment)) * (1 << alignment)"),
                c.parse("value & ~((1 << alignment) - 1)")]
        if r in down:
            rep.bad(rule, site, "_align_up moves to the next multiple", f"{ir.show(r)[:100]} rounds *down*: the range would start before the "
                    "placement cursor / be smaller than requested")
        elif r in alt:
            rep.ok(rule, site, "_align_up rounds up to a multiple of 2**alignment (closed form)", ir.show(r)[:100])
            rep.ok(rule, site, "_align_up leaves an already aligned value unchanged", "closed form", nontrivial=False)
            rep.ok(rule, site, "_align_up moves to the next multiple", "closed form", nontrivial=False)
        elif any(x[0] == 'bin' and x[1] == '/' for x in ir.walk(r)) or \
                any(x[0] == 'call' and ir.show(x[1]) in ("float", "math.ceil", "math.floor", "round", "ceil", "floor") and
                    any(y[0] == 'bin' and y[1] == '/' for y in ir.walk(x)) for x in ir.walk(r)):
            rep.bad(rule, site, "_align_up result", f"{ir.show(r)[:100]} goes through true division: addresses are arbitrary-precision "
                    "integers, a float quotient is exact only below 2**53, so in a wide map the rounded address can come out *below* the "
                    "value it was computed from")
        else:
            rep.unk(rule, site, "_align_up result", f"unrecognised shape {ir.show(r)[:120]}")


def chunk_width(rep, rule, idx, c, SH=None):
    """Every shadow chunk is exactly one bus word wide: Chunk.data = Signal(<shadow>.granularity), the shadow's
    granularity is its first constructor argument, and elaborate() creates both shadows with the bus data width.  A
    narrower chunk silently truncates register bits on their way through the shadow; a wider one shifts every later
    chunk of a multi-word register."""
    from .common import get_ctor
    site = c.fi.site
    try:
        ch = get_ctor(idx, "csr/bus:Multiplexer._Shadow.Chunk")
        sh = get_ctor(idx, "csr/bus:Multiplexer._Shadow")
    except Exception as e:                                  # role discovery failed
        rep.unk(rule, site, "shadow chunk width", f"constructors of _Shadow / Chunk not found: {e}")
        return
    st = ch.stores.get("self.data")
    shadow_param = ch.fi.params[1] if len(ch.fi.params) > 1 else None
    if st is None or shadow_param is None:
        rep.unk(rule, ch.fi.site, "chunk data register", "Chunk.__init__ does not create self.data")
        return
    v = ch.norm(st[0])
    gran_attr = None
    ok = v[0] == 'call' and v[1] == ('name', 'Signal') and v[2] and v[2][0][0] == 'attr' and v[2][0][1] == ('name', shadow_param)
    if ok:
        gran_attr = v[2][0][2]
    rep.form(ok, rule, ch.fi.site, "chunk data register is as wide as the shadow's granularity", f"created as {ir.show(v)[:100]}",
             wrong=None if ok or not (v[0] == 'call' and v[1] == ('name', 'Signal')) else
             ("the chunk register has no explicit width (one bit): all but bit 0 of every bus word is lost" if not v[2] else None))
    if not ok:
        return
    # the attribute read by Chunk is the shadow's first constructor argument
    src = sh.stores.get(f"self.{gran_attr}") or sh.stores.get(f"self._{gran_attr}")
    first = sh.fi.params[1] if len(sh.fi.params) > 1 else None
    rep.form(src is not None and sh.norm(src[0]) == ('name', first), rule, sh.fi.site,
             f"the shadow's {gran_attr} is its first constructor argument", f"self.{gran_attr} = {ir.show(src[0]) if src else None}")
    shadows = [o for o in c.t.objs.values() if o.ctor[0] == 'call' and ir.show(o.ctor[1]).endswith("_Shadow")]
    rep.form(len(shadows) == 2, rule, site, "elaborate() creates the read and the write shadow", f"{len(shadows)} shadow object(s)")
    if SH is not None and SH[0] == 'obj':
        shadows = [o for o in shadows if o.id == SH[1]]
    for o in shadows:
        a0 = c.norm(o.ctor[2][0]) if o.ctor[2] else dict(o.ctor[3]).get(first)
        a0 = c.norm(a0) if a0 is not None else None
        rep.check(a0 == c.parse("self.bus.data_width"), rule, site, f"{o.name}: chunk width == bus data width",
                  f"created with granularity {ir.show(a0) if a0 else None}; expected self.bus.data_width")


def _comb_only_local(idx, f, name):
    """The local signal `name` of elaborate() has drivers, and all of them are combinational."""
    try:
        from .common import get_ctx
        c = get_ctx(idx, f)
        for s_ in c.t.sigs.values():
            if s_.name == name:
                S = ('sig', s_.id, s_.name)
                ds = [d_ for d_ in c.t.drivers if any(x == S for x in ir.walk(c.norm(d_.target)))]
                if ds and not getattr(c.t, "unsupported", None):
                    return all(d_.domain == "comb" for d_ in ds)
    except Exception:
        pass
    # the walk did not get there: read it off the statements -- the name receives `.eq()` under m.d.comb and never under another domain
    import ast as _ast
    comb = other = 0
    for st in _ast.walk(f.node):
        if not (isinstance(st, _ast.AugAssign) and isinstance(st.op, _ast.Add)):
            continue
        # <module>.d.<domain> / <module>.d["<domain>"], whatever the Module is called
        t_ = st.target
        dom = None
        if isinstance(t_, _ast.Attribute) and isinstance(t_.value, _ast.Attribute) and t_.value.attr == "d":
            dom = t_.attr
        elif isinstance(t_, _ast.Subscript) and isinstance(t_.value, _ast.Attribute) and t_.value.attr == "d" and \
                isinstance(t_.slice, _ast.Constant):
            dom = t_.slice.value
        if dom is None:
            continue
        dom_comb = dom == "comb"
        for x in _ast.walk(st.value):
            if isinstance(x, _ast.Call) and isinstance(x.func, _ast.Attribute) and x.func.attr == "eq":
                r = x.func.value
                while isinstance(r, (_ast.Subscript, _ast.Attribute)):
                    r = r.value
                if isinstance(r, _ast.Name) and r.id == name:
                    if dom_comb:
                        comb += 1
                    else:
                        other += 1
    return comb > 0 and other == 0


def reset_discipline(rep, rule, idx, class_specs, allowed=(), allowed_init=(), allowed_role=None):
    """Every register a property's initial-state clause relies on takes part in the domain reset: no Signal(...) /
    Signal.like(...) created by the given classes passes reset_less (other than a literal False).  `allowed` lists
    (class qual, assigned name) pairs that are reset-less on purpose, with the reason given where the rule is called."""
    import ast as _ast
    allowed = set(allowed)
    allowed_init = dict(allowed_init)       # (class qual, name) -> accepted init expression (source text)
    for spec in class_specs:
        try:
            cls = idx.find_class(spec) if isinstance(spec, str) else spec
        except Exception:
            cls = None
        if cls is None:
            rep.unk(rule, "-", f"class {spec}", "not found")
            continue
        n_sig, bad = 0, []
        for f in [f_ for k_ in [cls] + [b for b in idx.bases_of(cls)] for fs in k_.methods.values() for f_ in fs]:
            if True:
                for st in _ast.walk(f.node):
                    calls = []
                    if isinstance(st, _ast.Assign) and isinstance(st.value, _ast.Call):
                        # a register is known by the name it is given (an explicit constant name= keeps the hardware name when the
                        # Python variable is renamed), else by the variable it is assigned to
                        nm_kw = next((k.value.value for k in st.value.keywords if k.arg == "name" and isinstance(k.value, _ast.Constant) and
                                      isinstance(k.value.value, str)), None)
                        calls = [(st.value, nm_kw or _ast.unparse(st.targets[0]).split(".")[-1])]
                    elif isinstance(st, _ast.Call):
                        calls = [(st, None)]
                    for call, name in calls:
                        fn = _ast.unparse(call.func)
                        if fn not in ("Signal", "Signal.like"):
                            continue
                        if name is not None:
                            n_sig += 1
                        for k in call.keywords:
                            if k.arg is None and name is not None:
                                rep.unk(rule, f.site, f"{name} = {fn}(**...)", "keyword arguments are not literal; reset_less cannot be read off")
                            if k.arg == "reset_less" and not (isinstance(k.value, _ast.Constant) and k.value.value is False):
                                key = (cls.qual, name)
                                if name is not None and allowed_role is not None and allowed_role(f, name):
                                    continue
                                if name is not None and key not in allowed:
                                    bad.append((f.site, name, _ast.unparse(k.value), call.lineno))
                            if k.arg in ("init", "reset") and name is not None and fn == "Signal":
                                txt = _ast.unparse(k.value)
                                if allowed_init.get((cls.qual, name)) == txt or (isinstance(k.value, _ast.Constant) and k.value.value in (0, False)):
                                    continue
                                if f.name == "elaborate" and _comb_only_local(idx, f, name):
                                    # a combinational wire: its `init` is the value it takes when no assignment is active, which the
                                    # decision lists of the property's main rule use as the default -- not a reset value
                                    continue
                                if isinstance(k.value, _ast.Constant):
                                    rep.bad(rule, f.site, f"register `{name}` starts at its documented initial value",
                                            f"created with {k.arg}={txt}: it comes out of reset as {txt}, not 0", line=call.lineno)
                                else:
                                    rep.unk(rule, f.site, f"register `{name}` starts at its documented initial value",
                                            f"created with {k.arg}={txt}, which is not in the table of deliberate initial values")
        seen = set()
        for site, name, val, ln in bad:
            if (site, name) in seen:
                continue
            seen.add((site, name))
            rep.bad(rule, site, f"register `{name}` takes part in the domain reset",
                    f"created with reset_less={val}: after a reset of the clock domain it keeps its old value instead of returning to its "
                    "initial value, so the component does not start from the documented initial state", line=ln)
        el = cls.method("elaborate")
        if el is not None:
            try:
                from .common import get_ctx
                like_registers(rep, rule, idx, get_ctx(idx, el), allowed=set(allowed_init))
            except Exception as e_:                        # the walk itself is judged by the property's main rule
                rep.note(f"like_registers({cls.qual}): {type(e_).__name__}: {e_}") if hasattr(rep, "note") else None
        if not bad:
            rep.ok(rule, cls.site, f"registers of {cls.qual} take part in the domain reset", f"{n_sig} Signal constructor(s), none reset-less"
                   + (f" beyond the {len([a for a in allowed if a[0] == cls.qual])} deliberate one(s)" if any(a[0] == cls.qual for a in allowed) else ""),
                   nontrivial=n_sig > 0)


def _member_inits(idx, member):
    """Every declaration of a signature member called `member` in the package's signature classes: [(class, call node, non-zero
    init keyword or None)].  A declaration is a Dict entry / subscript store whose value is a call (In(...), Out(...))."""
    import ast as _ast
    out = []
    for cls in idx.all_classes():
        if not any(b.split(".")[-1] == "Signature" for b in cls.bases):
            continue
        for n in _ast.walk(cls.node):
            vals = []
            if isinstance(n, _ast.Dict):
                vals = [v for k, v in zip(n.keys, n.values) if isinstance(k, _ast.Constant) and k.value == member and isinstance(v, _ast.Call)]
            elif isinstance(n, _ast.Assign) and len(n.targets) == 1 and isinstance(n.targets[0], _ast.Subscript) and \
                    isinstance(n.targets[0].slice, _ast.Constant) and n.targets[0].slice.value == member and isinstance(n.value, _ast.Call):
                vals = [n.value]
            for v in vals:
                bad = [k for k in v.keywords if k.arg in ("init", "reset") and not (isinstance(k.value, _ast.Constant) and k.value.value in (0, False))]
                out.append((cls, v, bad[0] if bad else None))
    return out


def like_registers(rep, rule, idx, c, allowed=()):
    """`Signal.like(T)` copies T's initial value.  A *register* (driven in a clocked domain) created that way starts where T
    starts: T must be a signature member that no signature class declares with a non-zero init, or a signal this elaborate()
    creates without one.  The same holds for a wire that is only driven under conditions: whenever no assignment is active it
    shows its initial value.  (A wire with an unconditional combinational driver never does.)"""
    import ast as _ast
    site = c.fi.site
    n = 0
    for s in c.t.sigs.values():
        if s.ctor[0] != 'call' or s.ctor[1] != ('attr', ('name', 'Signal'), 'like') or not s.ctor[2]:
            continue
        S = ('sig', s.id, s.name)
        whole = c.drivers_of(S)
        doms = {dd.domain for dd in whole} | {dom for dom, t, ds in c.targets_matching(lambda t: t[0] == 'sub' and t[1] == S)}
        if not (doms - {"comb"}) and any(not dd.dsl for dd in whole):
            continue                                        # a wire with an unconditional combinational driver never shows its initial value
        if s.kw('init') is not None or s.kw('reset') is not None or (c.fi.cls is not None and (c.fi.cls.qual, s.name) in allowed):
            continue                                        # an explicit initial value overrides the copy (judged by reset_discipline)
        n += 1
        what = f"`{s.name}` = Signal.like(...) starts at / defaults to 0"
        tmpl = c.norm(s.ctor[2][0])
        if tmpl[0] == 'sig':
            t_ = c.t.sigs.get(tmpl[1])
            iv = (t_.kw('init') or t_.kw('reset')) if t_ is not None else None
            if t_ is not None and t_.ctor[1] == ('name', 'Signal') and (iv is None or iv in (('const', 0), ('const', False))):
                rep.ok(rule, site, what, f"modelled on the local signal `{t_.name}`, created without an initial value", nontrivial=False)
            else:
                rep.unk(rule, site, what, f"modelled on `{ir.show(tmpl)}`, whose initial value is not 0 or not known")
            continue
        if tmpl[0] == 'attr':
            decls = _member_inits(idx, tmpl[2])
            if decls:
                badd = [(k_, v, b) for k_, v, b in decls if b is not None]
                if badd:
                    k_, v, b = badd[0]
                    rep.bad(rule, k_.site, what, f"modelled on `{ir.show(tmpl)}`; {k_.qual} declares member `{tmpl[2]}` as {_ast.unparse(v)[:80]}: "
                            f"Signal.like copies that initial value into the register `{s.name}` of {c.fi.qual}", line=v.lineno)
                else:
                    rep.ok(rule, site, what, f"modelled on member `{tmpl[2]}`, declared without an initial value in {len(decls)} signature class(es)",
                           nontrivial=False)
                continue
        if tmpl[0] == 'attr' and tmpl[1] == ('name', 'self') and c.fi.cls is not None:
            # a signal the component itself created in its constructor
            made = None
            for k_ in [c.fi.cls] + idx.bases_of(c.fi.cls):
                i_ = k_.method("__init__")
                if i_ is None:
                    continue
                for st in _ast.walk(i_.node):
                    if isinstance(st, _ast.Assign) and any(isinstance(t, _ast.Attribute) and t.attr == tmpl[2] and isinstance(t.value, _ast.Name) and
                                                          t.value.id == "self" for t in st.targets) and isinstance(st.value, _ast.Call):
                        made = st.value
            if made is not None and _ast.unparse(made.func) == "Signal":
                iv = [k for k in made.keywords if k.arg in ("init", "reset")]
                if not iv or (isinstance(iv[0].value, _ast.Constant) and iv[0].value.value in (0, False)):
                    rep.ok(rule, site, what, f"modelled on self.{tmpl[2]}, created without an initial value", nontrivial=False)
                elif isinstance(iv[0].value, _ast.Constant):
                    rep.bad(rule, site, what, f"modelled on self.{tmpl[2]}, created with {iv[0].arg}={_ast.unparse(iv[0].value)}: Signal.like copies it")
                else:
                    rep.unk(rule, site, what, f"modelled on self.{tmpl[2]}, created with {iv[0].arg}={_ast.unparse(iv[0].value)}: `{s.name}` starts at / "
                            "defaults to that value, not 0; whether that is intended is not decided")
                continue
            # a port of the component: declared in the members it hands to super().__init__
            decl = []
            for k_ in [c.fi.cls] + idx.bases_of(c.fi.cls):
                for n_ in _ast.walk(k_.node):
                    if isinstance(n_, _ast.Dict):
                        decl += [v for kk, v in zip(n_.keys, n_.values) if isinstance(kk, _ast.Constant) and kk.value == tmpl[2] and isinstance(v, _ast.Call)]
            if decl:
                badk = [k for v in decl for k in v.keywords if k.arg in ("init", "reset") and not (isinstance(k.value, _ast.Constant) and k.value.value in (0, False))]
                if badk:
                    rep.bad(rule, site, what, f"modelled on the port self.{tmpl[2]}, declared with {badk[0].arg}={_ast.unparse(badk[0].value)}: Signal.like copies it")
                else:
                    rep.ok(rule, site, what, f"modelled on the port self.{tmpl[2]}, declared without an initial value", nontrivial=False)
                continue
            rep.unk(rule, site, what, f"modelled on self.{tmpl[2]}, whose creation was not found")
            continue
        # the template's initial value cannot be read off: a table-built member without any init= in the package is still fine
        any_init = False
        for cls in idx.all_classes():
            if any(b.split(".")[-1] == "Signature" for b in cls.bases):
                for x in _ast.walk(cls.node):
                    if isinstance(x, _ast.Call) and any(k.arg in ("init", "reset") or k.arg is None for k in x.keywords) and \
                            _ast.unparse(x.func).split(".")[-1] in ("In", "Out", "flow"):
                        any_init = True
        if tmpl[0] == 'attr' and not any_init:
            rep.ok(rule, site, what, f"modelled on `{ir.show(tmpl)}`; no signature class of the package declares a member with an initial value",
                   nontrivial=False)
        else:
            rep.unk(rule, site, what, f"modelled on `{ir.show(tmpl)[:60]}`, whose initial value cannot be read off")
    return n


def map_parameters(rep, rule, idx, class_spec, expect):
    """The decoder's constructor hands its placement parameters to the memory map it creates: MemoryMap(<kw>=<param>, ...) for every
    (kw, parameter expression) of `expect`.  A parameter that is accepted and then not passed on is silently ignored."""
    from .common import get_ctor, kwarg
    ctor = get_ctor(idx, class_spec)
    site = ctor.fi.site
    mm = ctor.stored("self.bus.memory_map")
    if mm is None or mm[0] != 'call' or not ir.show(mm[1]).endswith("MemoryMap"):
        rep.unk(rule, site, "the constructor creates the decoder's memory map", f"self.bus.memory_map = {ir.show(mm)[:80] if mm else None}")
        return
    for kw, text in expect:
        got = kwarg(mm, kw)
        want = ctor.parse(text)
        if kw not in ctor.fi.params and text == kw:
            continue                                        # the parameter does not exist (any more): nothing to hand on
        rep.form(got == want, rule, site, f"MemoryMap({kw}=...) receives the constructor's `{text}`",
                 f"{kw}={ir.show(got) if got is not None else '<not passed: the map default is used>'}",
                 wrong=(f"the constructor accepts `{kw}` and does not pass it on: the map is built with its default, so the parameter is ignored")
                 if got is None else None)


def late_sized_signals(rep, rule, idx, class_spec, collections):
    """A signal whose shape depends on how many items were add()-ed (`Signal(range(len(self._intrs)))`) is created where that number
    is final for the hardware being built -- in elaborate().  Created anywhere else (a lazily evaluated property, the constructor, a
    cache) its width is fixed by the items present at that moment, and items added later do not fit."""
    import ast as _ast
    cls = idx.find_class(class_spec)
    if cls is None:
        rep.unk(rule, "-", f"class {class_spec}", "not found")
        return
    # methods that run as part of elaborate(): elaborate itself and private helpers that receive the module
    el = {"elaborate"}
    for name, fs in cls.methods.items():
        for f in fs:
            if name.startswith("_") and not name.startswith("__") and len(f.params) > 1 and f.params[1] in ("m", "module"):
                el.add(name)
    n = 0
    for name, fs in cls.methods.items():
        for f in fs:
            for x in _ast.walk(f.node):
                if isinstance(x, _ast.Call) and _ast.unparse(x.func) in ("Signal", "Signal.like"):
                    txt = _ast.unparse(x)
                    dep = [c_ for c_ in collections if f"len(self.{c_})" in txt]
                    if not dep:
                        continue
                    n += 1
                    what = f"`{txt[:70]}` is sized when the hardware is built"
                    if name in el:
                        rep.ok(rule, f.site, what, "created in elaborate()", nontrivial=False)
                    else:
                        rep.bad(rule, f.site, what, f"created in {f.qual}(), not in elaborate(): its width is fixed by the {dep[0].lstrip('_')} present at the "
                                "first call; items add()-ed afterwards get indices the signal cannot hold (they are never granted / selected)",
                                line=x.lineno)
    return n


MUTATING_METHODS = {"pop", "append", "add", "insert", "remove", "update", "extend", "clear", "setdefault", "popitem", "discard", "sort",
                    "reverse", "freeze", "assign", "send", "close", "__setitem__", "__delitem__", "popleft", "appendleft"}


def pure_asserts(rep, rule, idx, module_suffixes, classes=None):
    """Assumption A1 reads `assert` statements as internal invariants that may be ignored -- and `python -O` really removes them.
    That is only sound when an assert does nothing but look: a test that pops, appends, freezes, assigns (walrus) or calls a package
    function with effects performs a state change that disappears together with the assert."""
    import ast as _ast
    from ..core.effects import get_effects
    try:
        ef = get_effects(idx)
    except Exception:
        ef = None
    n_asserts = 0
    for f in idx.all_functions():
        if not any(f.module.rel.endswith(sfx) for sfx in module_suffixes):
            continue
        if classes is not None and (f.cls is None or f.cls.name not in classes):
            continue
        for st in _ast.walk(f.node):
            if not isinstance(st, _ast.Assert):
                continue
            n_asserts += 1
            bad = None
            for x in _ast.walk(st.test):
                if isinstance(x, _ast.NamedExpr):
                    bad = f"binds `{x.target.id}` (walrus)"
                if isinstance(x, _ast.Call) and isinstance(x.func, _ast.Attribute) and x.func.attr in MUTATING_METHODS:
                    bad = f"calls `{_ast.unparse(x.func)}()`, which changes `{_ast.unparse(x.func.value)}`"
                if bad is None and isinstance(x, _ast.Call) and isinstance(x.func, _ast.Attribute) and isinstance(x.func.value, _ast.Name) and \
                        x.func.value.id == "self" and f.cls is not None and ef is not None:
                    h = idx.lookup_method(f.cls, x.func.attr)
                    if h is not None:
                        try:
                            w = {loc[2][0] for loc in ef.summary(h).writes if loc[0] == 'self' and loc[2]}
                        except Exception:
                            w = None
                        if w:
                            # a private memo of the callee -- an attribute nothing but the callee itself ever reads -- is not a state
                            # change anybody else can observe: without the assert it is merely filled by the next real call
                            readers = {g.name for fs_ in f.cls.methods.values() for g in fs_ for y in _ast.walk(g.node)
                                       if isinstance(y, _ast.Attribute) and isinstance(y.value, _ast.Name) and y.value.id == "self" and
                                       y.attr in w and isinstance(y.ctx, _ast.Load)}
                            if readers <= {h.name}:
                                w = set()
                        if w:
                            bad = f"calls `self.{x.func.attr}()`, which writes {sorted(w)[:3]}"
            what = f"`{_ast.unparse(st)[:70]}` only looks (asserts vanish under python -O)"
            if bad:
                rep.bad(rule, f.site, what, f"the assert {bad}: with assertions disabled (python -O / PYTHONOPTIMIZE) the statement is removed and "
                        "the state change with it", line=st.lineno)
            else:
                rep.ok(rule, f.site, what, "no mutating call, no binding", nontrivial=False)
    return n_asserts


def iterable_handover(rep, rule, idx, ctor_spec, param, sink_call, sink_kw):
    """A constructor parameter documented as an *iterable* reaches `sink_call(..., sink_kw=param)` untouched: it is not
    traversed before (a one-shot iterable would arrive exhausted) and it is the parameter itself (or a materialised
    copy bound to the same name) that is handed over."""
    import ast as _ast
    fi = idx.find_func(ctor_spec)
    site = fi.site
    CONSUMERS = {"tuple", "list", "set", "frozenset", "dict", "sorted", "sum", "any", "all", "max", "min", "enumerate", "zip", "iter",
                 "next", "map", "filter", "reversed", "len"}
    sinks = [n for n in _ast.walk(fi.node) if isinstance(n, _ast.Call) and _ast.unparse(n.func).split(".")[-1] == sink_call]
    if len(sinks) != 1:
        rep.unk(rule, site, f"{sink_call}({sink_kw}=...)", f"found {len(sinks)} calls of {sink_call}")
        return
    sink = sinks[0]
    arg = next((k.value for k in sink.keywords if k.arg == sink_kw), None)
    what = f"`{param}` reaches {sink_call}({sink_kw}=...) as given"
    if arg is None:
        rep.bad(rule, site, what, f"{sink_call} is called without {sink_kw}: the initial contents are dropped", line=sink.lineno)
        return
    if not (isinstance(arg, _ast.Name) and arg.id == param):
        rep.form(False, rule, site, what, f"{sink_kw}={_ast.unparse(arg)[:60]}")
        return
    # uses of the parameter before the hand-over
    par = {}
    for n in _ast.walk(fi.node):
        for ch in _ast.iter_child_nodes(n):
            par[ch] = n
    materialised = False
    for n in _ast.walk(fi.node):
        if not (isinstance(n, _ast.Name) and n.id == param and isinstance(n.ctx, _ast.Load)) or n is arg:
            continue
        if n.lineno > sink.lineno:
            continue
        p = par.get(n)
        # init = tuple(init) / list(init): a materialised copy under the same name -- later traversals are harmless
        if isinstance(p, _ast.Call) and isinstance(p.func, _ast.Name) and p.func.id in ("tuple", "list") and p.args == [n]:
            pp = par.get(p)
            if isinstance(pp, _ast.Assign) and len(pp.targets) == 1 and isinstance(pp.targets[0], _ast.Name) and pp.targets[0].id == param:
                materialised = True
                continue
        if materialised:
            continue
        consuming = False
        q = n
        while q in par and not isinstance(par[q], _ast.stmt):
            q = par[q]
            if isinstance(q, _ast.Call) and isinstance(q.func, _ast.Name) and q.func.id in CONSUMERS and \
                    not (q.func.id == "len" and n in q.args):
                consuming = True
            if isinstance(q, (_ast.GeneratorExp, _ast.ListComp, _ast.SetComp, _ast.DictComp)) and any(g.iter is n for g in q.generators):
                consuming = True
            if isinstance(q, _ast.Starred):
                consuming = True
        st = par.get(q)
        if isinstance(st, _ast.For) and st.iter is q:
            consuming = True
        if consuming:
            rep.bad(rule, site, what, f"`{param}` is traversed at line {n.lineno} ({_ast.unparse(par[n])[:50]}) before it is handed to {sink_call}: "
                    f"`{param}` is documented as an iterable, and a one-shot iterable (a generator) arrives exhausted -- the memory starts all zero",
                    line=n.lineno)
            return
        if isinstance(p, _ast.Compare) or (isinstance(p, _ast.Call) and isinstance(p.func, _ast.Name) and p.func.id in ("isinstance", "len")):
            continue
        rep.unk(rule, site, what, f"`{param}` is used at line {n.lineno} ({_ast.unparse(p)[:50]}) before the hand-over; whether that traverses it is not decided")
        return
    rep.ok(rule, site, what, f"{sink_call}({sink_kw}={param}) at line {sink.lineno}, no earlier traversal")


def argument_agreement(rep, rule, idx, scope=None):
    """Calls of repository functions / constructors whose callee is resolved: an argument that is a plain name equal to
    the name of one of the callee's *other* parameters, while that parameter's own slot receives the name of this slot
    (a swap), or a keyword `p=q` where q names another parameter of the callee whose own keyword gets `p`.  Name/position
    agreement is the rule nearly every call in this package follows (`Signature(addr_width=addr_width, ...)`)."""
    import ast as _ast
    from ..core.effects import get_effects
    ef = get_effects(idx)
    n_calls = n_named = 0
    for f in idx.all_functions():
        if scope is not None and not (f.cls is not None and (f.cls.qual in scope or f.cls.name in scope)):
            continue
        types = ef.guard_types(f)
        for call in _ast.walk(f.node):
            if not isinstance(call, _ast.Call):
                continue
            kind = ef.resolve_call(call, f, types)
            callee = kind[2] if kind[0] == 'class' else (kind[1] if kind[0] == 'func' else None)
            if callee is None or isinstance(callee, str):
                continue
            a = callee.node.args
            params = [x.arg for x in a.args]
            if params and params[0] in ("self", "cls") and not callee.is_static:
                params = params[1:]
            kwonly = [x.arg for x in a.kwonlyargs]
            n_calls += 1
            slot = {}                                   # parameter -> argument name (plain names only)
            for p_, arg in zip(params, call.args):
                if isinstance(arg, _ast.Name):
                    slot[p_] = arg.id
                elif isinstance(arg, _ast.Attribute) and isinstance(arg.value, _ast.Name) and arg.value.id == "self":
                    slot[p_] = arg.attr.lstrip("_")
            for k in call.keywords:
                if k.arg is not None and (k.arg in params or k.arg in kwonly):
                    if isinstance(k.value, _ast.Name):
                        slot[k.arg] = k.value.id
                    elif isinstance(k.value, _ast.Attribute) and isinstance(k.value.value, _ast.Name) and k.value.value.id == "self":
                        slot[k.arg] = k.value.attr.lstrip("_")
            allp = set(params) | set(kwonly)
            for p_, an in slot.items():
                if an != p_ and an in allp:
                    n_named += 1
                    if slot.get(an) == p_:
                        rep.bad(rule, f.site, f"{_ast.unparse(call)[:70]}",
                                f"arguments `{an}` and `{p_}` are swapped: parameter `{p_}` of {callee.qual} receives `{an}` and parameter `{an}` "
                                f"receives `{p_}`", line=call.lineno)
    rep.ok(rule, "-", "no resolved call passes two like-named arguments in each other's slot", f"{n_calls} resolved call(s) examined",
           nontrivial=n_calls > 0)


def forwarded_parameters(rep, rule, idx, classes):
    """A component that creates its bus port as `Signature(p=p, ...)` hands each like-named constructor parameter to the signature
    as given: the signature validates it and resolves its defaults (`granularity=None` means data_width).  A parameter that is
    replaced on the way -- `if granularity is None: granularity = 8` -- gives the port another geometry than the one the
    parameters describe, for every caller relying on the default."""
    import ast as _ast
    from .common import get_ctor
    n = 0
    for spec in classes:
        try:
            cls = idx.find_class(spec)
            ct = get_ctor(idx, cls)
        except Exception:
            continue
        init = cls.method("__init__")
        params = [p_ for p_ in init.params if p_ != "self"]
        seen = set()
        for call_ir, gen, dslf, ln in ct.t.calls:
            root = call_ir
            if root[0] in ('assigned', 'store'):
                root = root[-1]
            for x in ir.walk(ct.norm(root)):
                if x[0] != 'call' or not ((x[1][0] == 'name' and x[1][1] == 'Signature') or (x[1][0] == 'attr' and x[1][2] == 'Signature')):
                    continue
                callee = None
                try:
                    callee = idx.resolve_class(x[1], cls.module, cls.outer)
                except Exception:
                    callee = None
                for k, v in x[3]:
                    if k not in params or (k, ln) in seen:
                        continue
                    seen.add((k, ln))
                    n += 1
                    what = f"{cls.qual}: parameter `{k}` reaches {ir.show(x[1])}({k}=...) as given"
                    if v == ('name', k):
                        rep.ok(rule, init.site, what, "passed through")
                        continue
                    # Enum(p): the conversion the signature applies itself, and it is idempotent (Enum(member) is the member)
                    if v[0] == 'call' and len(v[2]) == 1 and not v[3] and v[2][0] == ('name', k) and \
                            (ir.show(v[1]).split(".")[-1] in idx.enums or ir.show(v[1]) in idx.enums):
                        rep.ok(rule, init.site, what, f"converted with {ir.show(v[1])}(...) on the way, which the signature does as well (idempotent)",
                               nontrivial=False)
                        continue
                    none_test = ct.norm(ct.parse(f"{k} is None"))
                    if v[0] == 'phi' and ir.split_neg(v[1])[0] == ir.split_neg(none_test)[0]:
                        pol = ir.split_neg(v[1])[1] == ir.split_neg(none_test)[1]
                        none_arm, keep = (v[2], v[3]) if pol else (v[3], v[2])
                        if keep == ('name', k):
                            # the callee's own resolution of None, in terms of this call's arguments
                            dflt = None
                            ci = callee.method("__init__") if callee is not None else None
                            if ci is not None:
                                for st in _ast.walk(ci.node):
                                    if isinstance(st, _ast.If) and _ast.unparse(st.test) == f"{k} is None" and len(st.body) == 1 and \
                                            isinstance(st.body[0], _ast.Assign) and _ast.unparse(st.body[0].targets[0]) == k:
                                        kw = dict(x[3])
                                        dflt = ct.norm(ir.subst(ir.from_ast(st.body[0].value, {}),
                                                                lambda y: kw.get(y[1]) if y[0] == 'name' and y[1] in kw else None))
                            if dflt is not None and ct.norm(none_arm) == dflt:
                                rep.ok(rule, init.site, what, f"None is resolved to {ir.show(dflt)[:60]}, as the signature itself does")
                            elif dflt is not None:
                                rep.bad(rule, init.site, what,
                                        f"when `{k}` is left at None the constructor substitutes {ir.show(none_arm)[:60]} before creating the port, "
                                        f"while {ir.show(x[1])} resolves None to {ir.show(dflt)[:60]}: every component built without an explicit "
                                        f"`{k}` gets a port of another geometry than its parameters describe", line=ln)
                            elif ci is not None:
                                # the signature has no default of its own for this parameter: the default is the component's (its own
                                # documentation and rules speak for it)
                                rep.ok(rule, init.site, what, f"the component's own default {ir.show(none_arm)[:60]} stands in for None; "
                                       f"{ir.show(x[1])} has none", nontrivial=False)
                            else:
                                rep.unk(rule, init.site, what, f"None is replaced by {ir.show(none_arm)[:60]} before the signature sees it; the "
                                        "signature's own default was not read off")
                            continue
                    rep.unk(rule, init.site, what, f"the signature receives {ir.show(v)[:80]}")
    rep.count("forwarded_parameters", n)


def single_pass_iterables(rep, rule, idx):
    """A parameter that is documented / used as an *iterable* may be a one-shot iterator (a generator, iter(...), map(...)).
    A function that traverses such a parameter twice -- a validation loop, then the comprehension that stores it -- sees nothing
    the second time: the values pass validation and are then silently lost.  Every parameter that is traversed (for loop,
    comprehension clause, argument of list / set / frozenset / sorted / ... or a star argument) is traversed at most once on
    any path, unless it was first materialised (rebound to a collection built from it) or the function refuses everything but
    re-iterable collections (isinstance test against list / tuple / dict / set / frozenset / Mapping / Sequence ...).  Star
    parameters (*args) are tuples."""
    import ast as _ast
    CONSUMERS = ('list', 'tuple', 'set', 'frozenset', 'sorted', 'dict', 'sum', 'any', 'all', 'max', 'min', 'enumerate', 'zip', 'map',
                 'filter', 'reversed', 'iter', 'next')
    REITERABLE = ('list', 'tuple', 'dict', 'set', 'frozenset', 'Mapping', 'Sequence', 'str', 'range', 'MutableMapping', 'MutableSequence',
                  'Set', 'Collection', 'OrderedDict')
    n_params = n_multi = 0
    for f in idx.all_functions():
        a = f.node.args
        params = [x.arg for x in a.posonlyargs + a.args + a.kwonlyargs if x.arg not in ("self", "cls")]
        if not params:
            continue
        parents = {}
        for n in _ast.walk(f.node):
            for ch in _ast.iter_child_nodes(n):
                parents[ch] = n
        for p in params:
            uses = []
            for n in _ast.walk(f.node):
                if isinstance(n, (_ast.For, _ast.comprehension)) and isinstance(n.iter, _ast.Name) and n.iter.id == p:
                    uses.append(n.iter)
                elif isinstance(n, _ast.Call) and isinstance(n.func, _ast.Name) and n.func.id in CONSUMERS:
                    uses.extend(x for x in n.args if isinstance(x, _ast.Name) and x.id == p)
                elif isinstance(n, _ast.Starred) and isinstance(n.value, _ast.Name) and n.value.id == p and isinstance(n.ctx, _ast.Load):
                    uses.append(n.value)
                elif isinstance(n, _ast.YieldFrom) and isinstance(n.value, _ast.Name) and n.value.id == p:
                    uses.append(n.value)
            if not uses:
                continue
            n_params += 1
            if len(uses) < 2:
                continue
            # rebound before the second traversal (p = frozenset(p) ...): the traversals after the rebinding see a collection
            rebinds = [n for n in _ast.walk(f.node) if isinstance(n, _ast.Name) and n.id == p and isinstance(n.ctx, _ast.Store)]
            uses.sort(key=lambda u: (u.lineno, u.col_offset))
            first_rebind = min((r.lineno for r in rebinds), default=None)
            raw = [u for u in uses if first_rebind is None or u.lineno <= first_rebind]
            if len(raw) < 2:
                continue
            # refused unless a re-iterable collection
            typed = False
            for n in _ast.walk(f.node):
                if isinstance(n, _ast.Call) and isinstance(n.func, _ast.Name) and n.func.id == "isinstance" and len(n.args) == 2 and \
                        isinstance(n.args[0], _ast.Name) and n.args[0].id == p:
                    names = [x.attr if isinstance(x, _ast.Attribute) else getattr(x, 'id', None)
                             for x in (n.args[1].elts if isinstance(n.args[1], _ast.Tuple) else [n.args[1]])]
                    if names and all(nm in REITERABLE for nm in names):
                        typed = True
            if typed:
                continue

            def arms_of(node):
                """(If node, arm) pairs enclosing the node."""
                out = []
                ch, par = node, parents.get(node)
                while par is not None:
                    if isinstance(par, _ast.If):
                        out.append((par, 'body' if ch in par.body else ('orelse' if ch in par.orelse else 'test')))
                    ch, par = par, parents.get(par)
                return out
            pairs = []
            for i_, u in enumerate(raw):
                for v in raw[i_ + 1:]:
                    au, av = dict((id(k), a_) for k, a_ in arms_of(u)), dict((id(k), a_) for k, a_ in arms_of(v))
                    exclusive = any(k in av and {au[k], av[k]} == {'body', 'orelse'} for k in au)
                    if not exclusive:
                        pairs.append((u, v))
            if not pairs:
                continue
            n_multi += 1
            u, v = pairs[0]
            rep.bad(rule, f.site, f"parameter `{p}` is traversed once",
                    f"`{p}` is traversed at line {u.lineno} and again at line {v.lineno} without being turned into a collection first: a one-shot "
                    f"iterable (a generator, iter(...), map(...)) is exhausted by the first pass, so the second sees nothing -- the values are "
                    "validated and then silently dropped", line=v.lineno)
    rep.ok(rule, "-", "no iterable parameter is traversed twice on one path", f"{n_params} traversed parameter(s) examined, {n_multi} traversed twice",
           nontrivial=n_params > 0)
    rep.count("traversed_parameters", n_params)


def view_safe_operations(rep, rule, idx, module="csr/action.py"):
    """A component whose constructor takes a *shape-like* `shape` and creates its signals from it -- `Signal(shape)`, members
    `In(shape)` / `Out(shape)`, a port `FieldPort.Signature(shape, access)` -- gets *views* for enumeration and data-layout
    shapes (amaranth.lib.enum / data): objects that can be assigned, compared and converted (`.eq`, `==`, `Value.cast`,
    `.as_value()`, argument of `Cat` / `Mux`), but not iterated, indexed, measured with len() or combined arithmetically.  Every
    other use of such a signal in the class is an internal TypeError at elaboration for a shape the constructor accepted."""
    import ast as _ast
    n_cls = n_use = 0
    for cls in idx.all_classes():
        if cls.module.rel != module:
            continue
        init = cls.method("__init__")
        if init is None or "shape" not in init.params:
            continue
        shaped = set()              # unparsed expressions denoting shape-typed signals
        for x in _ast.walk(init.node):
            if isinstance(x, _ast.Assign) and len(x.targets) == 1 and isinstance(x.targets[0], _ast.Attribute) and \
                    isinstance(x.value, _ast.Call) and _ast.unparse(x.value.func) in ("Signal",) and x.value.args and \
                    isinstance(x.value.args[0], _ast.Name) and x.value.args[0].id == "shape":
                shaped.add(_ast.unparse(x.targets[0]))
            if isinstance(x, _ast.Dict):
                for k, v in zip(x.keys, x.values):
                    if isinstance(k, _ast.Constant) and isinstance(v, _ast.Call) and _ast.unparse(v.func) in ("In", "Out") and v.args and \
                            isinstance(v.args[0], _ast.Name) and v.args[0].id == "shape":
                        shaped.add(f"self.{k.value}")
        # the field port: r_data / w_data have the field's shape
        shaped |= {"self.port.r_data", "self.port.w_data"}
        if not shaped:
            continue
        n_cls += 1
        for m_ in [f for fs in cls.methods.values() for f in fs]:
            if m_.name == "__init__":
                continue
            parents = {}
            for x in _ast.walk(m_.node):
                for ch in _ast.iter_child_nodes(x):
                    parents[ch] = x
            # local aliases bound to a conversion are values; local aliases bound to the raw signal are views too
            raw = set(shaped)
            via_helper = {}
            for x in _ast.walk(m_.node):
                if isinstance(x, _ast.Assign) and len(x.targets) == 1 and isinstance(x.targets[0], _ast.Name) and _ast.unparse(x.value) in shaped:
                    raw.add(x.targets[0].id)
                # x = helper(view): when the helper can hand its argument back unconverted (`return s.as_value() if isinstance(s, data.View)
                # else s` unwraps layouts but not enumerations), x may still be the view
                if isinstance(x, _ast.Assign) and len(x.targets) == 1 and isinstance(x.targets[0], _ast.Name) and isinstance(x.value, _ast.Call) and \
                        len(x.value.args) == 1 and _ast.unparse(x.value.args[0]) in shaped and _ast.unparse(x.value.func) not in ("Value.cast",):
                    h = None
                    fn_ = x.value.func
                    if isinstance(fn_, _ast.Name):
                        h = idx.resolve_function(cls.module, fn_.id)
                    elif isinstance(fn_, _ast.Attribute) and isinstance(fn_.value, _ast.Name) and fn_.value.id in ("self", "cls"):
                        h = idx.lookup_method(cls, fn_.attr)
                    if h is not None:
                        hp = [p_ for p_ in h.params if p_ not in ("self", "cls")]
                        passes_through = any(isinstance(r_, _ast.Return) and r_.value is not None and any(
                            isinstance(y, _ast.Name) and hp and y.id == hp[0] and isinstance(pp, (_ast.Return, _ast.IfExp))
                            for pp in [r_] + [z for z in _ast.walk(r_.value) if isinstance(z, _ast.IfExp)]
                            for y in ([pp.value] if isinstance(pp, _ast.Return) else [pp.body, pp.orelse]))
                            for r_ in _ast.walk(h.node))
                        if passes_through:
                            raw.add(x.targets[0].id)
                            via_helper[x.targets[0].id] = h.qual
            for x in _ast.walk(m_.node):
                if not isinstance(x, (_ast.Attribute, _ast.Name)) or _ast.unparse(x) not in raw or not isinstance(getattr(x, 'ctx', None), _ast.Load):
                    continue
                par = parents.get(x)
                if isinstance(par, _ast.Attribute) and par.value is x and _ast.unparse(par) in raw:
                    continue                            # self.port inside self.port.w_data
                n_use += 1
                bad = None
                if isinstance(par, _ast.Subscript) and par.value is x:
                    bad = f"`{_ast.unparse(par)[:50]}` indexes it"
                elif isinstance(par, (_ast.For, _ast.comprehension)) and par.iter is x:
                    bad = "it is iterated"
                elif isinstance(par, _ast.Call) and x in par.args and isinstance(par.func, _ast.Name) and \
                        par.func.id in ("enumerate", "len", "reversed", "zip", "iter", "list", "tuple", "sum", "any", "all"):
                    bad = f"`{par.func.id}(...)` iterates / measures it"
                elif isinstance(par, _ast.Attribute) and par.value is x and par.attr not in ("eq", "as_value", "shape", "name", "src_loc") and \
                        isinstance(parents.get(par), _ast.Call) and parents.get(par).func is par:
                    bad = f"`.{par.attr}()` is a Value method"
                elif isinstance(par, (_ast.BinOp, _ast.UnaryOp)):
                    bad = "it is an operand of an arithmetic / bitwise operator"
                if bad and _ast.unparse(x) in via_helper:
                    bad += f" -- `{_ast.unparse(x)}` comes from {via_helper[_ast.unparse(x)]}(...), which hands some arguments back unconverted"
                if bad:
                    rep.bad(rule, m_.site, f"`{_ast.unparse(x)}` is used as a view (its shape is the shape-like `shape` parameter)",
                            f"{bad}: for an enumeration or data-layout shape -- which the constructor accepts, and for which R / W / RW work -- the "
                            "signal is a view, and this fails with an internal TypeError ('EnumView' object is not iterable / not "
                            "subscriptable) when the field is elaborated; go through Value.cast() / .as_value()", line=x.lineno)
    rep.ok(rule, "-", "signals of shape-like shape are only assigned, compared or converted", f"{n_cls} class(es), {n_use} use(s) examined",
           nontrivial=n_cls > 0)
    rep.count("view_uses", n_use)


def write_once_handles(rep, rule, idx, cls_spec):
    """Objects the constructor creates and the hardware is built from (memory, memory data, ports, sub-components) are bound
    to their attribute once: no other method rebinds `self.<attr>`.  A setter that replaces the object instead of updating
    it leaves the elaborated hardware attached to the old one."""
    import ast as _ast
    cls = idx.find_class(cls_spec)
    init = cls.method("__init__")
    if init is None:
        rep.unk(rule, cls.site, "constructor-owned objects", "no constructor")
        return
    owned = {}
    for st in _ast.walk(init.node):
        if isinstance(st, _ast.Assign) and len(st.targets) == 1 and isinstance(st.targets[0], _ast.Attribute) and \
                isinstance(st.targets[0].value, _ast.Name) and st.targets[0].value.id == "self" and isinstance(st.value, _ast.Call):
            fn = _ast.unparse(st.value.func)
            if fn.split(".")[-1][:1].isupper() or fn.split(".")[-1] in ("read_port", "write_port"):
                owned[st.targets[0].attr] = fn
    bad = []
    for name, fs in cls.methods.items():
        if name == "__init__":
            continue
        for f in fs:
            for st in _ast.walk(f.node):
                tg = st.targets if isinstance(st, _ast.Assign) else ([st.target] if isinstance(st, (_ast.AugAssign, _ast.AnnAssign)) else [])
                for t in tg:
                    if isinstance(t, _ast.Attribute) and isinstance(t.value, _ast.Name) and t.value.id == "self" and t.attr in owned:
                        bad.append((f, t.attr, st.lineno))
    for f, attr, ln in bad:
        rep.bad(rule, f.site, f"self.{attr} is bound once, by the constructor",
                f"{f.qual} rebinds self.{attr} (created by the constructor as {owned[attr]}(...)): objects built from the original -- the memory, "
                "its ports, the elaborated hardware -- keep using the old one, so the change never reaches them", line=ln)
    if not bad:
        rep.ok(rule, cls.site, f"constructor-owned objects of {cls.qual} are never rebound", f"{sorted(owned)}", nontrivial=bool(owned))


# What each constructor / setter refuses: (function, exception, condition over its parameters, what it protects).
# Confirmed by reading every raise in the constructors and setters of the package; compared as Boolean functions
# (common.refuses), so rewriting a test does not matter -- dropping or weakening one does.
PARAM_REFUSALS = [
    ("memory:MemoryMap.__init__", "ValueError", "not isinstance(addr_width, int) or addr_width <= 0", "address width is a positive integer"),
    ("memory:MemoryMap.__init__", "ValueError", "not isinstance(data_width, int) or data_width <= 0", "data width is a positive integer"),
    ("memory:MemoryMap.__init__", "ValueError", "not isinstance(alignment, int) or alignment < 0", "alignment is a non-negative integer"),
    ("memory:ResourceInfo.__init__", "TypeError", "not isinstance(start, int) or start < 0", "start is a non-negative integer"),
    ("memory:ResourceInfo.__init__", "TypeError", "not isinstance(end, int) or end <= start", "end lies beyond start"),
    ("memory:ResourceInfo.__init__", "TypeError", "not isinstance(width, int) or width < 0", "width is a non-negative integer"),
    ("csr/bus:Signature.__init__", "TypeError", "not isinstance(addr_width, int) or addr_width <= 0", "CSR address width is a positive integer"),
    ("csr/bus:Signature.__init__", "TypeError", "not isinstance(data_width, int) or data_width <= 0", "CSR data width is a positive integer"),
    ("csr/bus:Element.Signature.__init__", "TypeError", "not isinstance(width, int) or width < 0", "register width is a non-negative integer"),
    ("wishbone/bus:Signature.__init__", "TypeError", "not isinstance(addr_width, int) or addr_width < 0", "Wishbone address width is a non-negative integer"),
    ("wishbone/bus:Signature.__init__", "ValueError", "data_width not in (8, 16, 32, 64)", "Wishbone data width is 8/16/32/64"),
    ("wishbone/bus:Signature.__init__", "ValueError", "granularity not in (8, 16, 32, 64)", "Wishbone granularity is 8/16/32/64"),
    ("wishbone/bus:Signature.__init__", "ValueError", "granularity > data_width", "granularity does not exceed the data width"),
    ("csr/reg:Builder.__init__", "TypeError", "not isinstance(addr_width, int) or addr_width <= 0", "builder address width is a positive integer"),
    ("csr/reg:Builder.__init__", "TypeError", "not isinstance(data_width, int) or data_width <= 0", "builder data width is a positive integer"),
    ("csr/reg:Builder.__init__", "TypeError", "not isinstance(granularity, int) or granularity <= 0", "builder granularity is a positive integer"),
    ("csr/reg:Builder.__init__", "ValueError", "data_width != (data_width // granularity) * granularity", "granularity divides the data width"),
    ("csr/event:EventMonitor.__init__", "ValueError", "not isinstance(data_width, int) or data_width <= 0", "data width is a positive integer"),
    ("csr/event:EventMonitor.__init__", "ValueError", "not isinstance(alignment, int) or alignment < 0", "alignment is a non-negative integer"),
    ("gpio:Peripheral.__init__", "TypeError", "not isinstance(pin_count, int) or pin_count <= 0", "pin count is a positive integer"),
    ("gpio:Peripheral.__init__", "TypeError", "not isinstance(input_stages, int) or input_stages < 0", "input_stages is a non-negative integer"),
    ("wishbone/sram:WishboneSRAM.__init__", "TypeError", "not isinstance(size, int) or size <= 0 or size & size-1", "size is a positive power of two"),
    ("wishbone/sram:WishboneSRAM.__init__", "TypeError", "data_width not in (8, 16, 32, 64)", "data width is 8/16/32/64"),
    ("wishbone/sram:WishboneSRAM.__init__", "TypeError", "granularity not in (8, 16, 32, 64)", "granularity is 8/16/32/64"),
    ("wishbone/sram:WishboneSRAM.__init__", "ValueError", "size * granularity < data_width", "the memory holds at least one word"),
    ("event:Monitor.__init__", "TypeError", "not isinstance(event_map, EventMap)", "the event map is an EventMap"),
    ("csr/reg:Bridge.__init__", "TypeError", "not isinstance(memory_map, MemoryMap)", "the register map is a MemoryMap"),
]


def param_refusals(rep, rule, idx, only=None):
    """The domain of accepted parameters: every tabled condition is still refused with the tabled exception type."""
    from .common import get_fn, refuses
    n = 0
    for spec, exc, cond, what in PARAM_REFUSALS:
        if only is not None and not any(spec.endswith(o) or o in spec for o in only):
            continue
        try:
            c = get_fn(idx, spec)
        except Exception as e:
            rep.unk(rule, "-", f"{spec}: {what}", f"function not found: {e}")
            continue
        n += 1
        env = {}
        # a parameter with a None default that is resolved first (granularity=None -> data_width) is compared after that resolution
        fe = c.t.final_env
        for p_ in c.fi.params:
            v = fe.get(p_)
            v = c.norm(v) if isinstance(v, tuple) and v and isinstance(v[0], str) else v
            if isinstance(v, tuple) and v != ('name', p_) and v[0] == 'phi':
                env[p_] = v
        try:
            from .common import check_refusal
            check_refusal(rep, rule, c, f"{what} (else {exc})", cond, exc, env)
        except Exception as e:                              # pragma: no cover
            rep.unk(rule, c.fi.site, f"{what} (else {exc})", f"cannot decide: {e}")
            continue
    # the accepted domain is *closed*: these constructors refuse nothing but what the table lists.  (Bridge and ResourceInfo
    # have further, loop-shaped refusals that the table does not spell out; they are left open.)
    from .common import closed_refusals
    done_specs = []
    for spec, exc, cond, what in PARAM_REFUSALS:
        if spec in done_specs or spec in OPEN_CONSTRUCTORS or (only is not None and not any(spec.endswith(o) or o in spec for o in only)):
            continue
        done_specs.append(spec)
        try:
            closed_refusals(rep, rule, get_fn(idx, spec), f"{spec.split(':')[-1]} refuses nothing but the documented parameter errors")
        except Exception as e:                              # pragma: no cover
            rep.unk(rule, "-", f"{spec}: closed refusal set", f"cannot decide: {e}")
    # interface / component constructors that validate nothing themselves (their signature does): they must not start to
    for spec in NO_OWN_REFUSALS:
        if only is not None and not any(spec.endswith(o) or o in spec for o in only):
            continue
        try:
            closed_refusals(rep, rule, get_fn(idx, spec), f"{spec.split(':')[-1]} adds no refusal of its own (its signature validates the parameters)")
        except Exception as e:
            rep.unk(rule, "-", f"{spec}: closed refusal set", f"cannot decide: {e}")
    return n


OPEN_CONSTRUCTORS = ("csr/reg:Bridge.__init__", "memory:ResourceInfo.__init__")
NO_OWN_REFUSALS = ("wishbone/bus:Interface.__init__", "csr/bus:Interface.__init__", "csr/bus:Element.__init__", "event:Source.__init__")


def arith_refusal_atoms(rep, rule, idx, spec, allowed, allow_if=None, what=None, aliases=None):
    """No *extra* arithmetic refusal: every arithmetic test (%, //, &, <<, *) that guards a raise of `spec` is one of the
    documented ones.  A test with the same operators on other quantities (an address checked against the per-call alignment
    instead of the map's) refuses legal calls: a violation.  Other unknown arithmetic is undecided."""
    from .common import get_fn, raise_sites, _formula, _arith_atoms
    c = get_fn(idx, spec)
    site = c.fi.site
    what = what or f"{spec.split(':')[-1]}: arithmetic refusals are the documented ones"
    allowed_atoms = []
    local = {k: v for k, v in c.t.final_env.items() if isinstance(v, tuple) and v and v[0] not in ('localfn', 'localproc', 'listacc')
             and k not in c.fi.params}
    # names the documented tests use for derived quantities, whatever the function calls its own locals
    for nm, text in (aliases or {}).items():
        if nm not in local:
            try:
                v_ = c.norm(c.parse(text))
                local[nm] = ('phi', v_[1], v_[2], v_[3]) if v_[0] == 'ifexp' else v_
            except Exception:
                pass
    for t in allowed:
        allowed_atoms += _arith_atoms(c, c.eng.cond(c.parse(t, local)))
    ARITH = ('%', '//', '&', '|', '^', '<<', '>>', '*', '**', 'ceildiv', 'bit_length')

    def sig(ops):
        return tuple(o for o in ops if o in ARITH)
    ok_keys = {a for _, a, _ in allowed_atoms}
    ok_ops = {sig(o) for _, _, o in allowed_atoms}
    n = 0
    clean = True
    for conds, e, loops, ln, via in raise_sites(c):
        try:
            f = _formula(c, conds)
        except Exception:
            continue
        for names, a, ops in _arith_atoms(c, f):
            n += 1
            if a in ok_keys:
                continue
            air = c.eng.atom_ir.get(a)
            if allow_if is not None and air is not None and allow_if(air):
                continue
            clean = False
            if sig(ops) in ok_ops:
                rep.bad(rule, site, what, f"`raise {e}` at line {ln} is guarded by `{a}`: the documented test of that shape is on other quantities "
                        f"({sorted(ok_keys)[0][:70]}), so calls the documentation accepts are refused", line=ln)
            else:
                rep.unk(rule, site, what, f"`raise {e}` at line {ln} is guarded by the arithmetic test `{a}`, which is not one of the documented refusals")
    if clean:
        rep.ok(rule, site, what, f"{n} arithmetic atom(s) in refusal conditions, all documented", nontrivial=n > 0)


def vector_mux_selectors(rep, rule, idx, spec, what=None):
    """Mux(sel, a, b) converts `sel` to a single truth value (sel != 0).  A selector that is a concatenation with one bit per
    element of a collection (Cat over a comprehension / a list / several operands) therefore switches *all* bits of the result
    together as soon as any element's bit is set: the per-element choice the vector operands suggest is not made."""
    from .common import get_ctx
    from ..core import ir as _ir
    c = get_ctx(idx, spec)
    site = c.fi.site
    what = what or "Mux selectors are single conditions"
    n = 0
    bad = []
    for d in c.t.drivers:
        for e in [c.norm(d.value)] + [c.norm(fr[1]) for fr in d.dsl if fr[0] in ('if', 'elif')]:
            for x in _ir.walk(e):
                if x[0] == 'call' and x[1] == ('name', 'Mux') and len(x[2]) == 3:
                    n += 1
                    s = x[2][0]
                    if s[0] == 'call' and s[1] == ('name', 'Cat') and (len(s[2]) > 1 or (len(s[2]) == 1 and s[2][0][0] in ('gen', 'listacc', 'list', 'tuple'))):
                        bad.append((d, s))
    seen = set()
    for d, s in bad:
        k = _ir.show(s)
        if k in seen:
            continue
        seen.add(k)
        rep.bad(rule, site, f"Mux({_ir.show(s)[:60]}, ...)", "the selector is a concatenation with one bit per element; Mux tests it as a whole, so one "
                "element's bit switches the result for every element (use a bitwise mask, or select per element)", line=d.lineno)
    if not bad:
        rep.ok(rule, site, what, f"{n} Mux expression(s), none with a concatenation as selector", nontrivial=False)


def pairwise_reductions(rep, rule, idx, module_rel):
    """zip(xs[0::2], xs[1::2]) pairs neighbours; with an odd number of elements the last one has no partner and zip() stops
    before it.  A reduction tree built this way loses that element unless the function carries it over explicitly
    (xs[-1] / len(xs) % 2 / zip_longest)."""
    import ast as _ast
    n = 0
    for f in idx.all_functions_deep() if hasattr(idx, "all_functions_deep") else idx.all_functions():
        if f.module.rel != module_rel:
            continue
        for c_ in _ast.walk(f.node):
            if not (isinstance(c_, _ast.Call) and isinstance(c_.func, _ast.Name) and c_.func.id == "zip" and len(c_.args) == 2):
                continue
            a, b = c_.args

            def stride(e):
                if isinstance(e, _ast.Subscript) and isinstance(e.value, _ast.Name) and isinstance(e.slice, _ast.Slice) and \
                        isinstance(e.slice.step, _ast.Constant) and e.slice.step.value == 2 and e.slice.upper is None:
                    lo = e.slice.lower
                    return e.value.id, (0 if lo is None else lo.value if isinstance(lo, _ast.Constant) else None)
                return None
            sa_, sb_ = stride(a), stride(b)
            if not sa_ or not sb_ or sa_[0] != sb_[0] or {sa_[1], sb_[1]} != {0, 1}:
                continue
            n += 1
            xs = sa_[0]
            src = _ast.unparse(f.node)
            carried = any(k in src for k in (f"{xs}[-1]", f"len({xs}) % 2", f"len({xs}) & 1", "zip_longest"))
            what = f"zip({xs}[0::2], {xs}[1::2]) pairs every element"
            if carried:
                rep.unk(rule, f.site, what, "the function mentions the odd element; whether it is carried over on every level is not decided")
            else:
                rep.bad(rule, f.site, what, f"when `{xs}` has an odd number of elements the last one has no partner and zip() drops it: in a "
                        "reduction tree that element (here: the response of the last subordinate of a level) never reaches the result",
                        line=c_.lineno)
    return n


def partition_concatenations(rep, rule, idx, spec, what):
    """`Cat(f(x) for x in A + B)` (or a loop over `A + B`) where A and B are the two halves of a *filtered* split of one
    sequence S (`[x for x in S if c]`, `[x for x in S if not c]`): the result is in partition order, not in the order of S.
    A vector built that way has bit k belong to the k-th element of the regrouped list, not to element k of S, whenever the two
    kinds are interleaved in S."""
    import ast as _ast
    fi = idx.find_func(spec)
    filt = {}
    for n in _ast.walk(fi.node):
        if isinstance(n, _ast.Assign) and len(n.targets) == 1 and isinstance(n.targets[0], _ast.Name) and isinstance(n.value, _ast.ListComp) and \
                len(n.value.generators) == 1 and n.value.generators[0].ifs:
            filt[n.targets[0].id] = _ast.unparse(n.value.generators[0].iter)
    found = 0
    for n in _ast.walk(fi.node):
        if isinstance(n, _ast.BinOp) and isinstance(n.op, _ast.Add) and isinstance(n.left, _ast.Name) and isinstance(n.right, _ast.Name) and \
                n.left.id in filt and n.right.id in filt and filt[n.left.id] == filt[n.right.id] and n.left.id != n.right.id:
            found += 1
            rep.bad(rule, fi.site, f"{n.left.id} + {n.right.id}", f"the two filtered halves of `{filt[n.left.id]}` are concatenated: the result is in "
                    f"partition order, so position k of a vector built over it is not element k of `{filt[n.left.id]}` when the two kinds are "
                    f"interleaved ({what})", line=n.lineno)
    return found


def parameter_views(rep, rule, idx, only_modules=None):
    """A read-only property that mirrors a constructor parameter hands back that parameter: `x` returns `self._x` (what the
    constructor stored for `x`) or `self.signature.x` (the same-named view of the signature).  A getter that returns the
    stored value of *another* parameter of the same class is a swapped view: everything that reads the property -- the rules
    of this framework included, which treat getters as aliases of what they return -- sees the wrong quantity."""
    import ast as _ast
    n = 0
    for cls in idx.all_classes():
        if only_modules is not None and cls.module.rel not in only_modules:
            continue
        names = {nm for nm, fs in cls.methods.items() if any(f.is_property for f in fs)}
        init = cls.method("__init__")
        params = set(init.params) if init is not None else set()
        for nm in sorted(names):
            f = next(f_ for f_ in cls.methods[nm] if f_.is_property)
            body = [b for b in f.node.body if not (isinstance(b, _ast.Expr) and isinstance(b.value, _ast.Constant))]
            if len(body) != 1 or not isinstance(body[0], _ast.Return) or body[0].value is None:
                continue
            v = body[0].value
            got = None
            if isinstance(v, _ast.Attribute) and isinstance(v.value, _ast.Name) and v.value.id == "self" and v.attr.startswith("_"):
                got = v.attr[1:]
            elif isinstance(v, _ast.Attribute) and isinstance(v.value, _ast.Attribute) and isinstance(v.value.value, _ast.Name) and \
                    v.value.value.id == "self" and v.value.attr == "signature":
                got = v.attr
            if got is None or (nm not in params and nm not in names):
                continue
            if got != nm and nm in params and isinstance(v, _ast.Attribute) and isinstance(v.value, _ast.Name):
                # the value is kept under another private name (a field of a parameter record, a renamed attribute): it is the view of
                # `nm` when the constructor stores the parameter `nm` there
                try:
                    from .common import get_ctor as _gc
                    st0 = _gc(idx, cls).stores.get(f"self.{v.attr}")
                    if st0 is not None and _gc(idx, cls).norm(st0[0]) == ('name', nm):
                        got = nm
                except Exception:
                    pass
            n += 1
            if got == nm:
                rep.ok(rule, f.site, f"{cls.qual}.{nm} is a view of its own parameter", _ast.unparse(v), nontrivial=False)
                # ... and what the constructor stored there is the parameter, not a quantity computed from it: a clamped, scaled or
                # shifted copy makes the getter -- and all the hardware sized from the stored value -- disagree with the argument
                if nm in params and isinstance(v, _ast.Attribute) and isinstance(v.value, _ast.Name):
                    try:
                        from .common import get_ctor
                        ct = get_ctor(idx, cls)
                        st_ = ct.stores.get(f"self.{v.attr}")
                    except Exception:
                        st_ = None
                    if st_ is not None:
                        sv = ct.norm(st_[0])
                        P_ = ('name', nm)
                        arith = [x for x in ir.walk(sv) if ir.mentions(x, P_) and (
                            (x[0] == 'call' and x[1] in (('name', 'max'), ('name', 'min'), ('name', 'abs'))) or
                            (x[0] == 'lin' and (x[1] != 0 or any(co != 1 for _, co in x[2])) and any(ir.mentions(t_, P_) for t_, _ in x[2])) or
                            (x[0] == 'bin' and x[1] in ('//', '%', '<<', '>>', '**', '-', '+', '*')) or
                            (x[0] == 'nary' and x[1] == '*'))]
                        if arith and sv != P_:
                            rep.bad(rule, init.site, f"{cls.qual} keeps `{nm}` as given",
                                    f"the constructor stores {ir.show(sv)[:90]} under self._{nm}: for some accepted values this is not the "
                                    f"`{nm}` the caller passed, so the `{nm}` property and everything built from the stored value (delays, "
                                    "widths, counts) differ from what was asked for", line=getattr(init.node, 'lineno', None))
                        elif sv == P_:
                            rep.ok(rule, init.site, f"{cls.qual} keeps `{nm}` as given", "stored unchanged", nontrivial=False)
            elif (got in names or got in params) and (
                    any(isinstance(x, _ast.Attribute) and isinstance(x.ctx, _ast.Store) and x.attr == "_" + nm
                        for fs_ in cls.methods.values() for f_ in fs_ for x in _ast.walk(f_.node)) or
                    (isinstance(v.value, _ast.Attribute) and nm in params)):
                # the class does have a stored value (or a same-named signature view) for this property, and the getter hands out another one
                rep.bad(rule, f.site, f"{cls.qual}.{nm} is a view of its own parameter",
                        f"the getter returns {_ast.unparse(v)}, the stored value of `{got}`: `{nm}` and `{got}` are swapped for every reader "
                        "of the property (equality, create(), the interface's own views, and every component that sizes itself from it)",
                        line=v.lineno)
    rep.count("parameter_views", n)
    return n


def textual_memo_keys(rep, rule, idx):
    """A memo (a dict that files a computed value under a key and hands it out again for the same key) is only right when equal
    keys mean equal inputs.  A key made of the *text* of an object -- repr(x), str(x), an f-string, x.__name__, type(x).__name__ --
    or of its hash() is shared by distinct objects that print alike (two Enum / Struct classes of the same name, two layouts with the
    same field names but other widths): the second one is handed the value computed for the first.  (id(x) keys of objects the table
    itself keeps alive, and keys that are the value itself, are fine and are not reported.)"""
    import ast as _ast
    n = 0
    TEXT = ("repr", "str", "format", "hash", "ascii")
    for f in idx.all_functions():
        binds = {}
        for st in _ast.walk(f.node):
            if isinstance(st, _ast.Assign) and len(st.targets) == 1 and isinstance(st.targets[0], _ast.Name):
                binds.setdefault(st.targets[0].id, []).append(st.value)

        def textual(e, depth=0):
            """-> the object whose text the key is, or None."""
            if isinstance(e, _ast.Name) and len(binds.get(e.id, ())) == 1 and depth < 2:
                return textual(binds[e.id][0], depth + 1)
            if isinstance(e, _ast.Call) and isinstance(e.func, _ast.Name) and e.func.id in TEXT and len(e.args) == 1:
                return e.args[0]
            if isinstance(e, _ast.JoinedStr):
                vs = [v.value for v in e.values if isinstance(v, _ast.FormattedValue)]
                return vs[0] if vs else None
            if isinstance(e, _ast.Attribute) and e.attr in ("__name__", "__qualname__"):
                return e.value
            if isinstance(e, _ast.Tuple):
                for x in e.elts:
                    t = textual(x, depth)
                    if t is not None:
                        return t
            return None
        for st in _ast.walk(f.node):
            # D[K] = E   /   D.setdefault(K, E)
            tab = key = val = None
            if isinstance(st, _ast.Assign) and len(st.targets) == 1 and isinstance(st.targets[0], _ast.Subscript):
                tab, key, val = st.targets[0].value, st.targets[0].slice, st.value
            elif isinstance(st, _ast.Call) and isinstance(st.func, _ast.Attribute) and st.func.attr == "setdefault" and len(st.args) == 2:
                tab, key, val = st.func.value, st.args[0], st.args[1]
            if tab is None or not isinstance(tab, (_ast.Name, _ast.Attribute)):
                continue
            # a table that outlives the call: a module-level name or an attribute
            if isinstance(tab, _ast.Name) and (tab.id in binds or tab.id in f.params):
                continue
            n += 1
            obj = textual(key)
            if obj is None:
                continue
            src = _ast.unparse(obj)
            if not any(_ast.unparse(x) == src for x in _ast.walk(val)) and not (
                    isinstance(val, _ast.Name) and any(any(_ast.unparse(x) == src for x in _ast.walk(b)) for b in binds.get(val.id, ()))):
                continue                                # the stored value is not computed from that object: not a memo of it
            # is the table read back under the same key (a memo), here or elsewhere in the module?
            tname = _ast.unparse(tab)
            reads = any(isinstance(x, _ast.Subscript) and isinstance(x.ctx, _ast.Load) and _ast.unparse(x.value) == tname or
                        isinstance(x, _ast.Call) and isinstance(x.func, _ast.Attribute) and x.func.attr in ("get", "setdefault") and
                        _ast.unparse(x.func.value) == tname for g in idx.all_functions() if g.module is f.module for x in _ast.walk(g.node))
            if reads:
                rep.bad(rule, f.site, f"memo `{tname}` files what it computes for `{src}` under a key that identifies `{src}`",
                        f"the key is made of the text of `{src}` (`{_ast.unparse(key)[:50]}`): two different objects that print alike -- two "
                        "enumeration or layout classes of the same name, two shapes with the same field names -- share the entry, and the second "
                        "is handed the value computed for the first (its shape, its width, its members)", line=st.lineno)
    rep.ok(rule, "-", "memo tables are not keyed by the text of the object they describe", f"{n} keyed store(s) into long-lived tables examined",
           nontrivial=False)


def ports_not_rebound(rep, rule, idx):
    """`wiring.Component.__init__` creates one attribute per member of the signature, and that object *is* the port: its signature and
    orientation are what `connect()` checks, through the component or directly.  A method that assigns `self.<member> = ...` afterwards
    (an unwrapped `flipped(self.bus)`, a re-created interface) leaves the component's signature describing an object that is no longer
    there: the port is oriented or shaped differently from what the signature says."""
    import ast as _ast
    n = 0
    for cls in idx.all_classes():
        init = cls.method("__init__")
        if init is None:
            continue
        members = set()
        for x in _ast.walk(init.node):
            if isinstance(x, _ast.Call) and isinstance(x.func, _ast.Attribute) and x.func.attr == "__init__" and isinstance(x.func.value, _ast.Call) and \
                    isinstance(x.func.value.func, _ast.Name) and x.func.value.func.id == "super" and x.args and isinstance(x.args[0], _ast.Dict):
                members |= {k.value for k in x.args[0].keys if isinstance(k, _ast.Constant) and isinstance(k.value, str)}
        for st in cls.node.body:
            if isinstance(st, _ast.AnnAssign) and isinstance(st.target, _ast.Name) and isinstance(st.annotation, _ast.Call) and \
                    _ast.unparse(st.annotation.func) in ("In", "Out"):
                members.add(st.target.id)
        if not members:
            continue
        n += 1
        for fs in cls.methods.values():
            for f in fs:
                for st in _ast.walk(f.node):
                    tg = st.targets if isinstance(st, _ast.Assign) else ([st.target] if isinstance(st, (_ast.AugAssign, _ast.AnnAssign)) else [])
                    for t in tg:
                        for y in (t.elts if isinstance(t, (_ast.Tuple, _ast.List)) else [t]):
                            if isinstance(y, _ast.Attribute) and isinstance(y.value, _ast.Name) and y.value.id == "self" and y.attr in members:
                                rep.bad(rule, f.site, f"{cls.qual}.{y.attr} stays the port object its signature describes",
                                        f"`{_ast.unparse(st)[:70]}` rebinds the port attribute after the component was constructed: the "
                                        f"signature of {cls.qual} still declares `{y.attr}` as it was, but the attribute now is another object "
                                        "(another orientation or shape) -- connect() to it fails or wires it the wrong way round", line=st.lineno)
    rep.ok(rule, "-", "no component rebinds one of its port attributes", f"{n} component class(es) with declared members examined", nontrivial=n > 0)


def low_slice_switch(rep, rule, fi, subject_text):
    """AST-level companion of the decoder template (runs even when the walker does not model the function): a `Switch` whose subject is
    a *low slice* of the bus address, `<addr>[:K]` with K other than the address width, compares only those bits; when nothing else in
    the function tests the address (no other Switch / If / comparison mentions it with a lower bound), the bits from K up are tested
    nowhere and addresses outside every window alias into the windows.  Returns True when it reported."""
    import ast as _ast
    hits = []
    for n in _ast.walk(fi.node):
        if isinstance(n, _ast.Call) and isinstance(n.func, _ast.Attribute) and n.func.attr == "Switch" and len(n.args) == 1:
            a = n.args[0]
            if isinstance(a, _ast.Subscript) and _ast.unparse(a.value) == subject_text and isinstance(a.slice, _ast.Slice) and \
                    (a.slice.lower is None or (isinstance(a.slice.lower, _ast.Constant) and a.slice.lower.value == 0)) and \
                    a.slice.upper is not None and a.slice.step is None:
                up = _ast.unparse(a.slice.upper)
                width_names = (subject_text.rsplit(".", 1)[0] + ".addr_width", f"len({subject_text})")
                if up not in width_names:
                    hits.append((n, up))
    if not hits:
        return False
    # does anything else look at the upper bits?  <addr>[K:] / <addr> in a comparison, an If or another Switch
    others = 0
    for n in _ast.walk(fi.node):
        if isinstance(n, _ast.Call) and isinstance(n.func, _ast.Attribute) and n.func.attr in ("If", "Elif", "Switch") and n.args and \
                not any(n is h for h, _ in hits):
            if any(_ast.unparse(x) == subject_text for x in _ast.walk(n.args[0])):
                others += 1
    if others:
        return False
    n, up = hits[0]
    rep.bad(rule, fi.site, f"Switch({subject_text}[:K])",
            f"the comparators see only the address bits below K = {up[:70]}; the bits from K up to the address width are tested nowhere, so an "
            "address outside every window that agrees with a window's addresses in the low K bits selects that window (strobes and read "
            "data for an unassigned address)", line=n.lineno)
    return True


def setter_bypass(rep, rule, idx):
    """A property with a setter puts its validation and its side effects (type checks, geometry checks, freeze()) in that setter.  Code
    outside the class that stores to the private backing field of *another* object (`self.bus._memory_map = m`, `src._event_map = m`)
    skips all of it."""
    import ast as _ast
    backing = {}                                        # field -> (class qual, property name)
    for cls in idx.all_classes():
        for name, fs in cls.methods.items():
            for f in fs:
                if f.is_setter if hasattr(f, "is_setter") else any(d.endswith(".setter") for d in f.decorators):
                    for st in _ast.walk(f.node):
                        if isinstance(st, _ast.Assign):
                            for t in st.targets:
                                if isinstance(t, _ast.Attribute) and isinstance(t.value, _ast.Name) and t.value.id == "self" and t.attr.startswith("_"):
                                    backing[t.attr] = (cls, name)
    n = 0
    for f in idx.all_functions():
        for st in _ast.walk(f.node):
            if not isinstance(st, _ast.Assign):
                continue
            for t in st.targets:
                if isinstance(t, _ast.Attribute) and t.attr in backing:
                    cls, prop = backing[t.attr]
                    own = isinstance(t.value, _ast.Name) and t.value.id == "self" and f.cls is not None and \
                        (f.cls is cls or cls in idx.bases_of(f.cls) or f.cls in idx.bases_of(cls))
                    if own or (isinstance(t.value, _ast.Name) and t.value.id == "self" and f.cls is not None and f.cls.method(prop) is not None):
                        continue
                    if isinstance(st.value, _ast.Constant) and st.value.value is None:
                        continue
                    n += 1
                    rep.bad(rule, f.site, f"`{_ast.unparse(t)[:50]}` is set through the `{prop}` setter of {cls.qual}",
                            f"`{_ast.unparse(st)[:70]}` stores to the private field behind the property `{prop}` of another object: the setter's "
                            "checks and side effects (type / geometry validation, freeze()) do not run", line=st.lineno)
    rep.ok(rule, "-", "no function writes the private field behind another object's property setter",
           f"{len(backing)} backing field(s) of properties with setters: {sorted(backing)[:6]}", nontrivial=False)
